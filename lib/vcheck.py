"""Shared plumbing for /verif/bin/check.

Everything a per-property check needs: work dirs, building the Go harness against /repo's current working
tree, running TLC (exhaustive / generate / trace validation), known findings, evidence, exit codes.

Verdict rule (DESIGN.md 2.3): VIOLATION only from behaviour of the real code rejected by the P-spec and
reproduced; tool trouble is exit 2.
"""
import json, os, re, shutil, subprocess, sys, time, hashlib

VERIF = os.path.dirname(os.path.dirname(os.path.abspath(__file__)))
REPO = os.environ.get("VERIF_REPO", "/repo")
HARNESS = os.path.join(VERIF, "harness")
SPEC = os.path.join(VERIF, "spec")


import threading
_lock = threading.Lock()
_ctr = 0


class ToolFailure(Exception):
    """A tool (go build, TLC, harness) failed: exit 2, never a violation."""


def goenv():
    env = dict(os.environ)
    env["GOFLAGS"] = "-mod=mod"
    env["GOPROXY"] = "off"
    env.pop("GOTOOLCHAIN", None) if env.get("GOTOOLCHAIN") == "local" else None
    env.pop("GOSUMDB", None) if env.get("GOSUMDB") == "off" else None
    env.setdefault("GOCACHE", os.path.join(os.path.expanduser("~"), ".cache", "go-build"))
    return env


def sh(cmd, cwd=None, env=None, timeout=None, check=True, stdin=None):
    p = subprocess.run(cmd, cwd=cwd, env=env, timeout=timeout, stdin=stdin,
                       stdout=subprocess.PIPE, stderr=subprocess.STDOUT, text=True, errors="replace")
    if check and p.returncode != 0:
        raise ToolFailure("command failed (%d): %s\n%s" % (p.returncode, " ".join(cmd), p.stdout[-4000:]))
    return p


class TlcResult:
    def __init__(self, out, rc):
        self.out = out
        self.rc = rc
        self.generated = 0
        self.distinct = 0
        self.depth = 0
        m = None
        for m in re.finditer(r"(\d+) states generated, (\d+) distinct states found", out):
            pass
        if m:
            self.generated, self.distinct = int(m.group(1)), int(m.group(2))
        m = re.search(r"The depth of the complete state graph search is (\d+)", out)
        if m:
            self.depth = int(m.group(1))
        self.invariant_violated = re.findall(r"Invariant (\S+) is violated", out)
        self.property_violated = ("Temporal properties were violated" in out) or bool(
            re.search(r"Action property \S+ is violated", out))
        self.deadlock = "Deadlock reached" in out
        self.postcondition_false = bool(re.search(r"(?i)postcondition.*(false|violated)", out))
        self.assumption_false = "Assumption" in out and "is false" in out
        self.finished = "Model checking completed" in out or "Finished in" in out or "Finished computing" in out
        self.error = None
        if rc != 0 and not (self.invariant_violated or self.property_violated or self.deadlock
                            or self.postcondition_false or self.assumption_false):
            self.error = out[-3000:]
        # TLC prints PrintT values one per line
        self.printed = []

    @property
    def clean(self):
        return (self.rc == 0 and not self.invariant_violated and not self.property_violated
                and not self.deadlock and not self.postcondition_false and not self.assumption_false)

    def coverage_zero(self):
        """names of actions/lines with 0 count in -coverage output"""
        zs = []
        for line in self.out.splitlines():
            m = re.match(r"<(\w+) line .*>: (\d+):(\d+)$", line.strip())
            if m and int(m.group(3)) == 0 and int(m.group(2)) == 0:
                zs.append(m.group(1))
        return zs

    def action_counts(self):
        d = {}
        for line in self.out.splitlines():
            m = re.match(r"<(\w+) line .*>: (\d+):(\d+)$", line.strip())
            if m:
                d[m.group(1)] = d.get(m.group(1), 0) + int(m.group(3))
        return d


class Ctx:
    def __init__(self, pid, tier, seed, replay=None):
        self.pid = pid
        self.tier = tier
        self.seed = seed
        self.replay = replay
        self.t0 = time.time()
        self.work = os.path.join(VERIF, ".work", "%s-%s-%d" % (pid, tier, os.getpid()))
        shutil.rmtree(self.work, ignore_errors=True)
        os.makedirs(self.work)
        self.violations = []      # list of dict(key, what, replay)
        self.known_hits = []
        self.notes = []
        self.cov = {"states": 0, "transitions": 0, "traces_validated_against_impl": 0, "samples": [],
                    "evaluations": 0, "distinct_nontrivial": 0, "rule": "", "exhaustive": False,
                    "tlc_runs": [], "model_drift": 0}
        self.assumptions = []
        self.level = "model_checking"
        try:  # the level claimed in checks/registry.py is the one the evidence states
            from checks.registry import CLAIMED
            self.level = CLAIMED.get(pid, {}).get("level", self.level)
        except Exception:
            pass
        self._built = {}

    # ---------------- build
    def build_vh(self, race=False, tags="verif"):
        key = (race, tags)
        if key in self._built:
            return self._built[key]
        try:
            from lib import gomod
            gomod.generate(REPO, HARNESS)
        except OSError as e:
            raise ToolFailure("cannot generate harness go.mod/go.sum: %s" % e)
        out = os.path.join(self.work, "vh-race" if race else "vh")
        cmd = ["go", "build", "-tags", tags]
        if race:
            cmd.append("-race")
        cmd += ["-o", out, "./cmd/vh"]
        sh(cmd, cwd=HARNESS, env=goenv(), timeout=1500)
        self._built[key] = out
        return out

    def vh(self, args, race=False, timeout=1800, check=True, env_extra=None, stdin=None):
        exe = self.build_vh(race=race)
        env = goenv()
        env["VERIF_SEED"] = str(self.seed)
        env.update(getattr(self, "grammar_env", {}))
        if env_extra:
            env.update(env_extra)
        try:
            return sh([exe] + args, cwd=self.work, env=env, timeout=timeout, check=check, stdin=stdin)
        except subprocess.TimeoutExpired:
            raise ToolFailure("harness timed out: vh %s" % " ".join(args))

    def grammar_corpus(self, stride=1, per=3, maxlen=3, skstride=1):
        """the grammar corpus (spec/Frontend/ExprGen.tla expressions + ReadOnlyGate.tla clause skeletons) as one ndjson file;
        the harness reads it through VH_GRAMMAR (frontarea/grammar.go).  stride thins the depth-2 expressions for Models(),
        per = positions per depth-2 expression in the faithfulness run."""
        path = os.path.join(self.work, "grammar.ndjson")
        if not os.path.exists(path):
            r = self.tlc("Frontend", "ExprGen", "ExprGen.cfg", workers=1, timeout=900, copy_suffix="-gram")
            recs = self.printed_json(r.out)
            r2 = self.tlc("Frontend", "ReadOnlyGate", cfg_text="SPECIFICATION Spec\nCONSTANTS MaxLen = %d\nCHECK_DEADLOCK FALSE\n" % maxlen,
                          workers=8, timeout=1500, copy_suffix="-gram")
            sk = self.printed_json(r2.out)
            r3 = self.tlc("Frontend", "WithGen", "WithGen.cfg", workers=1, timeout=900, copy_suffix="-gram")
            recs += self.printed_json(r3.out)
            if len(recs) < 5000 or len(sk) < 100:
                raise ToolFailure("grammar generators printed %d expressions and %d skeletons:\n%s" % (len(recs), len(sk), (r.out + r2.out)[-1500:]))
            write_ndjson(path, recs + sk)
            self.cov["grammar_corpus"] = {"expressions": len(recs), "clause_skeletons": len(sk)}
        self.grammar_env = {"VH_GRAMMAR": path, "VH_GRAMMAR_STRIDE": str(stride), "VH_GRAMMAR_PER": str(per), "VH_GRAMMAR_SKSTRIDE": str(skstride)}
        return path

    # ---------------- TLC
    def spec_copy(self, area, suffix=""):
        """copy spec/<area> (and spec/lib) into the work dir; TLC litters its cwd"""
        dst = os.path.join(self.work, "spec-" + area.replace("/", "-") + suffix)
        if not os.path.isdir(dst):
            shutil.copytree(os.path.join(SPEC, area), dst)
            lib = os.path.join(SPEC, "lib")
            if os.path.isdir(lib):
                for f in os.listdir(lib):
                    if not os.path.exists(os.path.join(dst, f)):
                        shutil.copy(os.path.join(lib, f), dst)
        return dst

    def tlc(self, area, module, cfg=None, workers=8, timeout=1200, simulate=None, depth=None,
            coverage=False, constants=None, cfg_text=None, extra=None, dfid=None, label=None,
            record=True, deque=False, heap=None, copy_suffix=""):
        d = self.spec_copy(area, copy_suffix)
        cfg = cfg or (module + ".cfg")
        if cfg_text is not None:
            cfg = "%s_%s.cfg" % (module, hashlib.md5(cfg_text.encode()).hexdigest()[:8])
            with open(os.path.join(d, cfg), "w") as f:
                f.write(cfg_text)
        with _lock:
            global _ctr
            _ctr += 1
            meta = os.path.join(self.work, "meta-%s-%d" % (module, _ctr))
        cmd = ["tlc", "-metadir", meta, "-workers", str(workers), "-config", cfg, "-noGenerateSpecTE"]
        if simulate:
            cmd += ["-simulate", simulate, "-seed", str(self.seed)]
        if depth:
            cmd += ["-depth", str(depth)]
        if coverage:
            cmd += ["-coverage", "1"]
        if extra:
            cmd += extra
        cmd.append(module + ".tla")
        env = dict(os.environ)
        jto = env.get("JAVA_TOOL_OPTIONS", "")
        jto += " -Xss256m"
        jtmp = meta + "-jtmp"   # TLC leaves one tlc-<n> directory per run in java.io.tmpdir; keep them out of /tmp
        os.makedirs(jtmp, exist_ok=True)
        jto += " -Djava.io.tmpdir=" + jtmp
        if heap:
            jto += " -Xmx%s" % heap
        if deque:
            jto += " -Dtlc2.tool.queue.IStateQueue=StateDeque"
        env["JAVA_TOOL_OPTIONS"] = jto.strip()
        t = time.time()
        try:
            p = subprocess.run(cmd, cwd=d, env=env, timeout=timeout, stdout=subprocess.PIPE,
                               stderr=subprocess.STDOUT, text=True, errors="replace")
        except subprocess.TimeoutExpired:
            sh(["pkill", "-f", meta], check=False)
            raise ToolFailure("TLC timed out after %ds: %s %s" % (timeout, module, cfg))
        finally:
            shutil.rmtree(meta, ignore_errors=True)
            shutil.rmtree(jtmp, ignore_errors=True)
        out = re.sub(r"Picked up JAVA_TOOL_OPTIONS.*\n", "", p.stdout)
        r = TlcResult(out, p.returncode)
        r.wall = time.time() - t
        if record:
            self.cov["tlc_runs"].append({"module": module, "cfg": label or cfg, "generated": r.generated,
                                         "distinct": r.distinct, "depth": r.depth, "wall_s": round(r.wall, 2),
                                         "mode": "simulate" if simulate else "bfs"})
        if r.error:
            raise ToolFailure("TLC error in %s/%s (%s):\n%s" % (area, module, cfg, r.error))
        return r

    def tlc_check(self, area, module, cfg=None, count=True, **kw):
        """exhaustive model check of a design spec; a failure here is a broken model or a design lead,
        never a verdict about the code -> ToolFailure unless caller handles it"""
        r = self.tlc(area, module, cfg, **kw)
        if count:
            self.cov["states"] += r.distinct
            self.cov["transitions"] += r.generated
        return r

    @staticmethod
    def printed_json(out, prefix=None):
        """PrintT(ToJson(x)) lines come out as TLA+ string literals: "...json..." """
        res = []
        for line in out.splitlines():
            line = line.strip()
            if len(line) >= 2 and line[0] == '"' and line[-1] == '"':
                try:
                    s = json.loads(line)
                    if prefix is not None:
                        if not s.startswith(prefix):
                            continue
                        s = s[len(prefix):]
                    res.append(json.loads(s))
                except Exception:
                    continue
        return res

    def validate_trace(self, area, module, trace_path, cfg=None, timeout=1800, n_events=None,
                       constants=None, cfg_text=None, deque=False, heap="6g"):
        """run a *Trace.tla module over an ndjson trace (file name trace.ndjson inside the spec copy).
        returns (accepted, stuck_line, TlcResult).  Trace modules print <<"STUCK_AT_LINE", n>> on rejection."""
        with _lock:
            global _ctr
            _ctr += 1
            suffix = "-tv%d" % _ctr
        d = self.spec_copy(area, suffix)
        shutil.copyfile(trace_path, os.path.join(d, "trace.ndjson"))
        try:
            r = self.tlc(area, module, cfg, workers=1, timeout=timeout, cfg_text=cfg_text, record=True,
                         label="trace:" + (cfg or module), deque=deque, copy_suffix=suffix, heap=heap)
        finally:
            shutil.rmtree(d, ignore_errors=True)
        m = re.search(r'STUCK_AT_LINE"?,\s*(\d+)', r.out)
        if r.clean and not m:
            return True, None, r
        if m:
            return False, int(m.group(1)), r
        if r.invariant_violated:
            # an invariant failed while consuming the trace: find l from the printed state
            ls = re.findall(r"/\\ l = (\d+)", r.out)
            return False, (int(ls[-1]) - 1 if ls else -1), r
        raise ToolFailure("trace validation ended unexpectedly:\n" + r.out[-3000:])

    # ---------------- findings
    def load_known(self):
        p = os.path.join(VERIF, "known_findings.json")
        try:
            return [f for f in json.load(open(p))["findings"] if f["property"] == self.pid]
        except FileNotFoundError:
            return []

    def report(self, key, what, replay_obj):
        """register a confirmed (reproduced) violation; filtered through known findings"""
        for f in self.load_known():
            # a known finding names one violation class by its key, or a family of classes by a regular expression over keys
            if f.get("status") == "known" and (f["key"] == key or ("key_re" in f and re.fullmatch(f["key_re"], key))):
                if f["key"] not in [k["key"] for k in self.known_hits]:
                    self.known_hits.append({"key": f["key"], "what": f["what"]})
                return False
        if key in [v["key"] for v in self.violations]:
            return True
        rd = os.path.join(VERIF, "replays", self.pid)
        os.makedirs(rd, exist_ok=True)
        name = re.sub(r"[^A-Za-z0-9_.-]+", "_", key)[:80] + ".json"
        path = os.path.join(rd, name)
        with open(path, "w") as f:
            json.dump({"property": self.pid, "key": key, "what": what, "replay": replay_obj}, f, indent=1, default=str)
        self.violations.append({"key": key, "what": what, "replay": path})
        return True

    # ---------------- evidence / exit
    def finish(self):
        cov = self.cov
        ev = {
            "property_id": self.pid, "tier": self.tier, "seed": self.seed, "level": self.level,
            "coverage": cov, "assumptions": self.assumptions, "wall_s": round(time.time() - self.t0, 2),
            "violations": len(self.violations),
            "known_findings_hit": self.known_hits, "notes": self.notes,
        }
        cov["samples"] = cov["samples"][:6]
        if not cov.get("states"):
            # no exhaustive TLC run in this check: the schema takes absent keys, not zero counts
            cov.pop("states", None)
            cov.pop("transitions", None)
        if self.replay is None:
            # VERIF_EVIDENCE_DIR: development aid (side runs with other seeds must not overwrite the evidence of record)
            evdir = os.environ.get("VERIF_EVIDENCE_DIR") or os.path.join(VERIF, "evidence")
            os.makedirs(evdir, exist_ok=True)
            tmp = os.path.join(evdir, ".%s.json.tmp" % self.pid)
            with open(tmp, "w") as f:
                json.dump(ev, f, indent=1, default=str)
            os.replace(tmp, os.path.join(evdir, "%s.json" % self.pid))
        for k in self.known_hits:
            print("KNOWN-FINDING: property=%s %s [%s]" % (self.pid, k["what"], k["key"]))
        for v in self.violations:
            print("VIOLATION property=%s replay=%s" % (self.pid, v["replay"]))
            print("  " + v["what"])
        shutil.rmtree(self.work, ignore_errors=True)
        return 1 if self.violations else 0


def write_ndjson(path, events):
    with open(path, "w") as f:
        for e in events:
            f.write(json.dumps(e, separators=(",", ":")) + "\n")


def read_ndjson(path):
    out = []
    with open(path) as f:
        for line in f:
            line = line.strip()
            if line:
                out.append(json.loads(line))
    return out


def group_by_hid(lines, field="hid"):
    """lines: raw ndjson lines. returns (order, groups) with groups[hid] = list of raw lines"""
    order, groups = [], {}
    for ln in lines:
        h = json.loads(ln).get(field)
        if h not in groups:
            groups[h] = []
            order.append(h)
        groups[h].append(ln)
    return order, groups


def _validate_chunk(ctx, area, module, groups, hids, cfg, deque, timeout, cfg_text, max_cand, tag, quiet=False):
    rejected = []
    accepted = 0
    cur = list(hids)
    while cur:
        flat, owner = [], []
        for h in cur:
            for ln in groups[h]:
                flat.append(ln)
                owner.append(h)
        p = os.path.join(ctx.work, "vt-%s-%s.ndjson" % (module, tag))
        with open(p, "w") as f:
            f.write("\n".join(flat) + "\n")
        ok, stuck, r = ctx.validate_trace(area, module, p, cfg=cfg, deque=deque, timeout=timeout, cfg_text=cfg_text)
        os.unlink(p)
        if ok:
            break
        if stuck is None or stuck < 1 or stuck > len(flat):
            raise ToolFailure("trace validation rejected without a usable position (%r)\n%s" % (stuck, r.out[-1500:]))
        h = owner[stuck - 1]
        first = owner.index(h)
        rejected.append((h, json.loads(flat[stuck - 1]), [json.loads(x) for x in groups[h]], stuck - 1 - first))
        # histories are independent (each starts from the monitor's reset): everything before the rejected one was
        # accepted in this pass and need not be validated again
        at = cur.index(h)
        accepted += at
        cur = cur[at + 1:]
        # the budget of rejected histories is shared by the chunks of one call: a change that breaks most histories must
        # not cost chunks x max_cand TLC runs before the first one is reported
        with _lock:
            budget = getattr(ctx, "_rej_budget", None)
            if budget is not None:
                budget[0] += 1
                spent = budget[0] >= max_cand
            else:
                spent = False
        if len(rejected) >= max_cand or spent:
            if not quiet and cur:
                ctx.notes.append("%d rejected histories in one chunk of %s; remaining %d histories of that chunk not validated"
                                 % (max_cand, module, len(cur)))
            return accepted, rejected
    return accepted + len(cur), rejected


def validate_histories(ctx, area, module, trace_path, cfg=None, field="hid", max_cand=8, deque=False,
                       timeout=1800, cfg_text=None, chunk_events=300000, parallel=6, quiet=False):
    """Validate a Reset-concatenated trace against a *Trace.tla module.  The trace is cut into chunks of whole
    histories that are validated in parallel (one TLC each, -workers 1: the high-water mark register needs it).
    On rejection the offending history is set aside and the rest of its chunk is re-validated, so the remainder
    is always checked.  returns (n_accepted_histories, rejected) with
    rejected = [(hid, stuck_event, [events of that history], index of stuck event in history)]"""
    from concurrent.futures import ThreadPoolExecutor
    lines = [ln for ln in open(trace_path).read().splitlines() if ln.strip()]
    order, groups = group_by_hid(lines, field)
    chunks, cur, n = [], [], 0
    for h in order:
        cur.append(h)
        n += len(groups[h])
        if n >= chunk_events:
            chunks.append(cur)
            cur, n = [], 0
    if cur:
        chunks.append(cur)
    if not chunks:
        return 0, []
    ctx._rej_budget = [0]
    with ThreadPoolExecutor(max_workers=parallel) as ex:
        futs = [ex.submit(_validate_chunk, ctx, area, module, groups, c, cfg, deque, timeout, cfg_text, max_cand, i, quiet)
                for i, c in enumerate(chunks)]
        res = [f.result() for f in futs]
    return sum(r[0] for r in res), [x for r in res for x in r[1]]

"""Generate harness/go.mod from /repo/go.mod: same requirement set (so the module graph is pruned exactly like the
repository's and nothing outside the module cache is consulted), plus the replace of dawgs by /repo."""
import os, re


def generate(repo, harness):
    src = open(os.path.join(repo, "go.mod")).read()
    m = re.search(r"^go\s+(\S+)", src, re.M)
    gover = m.group(1) if m else "1.23"
    reqs = re.findall(r"^require\s*\((.*?)^\)", src, re.M | re.S)
    single = re.findall(r"^require\s+([^(\s]\S*\s+v\S+.*)$", src, re.M)
    lines = []
    for block in reqs:
        for ln in block.splitlines():
            ln = ln.strip()
            if ln and not ln.startswith("//"):
                lines.append(ln)
    lines += [s.strip() for s in single]
    out = ["module dawgsverif", "", "go " + gover, "", "require github.com/specterops/dawgs v0.0.0", "", "require ("]
    out += ["\t" + l for l in lines]
    out += [")", "", "replace github.com/specterops/dawgs => " + repo, ""]
    text = "\n".join(out)
    p = os.path.join(harness, "go.mod")
    if not os.path.exists(p) or open(p).read() != text:
        open(p, "w").write(text)
    s1 = open(os.path.join(repo, "go.sum"), "rb").read()
    p2 = os.path.join(harness, "go.sum")
    if not os.path.exists(p2) or open(p2, "rb").read() != s1:
        open(p2, "wb").write(s1)


if __name__ == "__main__":
    import sys
    generate(sys.argv[1] if len(sys.argv) > 1 else "/repo", os.path.join(os.path.dirname(os.path.dirname(os.path.abspath(__file__))), "harness"))

---------------------------- MODULE MatchSemTest ----------------------------
EXTENDS MatchSem
N(v, ks) == [t |-> "node", v |-> v, kinds |-> ks]
R(v, ks, d) == [t |-> "rel", v |-> v, kinds |-> ks, dir |-> d, single |-> TRUE, lo |-> 1, hi |-> 1]
RV(v, ks, d, lo, hi) == [t |-> "rel", v |-> v, kinds |-> ks, dir |-> d, single |-> FALSE, lo |-> lo, hi |-> hi]
G == [n |-> 3, kinds |-> << <<1>>, <<2>>, <<1, 2>> >>, edges |-> << [s |-> 1, t |-> 2, k |-> 1], [s |-> 2, t |-> 3, k |-> 1], [s |-> 3, t |-> 3, k |-> 2] >>]
Q1 == [hidden |-> <<>>, parts |-> << [carry |-> <<>>, drop |-> <<>>, clauses |-> << [t |-> "match", atoms |-> <<>>, pats |-> << [pv |-> "p", rev |-> FALSE, els |-> <<N("a", <<>>), R("r", <<>>, "out"), N("b", <<>>)>>] >>] >> ] >>]
Q1r == [hidden |-> <<>>, parts |-> << [carry |-> <<>>, drop |-> <<>>, clauses |-> << [t |-> "match", atoms |-> <<>>, pats |-> << [pv |-> "p", rev |-> TRUE, els |-> <<N("b", <<>>), R("r", <<>>, "in"), N("a", <<>>)>>] >>] >> ] >>]
Q1bad == [hidden |-> <<>>, parts |-> << [carry |-> <<>>, drop |-> <<>>, clauses |-> << [t |-> "match", atoms |-> <<>>, pats |-> << [pv |-> "p", rev |-> FALSE, els |-> <<N("b", <<>>), R("r", <<>>, "in"), N("a", <<>>)>>] >>] >> ] >>]
Q2 == [hidden |-> <<"_1">>, parts |-> << [carry |-> <<>>, drop |-> <<>>, clauses |-> << [t |-> "match", atoms |-> <<>>, pats |-> << [pv |-> "", rev |-> FALSE, els |-> <<N("a", <<1>>), RV("_1", <<1>>, "out", 1, 0), N("b", <<>>)>>] >>] >> ] >>]
Q3 == [hidden |-> <<>>, parts |-> << [carry |-> <<>>, drop |-> <<>>, clauses |-> << [t |-> "match", atoms |-> <<>>, pats |-> << [pv |-> "", rev |-> FALSE, els |-> <<N("a", <<>>)>>] >>],
                                        [t |-> "optional", atoms |-> <<>>, pats |-> << [pv |-> "", rev |-> FALSE, els |-> <<N("a", <<>>), R("r", <<2>>, "out"), N("c", <<>>)>>] >>] >> ] >>]
Q4 == [hidden |-> <<"_w0_a", "_w0_r">>, parts |-> <<
          [carry |-> <<[f |-> "b", t |-> "x"]>>, drop |-> <<[f |-> "a", t |-> "_w0_a"], [f |-> "r", t |-> "_w0_r"]>>,
           clauses |-> << [t |-> "match", atoms |-> <<>>, pats |-> << [pv |-> "", rev |-> FALSE, els |-> <<N("a", <<>>), R("r", <<>>, "out"), N("b", <<>>)>>] >>] >>],
          [carry |-> <<>>, drop |-> <<>>,
           clauses |-> << [t |-> "match", atoms |-> <<>>, pats |-> << [pv |-> "", rev |-> FALSE, els |-> <<N("x", <<>>), R("q", <<>>, "out"), N("c", <<>>)>>] >>] >>] >>]
ASSUME PrintT(<<"Q4", Results(G, Q4)>>)
ASSUME Cardinality(Rows(G, Q4)) = 3      \* 1->2 then 2->3; 2->3 then 3->3; 3->3 then 3->3 (uniqueness is per MATCH clause)
ASSUME PrintT(<<"Q1", Cardinality(Rows(G, Q1))>>)
ASSUME Cardinality(Rows(G, Q1)) = 3
ASSUME SameResults(G, Q1, Q1r)
ASSUME ~SameResults(G, Q1, Q1bad)
ASSUME PrintT(<<"Q2", Rows(G, Q2)>>)
ASSUME Cardinality(Rows(G, Q2)) = 2          \* 1->2, 1->2->3 (node 3 has kind 1 too: 3 has no outgoing kind-1 edge)
ASSUME PrintT(<<"Q3", Rows(G, Q3)>>)
ASSUME Cardinality(Rows(G, Q3)) = 3          \* a=1 null, a=2 null, a=3 with the loop
VARIABLE x
Spec == x = 0 /\ [][x' = x]_x
=============================================================================

SPECIFICATION Spec

------------------------------ MODULE QueryGen ------------------------------
(* Query skeletons that exercise the optimiser's rewrites: sequences of MATCH / OPTIONAL MATCH clauses over the   *)
(* variables a, b, c - node anchors of differing selectivity, single steps, variable-length steps and two-step    *)
(* chains with a leading unbounded expansion (the shape the inbound-reversal rule looks for), with conditions on  *)
(* either endpoint.  Used under -simulate: every walk that ends in Emit prints one skeleton.                      *)
(*   [opt, shape: "node" | "step" | "var" | "chain" | "chain3" (three hops), x, y, xk, yk, sel, pv, dir]                                  *)
(*   xk, yk: kind of the endpoint (0: none); sel: 0 no condition, 1 condition on x, 2 on y, 3 on both;           *)
(*   pv: bind a path variable; dir: "out" | "in" | "both"; w: a WITH follows the clause, handing on every variable   *)
(*   bound so far ("all") or only x ("x"); xc: a condition of this clause that reads a variable an earlier clause     *)
(*   bound - "eq": x.v = prev.v, "any": any(i in x.list where i = prev.v), "noneof": none(i in prev.list where i = x.v) *)
(*   (the harness leaves it out when no earlier variable other than x and y is in scope)                              *)
EXTENDS Integers, Sequences, FiniteSets, TLC, Json
CONSTANTS MaxClauses, Shapes, Family
VARIABLES q, emitted, cur
Vars == {"a", "b", "c"}
Clause == [opt : BOOLEAN, shape : Shapes, x : Vars, y : Vars, xk : 0..2, yk : 0..2, sel : 0..3, pv : BOOLEAN, dir : {"out", "in", "both"}, w : {"none", "all", "x"}, xc : {"none", "eq", "any", "noneof"}]
Sane(c) == /\ c.x # c.y
           /\ (c.shape = "node") => (c.y = (CHOOSE v \in Vars : v # c.x) /\ c.yk = 0 /\ c.sel \in {0, 1} /\ ~c.pv /\ c.dir = "out")
           /\ (c.shape \notin {"chain", "chain3"}) => c.dir # "both" \/ c.shape = "step"
\* the anchor family, printed in full when Family = "anchors": two node anchors of every selectivity followed by a step
\* between them - the shape the reordering rule works on
NodeClauseX(v, k, sel, xc) == [opt |-> FALSE, shape |-> "node", x |-> v, y |-> (CHOOSE w \in Vars : w # v), xk |-> k, yk |-> 0, sel |-> sel, pv |-> FALSE, dir |-> "out", w |-> "none", xc |-> xc]
NodeClause(v, k, sel) == NodeClauseX(v, k, sel, "none")
AnchorSeqsAll == {<<NodeClause(x, xk, s1), NodeClause(y, yk, s2), [opt |-> o, shape |-> sh, x |-> x, y |-> y, xk |-> 0, yk |-> 0, sel |-> 0, pv |-> pv, dir |-> d, w |-> "none", xc |-> "none"]>> :
                 x \in {"a", "b"}, y \in {"b", "c"}, xk \in 0..2, yk \in 0..2, s1 \in 0..1, s2 \in 0..1, sh \in {"step", "var"}, d \in {"out", "in"}, pv \in BOOLEAN, o \in BOOLEAN}
\* two anchors, the second one reading the first through a condition of every form: what the reordering rule must not turn around
CrossSeqs == {<<NodeClause(x, xk, s1), NodeClauseX(y, yk, s2, xc)>> : x \in {"a", "b"}, y \in {"b", "c"}, xk \in 0..2, yk \in 0..2, s1 \in 0..1, s2 \in 0..1, xc \in {"eq", "any", "noneof"}}
           \cup {<<NodeClause(x, xk, 0), NodeClauseX(y, yk, s2, xc), [opt |-> FALSE, shape |-> "step", x |-> y, y |-> "c", xk |-> 0, yk |-> 0, sel |-> 0, pv |-> FALSE, dir |-> d, w |-> "none", xc |-> "none"]>> :
                   x \in {"a"}, y \in {"b"}, xk \in 0..2, yk \in 0..2, s2 \in 0..1, xc \in {"eq", "any", "noneof"}, d \in {"out", "in"}}
AnchorSeqs == {s \in AnchorSeqsAll : s[1].x # s[2].x}
ASSUME Family = "anchors" => \A s \in AnchorSeqs : PrintT(ToJson(s))
ASSUME Family = "anchors" => \A s \in {t \in CrossSeqs : t[1].x # t[2].x} : PrintT(ToJson(s))
\* the random family builds a clause in three small choices (a walk step enumerates every successor: one choice over the whole
\* clause record set costs a hundred thousand successors per step)
Init == q = <<>> /\ emitted = FALSE /\ cur = <<>>
Pick1 == /\ Family = "random" /\ ~emitted /\ Len(q) < MaxClauses /\ cur = <<>>
         /\ \E sh \in Shapes, x \in Vars, y \in Vars, d \in {"out", "in", "both"} : cur' = <<[shape |-> sh, x |-> x, y |-> y, dir |-> d]>>
         /\ UNCHANGED <<q, emitted>>
Pick2 == /\ Len(cur) = 1
         /\ \E xk \in 0..2, yk \in 0..2, sel \in 0..3 : cur' = Append(cur, [xk |-> xk, yk |-> yk, sel |-> sel])
         /\ UNCHANGED <<q, emitted>>
Pick3 == /\ Len(cur) = 2
         /\ \E o \in BOOLEAN, pv \in BOOLEAN, w \in {"none", "all", "x"}, xc \in {"none", "eq", "any", "noneof"} :
              LET c == [opt |-> o, shape |-> cur[1].shape, x |-> cur[1].x, y |-> cur[1].y, xk |-> cur[2].xk, yk |-> cur[2].yk, sel |-> cur[2].sel, pv |-> pv,
                        dir |-> cur[1].dir, w |-> w, xc |-> xc] IN
              /\ Sane(c) /\ (q = <<>> => (~c.opt /\ c.xc = "none")) /\ (Len(q) = MaxClauses - 1 => c.w = "none")
              /\ q' = Append(q, c) /\ cur' = <<>>
         /\ UNCHANGED emitted
\* a partial clause that no third choice completes is dropped
Drop == /\ Len(cur) = 2 /\ ~ENABLED Pick3 /\ cur' = <<>> /\ UNCHANGED <<q, emitted>>
Emit == /\ ~emitted /\ cur = <<>> /\ q # <<>> /\ q[Len(q)].w = "none"
        /\ PrintT(ToJson(q)) /\ emitted' = TRUE /\ UNCHANGED <<q, cur>>
Next == Pick1 \/ Pick2 \/ Pick3 \/ Drop \/ Emit
Spec == Init /\ [][Next]_<<q, emitted, cur>>
=============================================================================

------------------------------ MODULE QueryGen ------------------------------
(* Query skeletons that exercise the optimiser's rewrites: sequences of MATCH / OPTIONAL MATCH clauses over the   *)
(* variables a, b, c - node anchors of differing selectivity, single steps, variable-length steps and two-step    *)
(* chains with a leading unbounded expansion (the shape the inbound-reversal rule looks for), with conditions on  *)
(* either endpoint.  Used under -simulate: every walk that ends in Emit prints one skeleton.                      *)
(*   [opt, shape: "node" | "step" | "var" | "chain" | "chain3" (three hops), x, y, xk, yk, sel, pv, dir]                                  *)
(*   xk, yk: kind of the endpoint (0: none); sel: 0 no condition, 1 condition on x, 2 on y, 3 on both;           *)
(*   pv: bind a path variable; dir: "out" | "in" | "both"; w: a WITH follows the clause, handing on every variable   *)
(*   bound so far ("all") or only x ("x")                                                                         *)
EXTENDS Integers, Sequences, FiniteSets, TLC, Json
CONSTANTS MaxClauses, Shapes, Family
VARIABLES q, emitted
Vars == {"a", "b", "c"}
Clause == [opt : BOOLEAN, shape : Shapes, x : Vars, y : Vars, xk : 0..2, yk : 0..2, sel : 0..3, pv : BOOLEAN, dir : {"out", "in", "both"}, w : {"none", "all", "x"}]
Sane(c) == /\ c.x # c.y
           /\ (c.shape = "node") => (c.y = (CHOOSE v \in Vars : v # c.x) /\ c.yk = 0 /\ c.sel \in {0, 1} /\ ~c.pv /\ c.dir = "out")
           /\ (c.shape \notin {"chain", "chain3"}) => c.dir # "both" \/ c.shape = "step"
\* the anchor family, printed in full when Family = "anchors": two node anchors of every selectivity followed by a step
\* between them - the shape the reordering rule works on
NodeClause(v, k, sel) == [opt |-> FALSE, shape |-> "node", x |-> v, y |-> (CHOOSE w \in Vars : w # v), xk |-> k, yk |-> 0, sel |-> sel, pv |-> FALSE, dir |-> "out", w |-> "none"]
AnchorSeqsAll == {<<NodeClause(x, xk, s1), NodeClause(y, yk, s2), [opt |-> o, shape |-> sh, x |-> x, y |-> y, xk |-> 0, yk |-> 0, sel |-> 0, pv |-> pv, dir |-> d, w |-> "none"]>> :
                 x \in {"a", "b"}, y \in {"b", "c"}, xk \in 0..2, yk \in 0..2, s1 \in 0..1, s2 \in 0..1, sh \in {"step", "var"}, d \in {"out", "in"}, pv \in BOOLEAN, o \in BOOLEAN}
AnchorSeqs == {s \in AnchorSeqsAll : s[1].x # s[2].x}
ASSUME Family = "anchors" => \A s \in AnchorSeqs : PrintT(ToJson(s))
Init == q = <<>> /\ emitted = FALSE
Add == /\ Family = "random" /\ ~emitted /\ Len(q) < MaxClauses
       /\ \E c \in Clause : Sane(c) /\ (q = <<>> => ~c.opt) /\ (Len(q) = MaxClauses - 1 => c.w = "none") /\ q' = Append(q, c)
       /\ UNCHANGED emitted
Emit == /\ ~emitted /\ q # <<>> /\ q[Len(q)].w = "none"
        /\ PrintT(ToJson(q)) /\ emitted' = TRUE /\ UNCHANGED q
Next == Add \/ Emit
Spec == Init /\ [][Next]_<<q, emitted>>
=============================================================================

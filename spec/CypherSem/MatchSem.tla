------------------------------ MODULE MatchSem ------------------------------
(* openCypher matching semantics for the fragment the optimiser's query rewrites touch (C02, Cypher half):       *)
(* a sequence of MATCH / OPTIONAL MATCH clauses, each a list of pattern parts (node and relationship patterns    *)
(* with kinds, directions, variable-length ranges, path variables) and a WHERE condition, evaluated over a       *)
(* finite property graph to a bag of binding rows.  Relationships are unique within one MATCH clause.            *)
(* WHERE conditions and inline property maps are uninterpreted: a condition is an atom [id, vars] whose truth is  *)
(* a fixed function of its id and the entities its variables are bound to (false if one of them is null) - the  *)
(* rewrites move clauses and turn patterns around but never change a condition, so any such function will do.    *)
(*   graph   [n, kinds (per node: sequence of kind numbers), edges (sequence of [s, t, k])]                      *)
(*   query   [parts: sequence of [clauses, carry, drop], hidden]; a part's WITH hands variables on ([f, t] pairs)  *)
(*   clause  [t: "match" | "optional", pats, atoms]                                                              *)
(*   pat     [pv: path variable or "", rev: reversed by the optimiser, els: node, rel, node, ...]                *)
(*   node    [t: "node", v, kinds (all of them required)]                                                        *)
(*   rel     [t: "rel", v, kinds (any of them; none: any kind), dir: "out" | "in" | "both", single, lo, hi]     *)
(* Anonymous elements carry made-up names listed in q.hidden; rows are compared as bags over the other names.    *)
EXTENDS Integers, Sequences, FiniteSets, TLC
\* values are tagged pairs, so that TLC can compare any two of them: a node, an edge, a list of edges, a path, null
Null == <<"0", 0>>
NodeVal(i) == <<"n", i>>
EdgeVal(j) == <<"e", j>>
IsNode(v) == v[1] = "n"
Range(s) == {s[i] : i \in DOMAIN s}
RECURSIVE Rev(_)
Rev(s) == IF s = <<>> THEN <<>> ELSE Append(Rev(Tail(s)), Head(s))
Code(v) == CASE v[1] = "n" -> v[2] [] v[1] = "e" -> 100 + v[2] [] v[1] = "0" -> 0 [] OTHER -> Len(v[2]) + 50
RECURSIVE SumCodes(_)
SumCodes(vals) == IF vals = <<>> THEN 0 ELSE Code(Head(vals)) + SumCodes(Tail(vals))
\* the uninterpreted condition number id on the given values
Holds(id, vals) == (\A i \in DOMAIN vals : vals[i] # Null) /\ ((id + SumCodes(vals)) % 3 # 0)
AtomHolds(a, row) == Holds(a.id, [i \in DOMAIN a.vars |-> IF a.vars[i] \in DOMAIN row THEN row[a.vars[i]] ELSE Null])
NodeOk(g, el, i) == \A k \in Range(el.kinds) : k \in Range(g.kinds[i])
EdgeOk(el, e) == el.kinds = <<>> \/ e.k \in Range(el.kinds)
\* single steps from node cur along pattern relationship el: {[e: edge index, to: node]}
Steps(g, el, cur, used) ==
   {[e |-> j, to |-> IF g.edges[j].s = cur THEN g.edges[j].t ELSE g.edges[j].s] :
       j \in {x \in DOMAIN g.edges : /\ x \notin used /\ EdgeOk(el, g.edges[x])
                                      /\ \/ el.dir \in {"out", "both"} /\ g.edges[x].s = cur
                                         \/ el.dir \in {"in", "both"} /\ g.edges[x].t = cur}}
\* for "both" a self loop is one step, not two (the set comprehension already merges them)
RECURSIVE Expand(_, _, _, _, _, _, _)
\* walks of el from cur: {[to, es: edge indexes, ns: nodes after each edge, used]} with lo <= length <= hi
Expand(g, el, cur, used, es, ns, hi) ==
   (IF Len(es) >= el.lo THEN {[to |-> cur, es |-> es, ns |-> ns, used |-> used]} ELSE {})
   \cup (IF Len(es) >= hi THEN {}
         ELSE UNION {Expand(g, el, st.to, used \cup {st.e}, Append(es, st.e), Append(ns, st.to), hi) : st \in Steps(g, el, cur, used)})
Bind(row, v, val) == IF v \in DOMAIN row THEN row ELSE row @@ (v :> val)
Agrees(row, v, val) == v \notin DOMAIN row \/ row[v] = val
RECURSIVE Walk(_, _, _, _, _, _)
\* continue pattern pat from element index idx (a relationship), standing on node cur; trail: the path so far
Walk(g, pat, idx, cur, st, trail) ==
   IF idx > Len(pat.els) THEN {[row |-> st.row, used |-> st.used, trail |-> trail]}
   ELSE LET rel == pat.els[idx] nxt == pat.els[idx + 1] IN
        IF rel.single
        THEN UNION {IF NodeOk(g, nxt, s.to) /\ Agrees(st.row, nxt.v, NodeVal(s.to)) /\ Agrees(st.row, rel.v, EdgeVal(s.e))
                    THEN Walk(g, pat, idx + 2, s.to, [row |-> Bind(Bind(st.row, rel.v, EdgeVal(s.e)), nxt.v, NodeVal(s.to)), used |-> st.used \cup {s.e}],
                              trail \o <<EdgeVal(s.e), NodeVal(s.to)>>)
                    ELSE {} : s \in Steps(g, rel, cur, st.used)}
        ELSE LET hi == IF rel.hi = 0 THEN Len(g.edges) ELSE rel.hi IN
             UNION {IF NodeOk(g, nxt, w.to) /\ Agrees(st.row, nxt.v, NodeVal(w.to)) /\ Agrees(st.row, rel.v, <<"l", w.es>>)
                    THEN Walk(g, pat, idx + 2, w.to, [row |-> Bind(Bind(st.row, rel.v, <<"l", w.es>>), nxt.v, NodeVal(w.to)), used |-> w.used],
                              trail \o [i \in 1..(2 * Len(w.es)) |-> IF i % 2 = 1 THEN EdgeVal(w.es[(i + 1) \div 2]) ELSE NodeVal(w.ns[i \div 2])])
                    ELSE {} : w \in Expand(g, rel, cur, st.used, <<>>, <<>>, hi)}
MatchPat(g, pat, st) ==
   LET first == pat.els[1]
       starts == IF first.v \in DOMAIN st.row THEN (IF IsNode(st.row[first.v]) THEN {st.row[first.v][2]} ELSE {}) ELSE 1..g.n
       done == UNION {IF NodeOk(g, first, i) THEN Walk(g, pat, 2, i, [row |-> Bind(st.row, first.v, NodeVal(i)), used |-> st.used], <<NodeVal(i)>>) ELSE {} : i \in starts}
   IN {[row |-> IF pat.pv = "" THEN d.row ELSE Bind(d.row, pat.pv, <<"p", IF pat.rev THEN Rev(d.trail) ELSE d.trail>>), used |-> d.used] : d \in done}
RECURSIVE MatchPats(_, _, _, _)
MatchPats(g, pats, k, sts) == IF k > Len(pats) THEN sts ELSE MatchPats(g, pats, k + 1, UNION {MatchPat(g, pats[k], st) : st \in sts})
\* variables a clause introduces
ElVars(pat) == {pat.els[i].v : i \in DOMAIN pat.els} \cup (IF pat.pv = "" THEN {} ELSE {pat.pv})
ClauseVars(cl) == UNION {ElVars(cl.pats[k]) : k \in DOMAIN cl.pats}
Extensions(g, cl, row) == {st.row : st \in {x \in MatchPats(g, cl.pats, 1, {[row |-> row, used |-> {}]}) : \A a \in Range(cl.atoms) : AtomHolds(a, x.row)}}
WithNulls(row, vs) == [v \in DOMAIN row \cup vs |-> IF v \in DOMAIN row THEN row[v] ELSE Null]
\* every element has a name (made-up ones for anonymous elements), so two different matches are two different rows and a
\* set of rows is the bag of matches
RECURSIVE Eval(_, _, _, _)
Eval(g, clauses, k, rows) ==
   IF k > Len(clauses) THEN rows
   ELSE LET cl == clauses[k] IN
        Eval(g, clauses, k + 1, UNION {LET ext == Extensions(g, cl, r) IN
                                       IF ext = {} /\ cl.t = "optional" THEN {WithNulls(r, ClauseVars(cl))} ELSE ext : r \in rows})
\* a WITH that only hands variables on: the carried variables take their new names, everything else stays in the row under
\* a made-up name (so that the set of rows is still the bag of matches); [f, t] = from, to
Renamed(row, part) == LET pairs == Range(part.carry) \cup Range(part.drop) IN
                      [v \in {p.t : p \in {x \in pairs : x.f \in DOMAIN row}} |-> row[(CHOOSE p \in pairs : p.t = v /\ p.f \in DOMAIN row).f]]
RECURSIVE EvalParts(_, _, _, _)
EvalParts(g, parts, k, rows) ==
   IF k > Len(parts) THEN rows
   ELSE LET after == Eval(g, parts[k].clauses, 1, rows) IN
        EvalParts(g, parts, k + 1, IF k = Len(parts) THEN after ELSE {Renamed(r, parts[k]) : r \in after})
Rows(g, q) == EvalParts(g, q.parts, 1, {<<>>})
\* the bag of results over the variables the query text names
Named(q, row) == [v \in DOMAIN row \ Range(q.hidden) |-> row[v]]
Results(g, q) == LET rows == Rows(g, q) IN [p \in {Named(q, r) : r \in rows} |-> Cardinality({r \in rows : Named(q, r) = p})]
SameResults(g, q1, q2) == Results(g, q1) = Results(g, q2)
=============================================================================

SPECIFICATION Spec
CONSTANTS
  MaxClauses = 3
  Shapes = {"node", "step", "var", "chain"}
  Family = "random"
CHECK_DEADLOCK FALSE

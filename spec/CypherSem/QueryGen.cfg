SPECIFICATION Spec
CONSTANTS
  MaxClauses = 3
  Shapes = {"node", "step", "var", "chain", "chain3"}
  Family = "random"
CHECK_DEADLOCK FALSE

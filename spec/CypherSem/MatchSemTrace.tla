---------------------------- MODULE MatchSemTrace ----------------------------
(* Trace validation for C02 (Cypher half): pair{orig, opt} is a query part as written and as the real optimiser  *)
(* rewrote it (exported by the harness from the two query models); each graph{g} that follows is a property       *)
(* graph on which both must have the same bag of results.                                                         *)
EXTENDS MatchSem, Json
VARIABLES cur, l
TraceLog == ndJsonDeserialize("trace.ndjson")
Ev == TraceLog[l]
TInit == cur = [none |-> TRUE] /\ l = 1 /\ TLCSet(1, 0)
TPair == Ev.e = "pair" /\ cur' = Ev
TGraph == /\ Ev.e = "graph" /\ "orig" \in DOMAIN cur /\ UNCHANGED cur
          /\ SameResults(Ev.g, cur.orig, cur.opt)
TNext == l <= Len(TraceLog) /\ (TPair \/ TGraph) /\ l' = l + 1
TSpec == TInit /\ [][TNext]_<<cur, l>>
HW == TLCSet(1, IF l > TLCGet(1) THEN l ELSE TLCGet(1))
Accepted == IF TLCGet(1) = Len(TraceLog) + 1 THEN TRUE ELSE PrintT(<<"STUCK_AT_LINE", TLCGet(1)>>) /\ FALSE
=============================================================================

------------------------------ MODULE GraphGen ------------------------------
(* Every property graph with MinN..MaxN nodes, each node carrying one of NodeKindSets, and at most MaxEdges     *)
(* directed edges (self loops and 2-cycles included; kinds 1..EdgeKinds), printed once as JSON.                  *)
EXTENDS Integers, Sequences, FiniteSets, TLC, Json, SequencesExt
CONSTANTS MinN, MaxN, MaxEdges, EdgeKinds
NodeKindSets == {<<1>>, <<2>>, <<1, 2>>}
Candidates(n) == {[s |-> a, t |-> b, k |-> c] : a \in 1..n, b \in 1..n, c \in 1..EdgeKinds}
Graphs(n) == {[n |-> n, kinds |-> ks, edges |-> SetToSeq(es)] : ks \in [1..n -> NodeKindSets], es \in {x \in SUBSET Candidates(n) : Cardinality(x) <= MaxEdges}}
ASSUME \A n \in MinN..MaxN : \A g \in Graphs(n) : PrintT(ToJson(g))
VARIABLE x
Spec == x = 0 /\ [][x' = x]_x
=============================================================================

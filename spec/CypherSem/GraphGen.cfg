SPECIFICATION Spec
CONSTANTS
  MinN = 2
  MaxN = 3
  MaxEdges = 2
  EdgeKinds = 2

------------------------------ MODULE EntityGen ------------------------------
(* History generator over the M-spec.  Loaded values are all 1 (the code never compares        *)
(* values, so only "same as loaded" = 1 vs "different" = 2 matters); the first edit is on X    *)
(* (X and Y are interchangeable).  Mode "props" explores the property API, mode "kinds" the    *)
(* kind API mixed with one property key.                                                        *)
EXTENDS EntityDelta, Json, SequencesExt
CONSTANTS Depth, Mode
VARIABLES hist, emitted
gvars == <<loaded, ent, hist, emitted>>
Op(name, e, f, k, v, m, K) == [op |-> name, ent |-> e, other |-> f, k |-> k, v |-> v, m |-> m, ks |-> K]
Other(e) == CHOOSE f \in Ents : f # e
MapPairs(m) == SetToSeq({<<k, m[k]>> : k \in DOMAIN m})
LoadedMaps == IF Mode = "props" THEN {<<>>, [k \in {"a"} |-> 1], [k \in {"a", "b"} |-> 1]} ELSE {[k \in {"a"} |-> 1]}
LoadedKinds == IF Mode = "props" THEN {{}} ELSE {{}, {"K1"}, {"K1", "K2"}}
SetAllMaps == {<<>>, [k \in {"a", "b"} |-> 2]}
KindArgs == SUBSET KindSet \ {{}}
GInit == /\ \E m \in LoadedMaps, K \in LoadedKinds : loaded = [map |-> m, kinds |-> K]
         /\ ent = [e \in Ents |-> Fresh(loaded)] /\ hist = <<>> /\ emitted = FALSE
Rec(o) == hist' = Append(hist, o) /\ UNCHANGED emitted
PropsOps(e) ==
   \/ \E k \in Keys, v \in Vals : Set(e, k, v) /\ Rec(Op("set", e, "", k, v, <<>>, <<>>))
   \/ \E k \in Keys : Delete(e, k) /\ Rec(Op("del", e, "", k, 0, <<>>, <<>>))
   \/ \E m \in SetAllMaps : SetAll(e, m) /\ Rec(Op("setall", e, "", "", 0, MapPairs(m), <<>>))
   \/ GetOrDefault(e, "a") /\ Rec(Op("getdef", e, "", "a", 2, <<>>, <<>>))
   \/ Clone(e) /\ Rec(Op("clone", e, "", "", 0, <<>>, <<>>))
   \/ PropsMerge(e, Other(e)) /\ Rec(Op("pmerge", e, Other(e), "", 0, <<>>, <<>>))
KindsOps(e) ==
   \/ \E K \in KindArgs : AddKinds(e, K) /\ Rec(Op("addk", e, "", "", 0, <<>>, SetToSeq(K)))
   \/ \E K \in KindArgs : DeleteKinds(e, K) /\ Rec(Op("delk", e, "", "", 0, <<>>, SetToSeq(K)))
   \/ NodeMerge(e, Other(e)) /\ Rec(Op("nmerge", e, Other(e), "", 0, <<>>, <<>>))
   \/ Set(e, "a", 2) /\ Rec(Op("set", e, "", "a", 2, <<>>, <<>>))
   \/ Delete(e, "a") /\ Rec(Op("del", e, "", "a", 0, <<>>, <<>>))
GStep == /\ Len(hist) < Depth
         /\ \E e \in (IF hist = <<>> THEN {"X"} ELSE Ents) : IF Mode = "props" THEN PropsOps(e) ELSE KindsOps(e)
GEmit == /\ Len(hist) = Depth /\ ~emitted
         /\ PrintT(ToJson([lmap |-> MapPairs(loaded.map), lkinds |-> SetToSeq(loaded.kinds), ops |-> hist]))
         /\ emitted' = TRUE /\ UNCHANGED <<loaded, ent, hist>>
GNext == GStep \/ GEmit
GSpec == GInit /\ [][GNext]_gvars
=============================================================================

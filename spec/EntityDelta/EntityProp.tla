----------------------------- MODULE EntityProp -----------------------------
(* P-spec for C12.  An entity projection is a record                                          *)
(*   [map, mod, del, kinds, added, removed]                                                    *)
(* with map a function key -> value and the rest sets.  `loaded` is the state the entity was   *)
(* loaded in: [map, kinds].  The property: the change sets are mutually disjoint and, applied  *)
(* to the loaded state, reproduce the current state exactly.                                   *)
EXTENDS Integers, FiniteSets, TLC

ApplyDelta(L, e) == \* the map obtained from the loaded map L by e's recorded property delta
  [k \in ((DOMAIN L \ e.del) \cup e.mod) |-> IF k \in e.mod THEN e.map[k] ELSE L[k]]

PropsOK(L, e) == /\ e.mod \cap e.del = {}
                 /\ e.mod \subseteq DOMAIN e.map
                 /\ e.del \cap DOMAIN e.map = {}
                 /\ ApplyDelta(L, e) = e.map
KindsOK(KL, e) == /\ e.added \cap e.removed = {}
                  /\ ((KL \ e.removed) \cup e.added) = e.kinds
EntityOK(ld, e) == PropsOK(ld.map, e) /\ KindsOK(ld.kinds, e)

\* deterministic post-states of the single-entity edits ("last edit wins")
AfterSet(e, k, v) == [e EXCEPT !.map = [x \in DOMAIN e.map \cup {k} |-> IF x = k THEN v ELSE e.map[x]],
                               !.mod = @ \cup {k}, !.del = @ \ {k}]
AfterDelete(e, k) == [e EXCEPT !.map = [x \in DOMAIN e.map \ {k} |-> e.map[x]],
                               !.mod = @ \ {k}, !.del = @ \cup {k}]
RECURSIVE AfterSetAll(_, _)
AfterSetAll(e, m) == IF DOMAIN m = {} THEN e
                     ELSE LET k == CHOOSE x \in DOMAIN m : TRUE
                          IN AfterSetAll(AfterSet(e, k, m[k]), [x \in DOMAIN m \ {k} |-> m[x]])
AfterAddKinds(e, K) == [e EXCEPT !.kinds = @ \cup K, !.added = @ \cup K, !.removed = @ \ K]
AfterDeleteKinds(e, K) == [e EXCEPT !.kinds = @ \ K, !.added = @ \ K, !.removed = @ \cup K]
=============================================================================

----------------------------- MODULE EntityTrace -----------------------------
(* Trace validation of entity edit histories recorded from graph.Properties / Node /           *)
(* Relationship against the P-spec.  Every event carries the full projection of every live     *)
(* object (X, Y and, after a clone, S = the object the clone was taken from).                   *)
(*   - single-entity edits have a determined post-state (last edit wins)                       *)
(*   - merges only have to keep the statement's invariant for the receiver                     *)
(*   - every call leaves every other object untouched (frame condition: no sharing)            *)
(*   - the values reported for modified keys are the current values                            *)
EXTENDS EntityProp, Sequences, Json
VARIABLES loaded, ent, l
TraceLog == ndJsonDeserialize("trace.ndjson")
Ev == TraceLog[l]
tvars == <<loaded, ent, l>>
ToSet(s) == {s[i] : i \in DOMAIN s}
PairsToMap(ps) == [k \in {ps[i][1] : i \in DOMAIN ps} |-> ps[CHOOSE i \in DOMAIN ps : ps[i][1] = k][2]]
Proj(p) == [map |-> PairsToMap(p.map), mod |-> {p.mod[i][1] : i \in DOMAIN p.mod}, del |-> ToSet(p.del),
            kinds |-> ToSet(p.kinds), added |-> ToSet(p.added), removed |-> ToSet(p.removed)]
\* harness facts the P-spec requires: no duplicates, ModifiedProperties()[k] = Map[k]
WellFormed(p) == /\ ~p.dup
                 /\ \A i \in DOMAIN p.mod : \E j \in DOMAIN p.map : p.map[j] = p.mod[i]
St == [n \in DOMAIN Ev.st |-> Proj(Ev.st[n])]
AllWellFormed == \A n \in DOMAIN Ev.st : WellFormed(Ev.st[n])
Fresh(ld) == [map |-> ld.map, mod |-> {}, del |-> {}, kinds |-> ld.kinds, added |-> {}, removed |-> {}]

TInit == loaded = [map |-> <<>>, kinds |-> {}] /\ ent = <<>> /\ l = 1 /\ TLCSet(1, 0)
TLoad == /\ Ev.e = "load" /\ ~Ev.panic /\ AllWellFormed
         /\ loaded' = [map |-> PairsToMap(Ev.lmap), kinds |-> ToSet(Ev.lkinds)]
         /\ ent' = St
         /\ \A n \in DOMAIN ent' : ent'[n] = Fresh(loaded')
Frame(changed) == \A n \in DOMAIN ent : n \notin changed => (n \in DOMAIN ent' /\ ent'[n] = ent[n])
TOp == /\ Ev.e = "op" /\ ~Ev.panic /\ AllWellFormed
       /\ ent' = St /\ UNCHANGED loaded
       /\ LET e == Ev.ent IN
          CASE Ev.op = "set" -> ent'[e] = AfterSet(ent[e], Ev.k, Ev.v) /\ Frame({e}) /\ DOMAIN ent' = DOMAIN ent
            [] Ev.op = "del" -> ent'[e] = AfterDelete(ent[e], Ev.k) /\ Frame({e}) /\ DOMAIN ent' = DOMAIN ent
            [] Ev.op = "setall" -> ent'[e] = AfterSetAll(ent[e], PairsToMap(Ev.m)) /\ Frame({e}) /\ DOMAIN ent' = DOMAIN ent
            [] Ev.op = "getdef" -> /\ Frame({}) /\ DOMAIN ent' = DOMAIN ent
                                   /\ Ev.ret = IF Ev.k \in DOMAIN ent[e].map THEN ent[e].map[Ev.k] ELSE Ev.v
            [] Ev.op = "clone" -> /\ Frame({"S"}) /\ DOMAIN ent' = DOMAIN ent \cup {"S"} /\ ent'["S"] = ent[e]
            [] Ev.op = "addk" -> ent'[e] = AfterAddKinds(ent[e], ToSet(Ev.ks)) /\ Frame({e}) /\ DOMAIN ent' = DOMAIN ent
            [] Ev.op = "delk" -> ent'[e] = AfterDeleteKinds(ent[e], ToSet(Ev.ks)) /\ Frame({e}) /\ DOMAIN ent' = DOMAIN ent
            [] Ev.op \in {"pmerge", "nmerge"} -> /\ Frame({e}) /\ DOMAIN ent' = DOMAIN ent
                                                  /\ EntityOK(loaded, ent'[e])
                                                  /\ (Ev.op = "pmerge" =>
                                                        [x \in {"kinds", "added", "removed"} |-> ent'[e][x]] =
                                                        [x \in {"kinds", "added", "removed"} |-> ent[e][x]])
TNext == l <= Len(TraceLog) /\ (TLoad \/ TOp) /\ l' = l + 1
TSpec == TInit /\ [][TNext]_tvars
\* the statement, evaluated at every consumed event for X and Y (S is a discarded object, only framed)
DeltaExact == \A n \in DOMAIN ent \ {"S"} : EntityOK(loaded, ent[n])
HW == TLCSet(1, IF l > TLCGet(1) THEN l ELSE TLCGet(1))
Accepted == IF TLCGet(1) = Len(TraceLog) + 1 THEN TRUE ELSE PrintT(<<"STUCK_AT_LINE", TLCGet(1)>>) /\ FALSE
=============================================================================

SPECIFICATION Spec
CONSTANTS
  Keys = {"a", "b"}
  Vals = {1, 2}
  KindSet = {"K1", "K2"}
  Ents = {"X", "Y"}
  Fixed = FALSE
INVARIANT DeltaExact
CHECK_DEADLOCK FALSE

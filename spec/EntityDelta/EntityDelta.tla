----------------------------- MODULE EntityDelta -----------------------------
(* M-spec of graph/properties.go, graph/node.go, graph/relationships.go: two tracked entities  *)
(* X, Y loaded from the same state, edited through the entity API.  Merge is transcribed as    *)
(* coded.  Fixed = FALSE is the pinned tree before the "fix:" commit (Merge copies every key / *)
(* kind of the other entity, resurrecting what the receiver deleted); Fixed = TRUE is the      *)
(* repaired code.                                                                              *)
EXTENDS EntityProp, Sequences
CONSTANTS Keys, Vals, KindSet, Ents, Fixed
VARIABLES loaded, ent
vars == <<loaded, ent>>
Maps == UNION {[S -> Vals] : S \in SUBSET Keys}
Fresh(ld) == [map |-> ld.map, mod |-> {}, del |-> {}, kinds |-> ld.kinds, added |-> {}, removed |-> {}]
Init == /\ \E m \in Maps, K \in SUBSET KindSet : loaded = [map |-> m, kinds |-> K]
        /\ ent = [e \in Ents |-> Fresh(loaded)]

Set(e, k, v) == ent' = [ent EXCEPT ![e] = AfterSet(@, k, v)] /\ UNCHANGED loaded
Delete(e, k) == ent' = [ent EXCEPT ![e] = AfterDelete(@, k)] /\ UNCHANGED loaded
SetAll(e, m) == ent' = [ent EXCEPT ![e] = AfterSetAll(@, m)] /\ UNCHANGED loaded
GetOrDefault(e, k) == UNCHANGED vars
Clone(e) == UNCHANGED vars       \* a clone is a new object with the same abstract state (sharing is checked on the real objects)
AddKinds(e, K) == ent' = [ent EXCEPT ![e] = AfterAddKinds(@, K)] /\ UNCHANGED loaded
DeleteKinds(e, K) == ent' = [ent EXCEPT ![e] = AfterDeleteKinds(@, K)] /\ UNCHANGED loaded

\* Properties.Merge as coded
MergedProps(s, o) ==
  LET copied == IF Fixed THEN {k \in DOMAIN o.map : ~(k \in s.del /\ k \notin o.mod)} ELSE DOMAIN o.map
      map1 == [k \in DOMAIN s.map \cup copied |-> IF k \in copied THEN o.map[k] ELSE s.map[k]]
      mod1 == s.mod \cup o.mod
      del1 == s.del \ o.mod
      del2 == del1 \cup o.del
      map2 == [k \in DOMAIN map1 \ o.del |-> map1[k]]
      mod2 == mod1 \ o.del
  IN [s EXCEPT !.map = map2, !.mod = mod2, !.del = del2]
\* Node.Merge as coded (kinds first, then properties)
MergedKinds(s, o) ==
  LET addk == IF Fixed THEN {k \in o.kinds : ~(k \in s.removed /\ k \notin o.added)} ELSE o.kinds
      kk1 == s.kinds \cup addk
      rem1 == s.removed \ o.added
      kk2 == kk1 \ o.removed
      add1 == s.added \ o.removed
  IN [s EXCEPT !.kinds = kk2, !.added = add1 \cup o.added, !.removed = rem1 \cup o.removed]
PropsMerge(e, f) == e # f /\ ent' = [ent EXCEPT ![e] = MergedProps(ent[e], ent[f])] /\ UNCHANGED loaded
NodeMerge(e, f) == e # f /\ ent' = [ent EXCEPT ![e] = MergedProps(MergedKinds(ent[e], ent[f]), ent[f])] /\ UNCHANGED loaded

Next == \E e \in Ents :
          \/ \E k \in Keys : (\E v \in Vals : Set(e, k, v)) \/ Delete(e, k)
          \/ \E m \in Maps : SetAll(e, m)
          \/ \E K \in SUBSET KindSet : AddKinds(e, K) \/ DeleteKinds(e, K)
          \/ \E f \in Ents : PropsMerge(e, f) \/ NodeMerge(e, f)
Spec == Init /\ [][Next]_vars

\* ---- the statement of C12
DeltaExact == \A e \in Ents : EntityOK(loaded, ent[e])
=============================================================================

SPECIFICATION TSpec
CONSTRAINT HW
INVARIANT DeltaExact
POSTCONDITION Accepted
CHECK_DEADLOCK FALSE

SPECIFICATION GSpec
CONSTANTS
  Keys = {"a", "b"}
  Vals = {1, 2}
  KindSet = {"K1", "K2"}
  Ents = {"X", "Y"}
  Fixed = TRUE
  Depth = 3
  Mode = "props"
INVARIANT DeltaExact
CHECK_DEADLOCK FALSE

----------------------------- MODULE DigraphTrace -----------------------------
(* Trace validation for C14.  A "build" event gives the abstract graph and the deletion          *)
(* projection; every later event of the same run is a table of observations of one container     *)
(* (adjacency map, CSR, triple store, projection, nested projection) that must equal Digraph's   *)
(* operators on the projected graph.                                                             *)
EXTENDS Digraph, Json
VARIABLES Nd, T, l
TraceLog == ndJsonDeserialize("trace.ndjson")
Ev == TraceLog[l]
tvars == <<Nd, T, l>>
ToSet(s) == {s[i] : i \in DOMAIN s}
Triples(s) == {<<s[i][1], s[i][2], s[i][3]>> : i \in DOMAIN s}
NoDup(s) == \A i, j \in DOMAIN s : i # j => s[i] # s[j]
TInit == Nd = {} /\ T = {} /\ l = 1 /\ TLCSet(1, 0)
TBuild == /\ Ev.e = "build" /\ ~Ev.panic
          /\ Nd' = ProjNodes(ToSet(Ev.nodes), ToSet(Ev.deln))
          /\ T' = ProjTriples(Triples(Ev.triples), ToSet(Ev.deln), ToSet(Ev.dele))
Same == UNCHANGED <<Nd, T>>
TNodes == /\ Ev.e = "nodes" /\ ~Ev.panic /\ Same
          /\ Ev.n = Cardinality(Nd) /\ ~Ev.dup /\ ToSet(Ev.list) = Nd
\* rows: <<node, dir, via EachAdjacentNode, via AdjacentNodes helper, Degrees>>; adjacency is compared as a set
TAdj == /\ Ev.e = "adj" /\ ~Ev.panic /\ Same
        /\ \A i \in DOMAIN Ev.rows : LET r == Ev.rows[i] IN
              /\ ToSet(r[3]) = Adj(T, r[1], r[2])
              /\ ToSet(r[4]) = Adj(T, r[1], r[2])
TReach == /\ Ev.e = "reach" /\ ~Ev.panic /\ Same
          /\ \A i \in DOMAIN Ev.rows : LET r == Ev.rows[i] IN ~r[4] /\ ToSet(r[3]) = ReachPlus(T, r[1], r[2])
TBfs == /\ Ev.e = "bfs" /\ ~Ev.panic /\ Same
        /\ \A i \in DOMAIN Ev.rows : LET r == Ev.rows[i] IN
              /\ NoDup(r[3])
              /\ {<<r[3][j][1], r[3][j][2]>> : j \in DOMAIN r[3]} = BFSDist(T, r[1], r[2])
\* normalisation: rev is a bijection positions -> nodes; adjacency of position i in the new graph = positions of the
\* neighbours of rev[i] in the old one
TNorm == /\ Ev.e = "norm" /\ ~Ev.panic /\ Same
         /\ Ev.n = Cardinality(Nd) /\ Len(Ev.rev) = Cardinality(Nd) /\ ToSet(Ev.rev) = Nd
         /\ \A i \in DOMAIN Ev.rows : LET r == Ev.rows[i] IN
               {Ev.rev[j] : j \in ToSet(r[3])} = Adj(T, Ev.rev[r[1]], r[2])
TEdges == /\ Ev.e = "edges" /\ ~Ev.panic /\ Same
          /\ Ev.n = Cardinality(T) /\ Triples(Ev.list) = T /\ Len(Ev.list) = Cardinality(T)
          /\ \A i \in DOMAIN Ev.rows : LET r == Ev.rows[i] IN
                ToSet(r[3]) = {t[1] : t \in IncidentEdges(T, r[1], r[2])}
SegOfWalk(root, w, dir) == [nodes |-> WalkNodes(root, w, dir), edges |-> WalkEdges(w)]
\* rows: <<kind, root, dir, maxDepth, incomplete, list of segments>>
TWalks == /\ Ev.e = "walks" /\ ~Ev.panic /\ Same
          /\ \A i \in DOMAIN Ev.rows : LET r == Ev.rows[i]
                                           ws == Walks(T, r[2], r[3], r[4]) IN
                /\ NoDup(r[6])                                   \* none duplicated
                /\ ToSet(r[6]) = {SegOfWalk(r[2], w, r[3]) : w \in ws}   \* none lost, none invented
                /\ r[5] = Incomplete(ws, r[4])
\* rows: <<segment, after Marshal/Unmarshal, after SerializedSegment{root-first}.ToSegment()>>
TSegs == /\ Ev.e = "segs" /\ ~Ev.panic /\ Same
         /\ \A i \in DOMAIN Ev.rows : LET r == Ev.rows[i] IN r[2] = r[1] /\ r[3] = r[1]
\* zone BFS tree file: what is read back is what the inbound walks from the zone nodes are (edges starting inside the
\* zone are never descended), nothing lost, nothing mangled
TZone == /\ Ev.e = "zone" /\ ~Ev.panic /\ Same
         /\ LET Z == ToSet(Ev.zone)
                Tz == {t \in T : t[2] \notin Z}
                expect == UNION {{SegOfWalk(z, w, "in") : w \in Walks(Tz, z, "in", Ev.maxdepth)} : z \in Z}
            IN /\ ~Ev.readerr
               /\ Ev.numpaths = Cardinality(expect)
               /\ Len(Ev.read) = Cardinality(expect)
               /\ ToSet(Ev.read) = expect
TNext == l <= Len(TraceLog) /\ (TBuild \/ TNodes \/ TAdj \/ TReach \/ TBfs \/ TNorm \/ TEdges \/ TWalks \/ TSegs \/ TZone) /\ l' = l + 1
TSpec == TInit /\ [][TNext]_tvars
HW == TLCSet(1, IF l > TLCGet(1) THEN l ELSE TLCGet(1))
Accepted == IF TLCGet(1) = Len(TraceLog) + 1 THEN TRUE ELSE PrintT(<<"STUCK_AT_LINE", TLCGet(1)>>) /\ FALSE
=============================================================================

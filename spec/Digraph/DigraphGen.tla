----------------------------- MODULE DigraphGen -----------------------------
(* Every small directed multigraph: a set of extra (possibly isolated) nodes and a sequence of   *)
(* up to MaxT triples over node ids 0..NN-1 (edge ids 0,1,2,... in insertion order), with self    *)
(* loops, parallel and antiparallel edges; and every deletion projection (delN, delE) of it when *)
(* Proj = TRUE.  Edge endpoints are chosen in non-decreasing pair order (the containers are      *)
(* insensitive to insertion order of distinct edges; ids follow insertion order).                *)
EXTENDS Integers, Sequences, FiniteSets, TLC, Json, SequencesExt
CONSTANTS NN, MaxT, Proj
VARIABLES extra, ts, delN, delE, phase, emitted
gvars == <<extra, ts, delN, delE, phase, emitted>>
V == 0..(NN-1)
PairRank(p) == p[1] * NN + p[2]
GInit == /\ extra \in SUBSET V /\ ts = <<>> /\ delN = {} /\ delE = {} /\ phase = "build" /\ emitted = FALSE
AddT == /\ phase = "build" /\ Len(ts) < MaxT
        /\ \E s \in V, t \in V :
              /\ (IF ts = <<>> THEN TRUE ELSE PairRank(<<ts[Len(ts)][1], ts[Len(ts)][2]>>) <= PairRank(<<s, t>>))
              /\ ts' = Append(ts, <<s, t>>)
        /\ UNCHANGED <<extra, delN, delE, phase, emitted>>
Close == /\ phase = "build" /\ phase' = "done"
         /\ IF Proj THEN \E dn \in SUBSET V, de \in SUBSET (0..(Len(ts)-1)) : delN' = dn /\ delE' = de
                    ELSE UNCHANGED <<delN, delE>>
         /\ UNCHANGED <<extra, ts, emitted>>
GEmit == /\ phase = "done" /\ ~emitted
         /\ PrintT(ToJson([extra |-> SetToSeq(extra), triples |-> ts, deln |-> SetToSeq(delN), dele |-> SetToSeq(delE)]))
         /\ emitted' = TRUE /\ UNCHANGED <<extra, ts, delN, delE, phase>>
GNext == AddT \/ Close \/ GEmit
GSpec == GInit /\ [][GNext]_gvars
=============================================================================

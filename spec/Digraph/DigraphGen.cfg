SPECIFICATION GSpec
CONSTANTS
  NN = 3
  MaxT = 3
  Proj = FALSE
CHECK_DEADLOCK FALSE

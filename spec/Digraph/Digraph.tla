------------------------------- MODULE Digraph -------------------------------
(* P-spec for C14: what a finite directed multigraph IS, independent of the container that     *)
(* stores it.  Nd = node set, T = set of triples <<edge id, start, end>> (parallel edges have   *)
(* different ids).  Every observable of every container must equal the operator below.          *)
EXTENDS Integers, FiniteSets, Sequences, TLC
\* ---- deletion projections (possibly nested: deletions accumulate)
ProjNodes(Nd, delN) == Nd \ delN
ProjTriples(T, delN, delE) == {t \in T : t[1] \notin delE /\ t[2] \notin delN /\ t[3] \notin delN}
\* ---- adjacency.  "both" = union of in- and out-neighbours; contains n itself only if n has a self loop
Out(T, n) == {t[3] : t \in {x \in T : x[2] = n}}
In(T, n) == {t[2] : t \in {x \in T : x[3] = n}}
Adj(T, n, dir) == CASE dir = "out" -> Out(T, n) [] dir = "in" -> In(T, n) [] OTHER -> Out(T, n) \cup In(T, n)
IncidentEdges(T, n, dir) == CASE dir = "out" -> {t \in T : t[2] = n}
                              [] dir = "in" -> {t \in T : t[3] = n}
                              [] OTHER -> {t \in T : t[2] = n \/ t[3] = n}
\* ---- reachability in >= 1 step (container.Reach) and shortest positive distances (container.BFSTree)
RECURSIVE Grow(_, _, _, _)
Grow(T, dir, F, S) == IF F = {} THEN S
                      ELSE LET nx == (UNION {Adj(T, f, dir) : f \in F}) \ S IN Grow(T, dir, nx, S \cup nx)
ReachPlus(T, n, dir) == LET first == Adj(T, n, dir) IN Grow(T, dir, first, first)
RECURSIVE Layers(_, _, _, _, _)
\* set of <<node, distance>> pairs, distance = length of a shortest path of length >= 1
Layers(T, dir, F, S, d) == IF F = {} THEN {}
                           ELSE LET nx == (UNION {Adj(T, f, dir) : f \in F}) \ S
                                IN {<<m, d>> : m \in F} \cup Layers(T, dir, nx, S \cup nx, d + 1)
BFSDist(T, n, dir) == LET first == Adj(T, n, dir) IN Layers(T, dir, first, first, 1)
\* ---- walks enumerated by TSBFS / TSDFS (no cycle check; a walk is a sequence of triples from the root).
\* A walk with k edges has k+1 nodes ("depth" in the code counts nodes).  It is reported when it has at least one
\* edge and is not extended: because it already has more than maxDepth nodes, or because no edge continues it.
Far(t, dir) == IF dir = "out" THEN t[3] ELSE t[2]
Near(t, dir) == IF dir = "out" THEN t[2] ELSE t[3]
End(root, w, dir) == IF w = <<>> THEN root ELSE Far(w[Len(w)], dir)
Ext(T, root, w, dir) == {t \in T : Near(t, dir) = End(root, w, dir)}
RECURSIVE Reported(_, _, _, _, _)
Reported(T, root, dir, maxDepth, w) ==
   LET depth == Len(w) + 1
       exceeded == maxDepth < depth
       ext == IF exceeded THEN {} ELSE Ext(T, root, w, dir)
   IN (IF Len(w) >= 1 /\ ext = {} THEN {w} ELSE {})
      \cup UNION {Reported(T, root, dir, maxDepth, Append(w, t)) : t \in ext}
Walks(T, root, dir, maxDepth) == Reported(T, root, dir, maxDepth, <<>>)
Incomplete(ws, maxDepth) == Cardinality({w \in ws : Len(w) + 1 > maxDepth})
\* the segment a walk denotes: node list terminal-first, edge ids terminal-first
RECURSIVE WalkNodes(_, _, _)
WalkNodes(root, w, dir) == IF w = <<>> THEN <<root>> ELSE <<Far(w[Len(w)], dir)>> \o WalkNodes(root, SubSeq(w, 1, Len(w) - 1), dir)
RECURSIVE WalkEdges(_)
WalkEdges(w) == IF w = <<>> THEN <<>> ELSE <<w[Len(w)][1]>> \o WalkEdges(SubSeq(w, 1, Len(w) - 1))
Rev(s) == [i \in 1..Len(s) |-> s[Len(s) + 1 - i]]
=============================================================================

--------------------------- MODULE DigraphRandGen ---------------------------
(* Sampling generator for the container area (run with tlc -simulate): multigraphs too large to enumerate.  One     *)
(* behaviour = one graph on n nodes (NMin..NMax) with m triples drawn one at a time from all ordered pairs (self     *)
(* loops, parallel and antiparallel edges as they come), about half of the nodes also listed as extra (isolated     *)
(* unless an edge names them).  Printed in the format of DigraphGen.tla.                                             *)
EXTENDS Integers, Sequences, FiniteSets, TLC, Json, SequencesExt
CONSTANTS NMin, NMax, MMin, MMax
VARIABLES n, m, extra, ts, emitted
gvars == <<n, m, extra, ts, emitted>>
GInit == /\ n \in NMin..NMax /\ m \in MMin..MMax /\ extra \in {{}, {0}, {NMin - 1}} /\ ts = <<>> /\ emitted = FALSE
AddT == /\ Len(ts) < m /\ \E s \in 0..(n-1), t \in 0..(n-1) : ts' = Append(ts, <<s, t>>)
        /\ UNCHANGED <<n, m, extra, emitted>>
GEmit == /\ Len(ts) = m /\ ~emitted
         /\ PrintT(ToJson([extra |-> SetToSeq(extra), triples |-> ts, deln |-> <<>>, dele |-> <<>>]))
         /\ emitted' = TRUE /\ UNCHANGED <<n, m, extra, ts>>
GNext == AddT \/ GEmit
GSpec == GInit /\ [][GNext]_gvars
=============================================================================

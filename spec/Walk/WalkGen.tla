------------------------------- MODULE WalkGen -------------------------------
(* Generator: every finished walk of the M-spec (tree, nil branch, reaction script, callback history, result) *)
(* is printed once as JSON; the harness replays tree and script on the real walk.Generic.                      *)
EXTENDS Walk, Json
VARIABLE emitted
gvars == <<vars, emitted>>
GInit == Init /\ emitted = FALSE
GStep == Step /\ UNCHANGED emitted
GEmit == /\ res # "running" /\ ~emitted
         /\ PrintT(ToJson([n |-> nn, par |-> par, nilnode |-> nilp.node, nilpos |-> nilp.pos,
                           script |-> [k \in DOMAIN hist |-> hist[k].r],
                           cbs |-> [k \in DOMAIN hist |-> [cb |-> hist[k].cb, n |-> hist[k].n]], res |-> res]))
         /\ emitted' = TRUE /\ UNCHANGED vars
GNext == GStep \/ GEmit
GSpec == GInit /\ [][GNext]_gvars
=============================================================================

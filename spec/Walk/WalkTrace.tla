------------------------------ MODULE WalkTrace ------------------------------
(* P-spec + trace validation for C11: callbacks recorded from the real walkers, and facts recorded about      *)
(* cypher.Copy.                                                                                                *)
(*   tree{mode, n, par, nk, nilpar}   the reference tree of the walk that follows: nodes 1..n, par[i] parent   *)
(*        (0 for the root, node 1), nk[i] number of (non-nil) children, nilpar the node owning a nil branch     *)
(*        (0: none).  For the generic mode the tree is the one TLC generated (WalkGen); for the cypher modes   *)
(*        it is computed by reflection over the struct fields of the model, independently of the hand-written *)
(*        cursor constructors.  n = 0: a nil root.                                                             *)
(*        modes: "generic" / "structural"  every child of a node is a direct child in the tree;                *)
(*               "semantic"  walk.Cypher: nodes are a subset of the structural tree, a child is a descendant;  *)
(*               "free"      no reference tree (walk.PgSQL): the callback protocol alone.                      *)
(*   cb{cb, n, r}    a callback (enter / visit / exit) on node n (0: not a node of the reference tree) and     *)
(*        the visitor's scripted reaction (none / consume / done / error)                                      *)
(*   end{res}        what the walk returned: ok / err (the visitor's error) / ctor_err (cursor negotiation)    *)
(*   copy{...}       facts about cypher.Copy of one model, see TCopy                                           *)
(* The statement (walking): every node is entered at most once, callbacks are properly nested, Visit is called *)
(* between two children and only there, a node is exited only after all its children were walked unless it was *)
(* consumed (structural: nothing modelled is skipped), Consume is followed by the node's Exit, SetDone and     *)
(* SetError end the walk at once with nil / the error, a nil branch ends it with a negotiation error.          *)
EXTENDS Integers, Sequences, FiniteSets, TLC, Json
VARIABLES tr, stack, entered, last, ended, l
TraceLog == ndJsonDeserialize("trace.ndjson")
Ev == TraceLog[l]
tvars == <<tr, stack, entered, last, ended, l>>
NoLast == [cb |-> "none", n |-> 0, r |-> "none"]
TInit == /\ tr = [mode |-> "free", n |-> 0] /\ stack = <<>> /\ entered = {} /\ last = NoLast /\ ended = TRUE /\ l = 1 /\ TLCSet(1, 0)
Top == stack[Len(stack)]
Strict == tr.mode \in {"generic", "structural"}
RECURSIVE IsDesc(_, _)
IsDesc(a, n) == IF n = 0 THEN FALSE ELSE IF tr.par[n] = a THEN TRUE ELSE IsDesc(a, tr.par[n])
Stopped == last.r \in {"done", "error"}
TTree == /\ Ev.e = "tree" /\ ended
         /\ tr' = Ev /\ stack' = <<>> /\ entered' = {} /\ last' = NoLast /\ ended' = FALSE
TEnter == /\ Ev.e = "cb" /\ Ev.cb = "enter" /\ ~ended /\ ~Stopped
          /\ tr.mode = "free" \/ (Ev.n \in 1..tr.n /\ Ev.n \notin entered)
          /\ IF stack = <<>> THEN last = NoLast /\ (tr.mode = "free" \/ Ev.n = 1)
             ELSE /\ last.r = "none"
                  /\ (last.cb = "enter" \/ last.cb = "visit") /\ last.n = Top.n         \* straight after the parent's Enter, or after its Visit
                  /\ CASE Strict -> tr.par[Ev.n] = Top.n
                       [] tr.mode = "semantic" -> IsDesc(Top.n, Ev.n)
                       [] OTHER -> TRUE
          /\ stack' = (IF stack = <<>> THEN <<>> ELSE [stack EXCEPT ![Len(stack)].k = @ + 1]) \o <<[n |-> Ev.n, k |-> 0]>>
          /\ entered' = entered \cup {Ev.n}
          /\ last' = [cb |-> "enter", n |-> Ev.n, r |-> Ev.r] /\ UNCHANGED <<tr, ended>>
TVisit == /\ Ev.e = "cb" /\ Ev.cb = "visit" /\ ~ended /\ ~Stopped
          /\ stack # <<>> /\ Ev.n = Top.n
          /\ last.cb = "exit" /\ Top.k >= 1                                               \* between two children
          /\ last' = [cb |-> "visit", n |-> Ev.n, r |-> Ev.r] /\ UNCHANGED <<tr, stack, entered, ended>>
TExit == /\ Ev.e = "cb" /\ Ev.cb = "exit" /\ ~ended /\ ~Stopped
         /\ stack # <<>> /\ Ev.n = Top.n
         /\ \/ last.cb \in {"enter", "visit"} /\ last.n = Top.n /\ last.r = "consume"     \* pruned
            \/ /\ last.cb = "enter" /\ last.n = Top.n /\ last.r = "none"                  \* a leaf
               /\ Strict => (tr.nk[Top.n] = 0 /\ tr.nilpar # Top.n)
            \/ /\ last.cb = "exit"                                                         \* the last child was walked
               /\ Strict => (Top.k = tr.nk[Top.n] /\ tr.nilpar # Top.n)
         /\ stack' = SubSeq(stack, 1, Len(stack) - 1)
         /\ last' = [cb |-> "exit", n |-> Ev.n, r |-> Ev.r] /\ UNCHANGED <<tr, entered, ended>>
TEnd == /\ Ev.e = "end" /\ ~ended /\ ended' = TRUE /\ UNCHANGED <<tr, stack, entered, last>>
        /\ CASE last.r = "error" -> Ev.res = "err"
             [] last.r = "done" -> Ev.res = "ok"
             [] Ev.res = "ok" -> stack = <<>> /\ entered # {}
             [] Ev.res = "ctor_err" -> \/ tr.mode # "free" /\ tr.n = 0 /\ entered = {}                    \* a nil root
                                       \/ /\ stack # <<>> /\ last.cb \in {"enter", "visit"} /\ last.n = Top.n /\ last.r = "none"
                                          /\ tr.mode = "free" \/ tr.nilpar = Top.n
             [] OTHER -> FALSE
\* ---- cypher.Copy: equal, disjoint, and independent under mutation of either side
TCopy == /\ Ev.e = "copy" /\ ended /\ UNCHANGED <<tr, stack, entered, last, ended>>
         /\ ~Ev.panic /\ Ev.equal /\ Ev.shared = 0 /\ Ev.orig_unchanged /\ Ev.copy_unchanged
TNext == /\ l <= Len(TraceLog) /\ l' = l + 1
         /\ (TTree \/ TEnter \/ TVisit \/ TExit \/ TEnd \/ TCopy)
TSpec == TInit /\ [][TNext]_tvars
HW == TLCSet(1, IF l > TLCGet(1) THEN l ELSE TLCGet(1))
Accepted == IF TLCGet(1) = Len(TraceLog) + 1 THEN TRUE ELSE PrintT(<<"STUCK_AT_LINE", TLCGet(1)>>) /\ FALSE
=============================================================================

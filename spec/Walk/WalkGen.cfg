SPECIFICATION GSpec
CONSTANTS
  MaxNodes = 4
  MaxReact = 2
  Variant = "code"
  NilBranches = TRUE
CHECK_DEADLOCK FALSE

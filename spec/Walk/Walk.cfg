SPECIFICATION Spec
CONSTANTS
  MaxNodes = 4
  MaxReact = 2
  Variant = "code"
  NilBranches = TRUE
INVARIANT Inv
CHECK_DEADLOCK FALSE

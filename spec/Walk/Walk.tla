-------------------------------- MODULE Walk --------------------------------
(* M-spec of walk.Generic (cypher/models/walk/walk.go:189): the cursor stack, the Enter / Visit / Exit       *)
(* callbacks and the visitor's reactions (Consume, SetDone, SetError), over every ordered tree with up to    *)
(* MaxNodes nodes, optionally with one nil branch.  One Step = one iteration of the loop of Generic; the     *)
(* reactions of the (up to three) callbacks made in that iteration are chosen nondeterministically, at most   *)
(* MaxReact non-trivial ones per walk.                                                                       *)
(* The P-properties below are the walking half of C11: every node is entered at most once, callbacks are     *)
(* properly nested, an undisturbed walk enters and exits every node once and calls Visit between children,   *)
(* Consume prunes exactly the rest of the subtree and still exits the node, SetDone / SetError stop the walk *)
(* at once (no unwinding exits), a nil branch is reported and never skipped, and the walk is bounded.        *)
(* Variant selects pinned mutants of the loop used as negative controls.                                     *)
EXTENDS Integers, Sequences, FiniteSets, TLC
CONSTANTS MaxNodes, MaxReact, Variant, NilBranches
VARIABLES nn, par, nilp, stack, consumed, done, err, hist, res, budget
vars == <<nn, par, nilp, stack, consumed, done, err, hist, res, budget>>
Reactions == {"none", "consume", "done", "error"}
Nodes == 1..nn
Kids(n) == SelectSeq([i \in 1..nn |-> i], LAMBDA m : par[m] = n)
Branches(n) == IF nilp.node = n THEN (IF nilp.pos = "first" THEN <<0>> \o Kids(n) ELSE Kids(n) \o <<0>>) ELSE Kids(n)
Trees(n) == {p \in [1..n -> 0..(n-1)] : p[1] = 0 /\ \A i \in 2..n : p[i] \in 1..(i-1)}
NoNil == [node |-> 0, pos |-> "last"]
Init == /\ nn \in 1..MaxNodes
        /\ par \in Trees(nn)
        /\ nilp \in {NoNil} \cup (IF NilBranches THEN [node : 1..nn, pos : {"first", "last"}] ELSE {})
        /\ stack = <<[node |-> 1, idx |-> 0]>>
        /\ consumed = FALSE /\ done = FALSE /\ err = FALSE /\ hist = <<>> /\ res = "running" /\ budget = MaxReact
\* ---- one callback with the visitor's reaction
Call(s, cb, n, r) == [s EXCEPT !.hist = Append(@, [cb |-> cb, n |-> n, r |-> r]),
                               !.consumed = IF r = "consume" THEN TRUE ELSE @,
                               !.done = IF r \in {"done", "error"} THEN TRUE ELSE @,
                               !.err = IF r = "error" THEN TRUE ELSE @,
                               !.budget = IF r = "none" THEN @ ELSE @ - 1]
Top == stack[Len(stack)]
Pop(st) == SubSeq(st, 1, Len(st) - 1)
Commit(s, st, r) == /\ consumed' = s.consumed /\ done' = s.done /\ err' = s.err /\ hist' = s.hist /\ budget' = s.budget
                    /\ stack' = st /\ res' = r /\ UNCHANGED <<nn, par, nilp>>
\* Exit the node on top, then clear the consume flag and pop (walk.go:214-222, :224-232, :247-256)
ExitTop(s, r) == LET s2 == Call(s, "exit", Top.node, r) IN
                 IF s2.err THEN Commit(s2, stack, "err")
                 ELSE Commit([s2 EXCEPT !.consumed = IF Variant = "KeepConsumedAfterExit" THEN @ ELSE FALSE], Pop(stack), "running")
Descend(s) == LET c == Branches(Top.node)[Top.idx + 1] IN
              IF c = 0 THEN Commit(s, stack, "ctor_err")
              ELSE Commit(s, Append([stack EXCEPT ![Len(stack)].idx = @ + 1], [node |-> c, idx |-> 0]), "running")
Step == /\ res = "running"
        /\ IF stack = <<>> \/ done
           THEN /\ res' = "ok" /\ UNCHANGED <<nn, par, nilp, stack, consumed, done, err, hist, budget>>
           ELSE \E r1, r2, r3 \in Reactions :
                LET first == Top.idx = 0
                    hasNext == Top.idx < Len(Branches(Top.node))
                    s0 == [consumed |-> consumed, done |-> done, err |-> err, hist |-> hist, budget |-> budget]
                    s1 == IF first THEN Call(s0, "enter", Top.node, r1) ELSE s0
                    used == Cardinality({i \in 1..3 : <<r1, r2, r3>>[i] # "none"})
                IN /\ used <= budget
                   /\ (~first => r1 = "none")
                   /\ IF first /\ s1.err THEN r2 = "none" /\ r3 = "none" /\ Commit(s1, stack, "err")
                      ELSE IF first /\ s1.done /\ Variant # "DoneUnwinds" THEN r2 = "none" /\ r3 = "none" /\ Commit(s1, stack, "ok")
                      ELSE IF ~hasNext THEN r3 = "none" /\ ExitTop(s1, r2)
                      ELSE IF s1.consumed THEN r3 = "none" /\ ExitTop([s1 EXCEPT !.consumed = FALSE], r2)
                      ELSE IF ~first /\ Variant # "NoVisit" THEN
                           LET s2 == Call(s1, "visit", Top.node, r2) IN
                           IF s2.err THEN r3 = "none" /\ Commit(s2, stack, "err")
                           ELSE IF s2.done THEN r3 = "none" /\ Commit(s2, stack, "ok")
                           ELSE IF s2.consumed THEN ExitTop([s2 EXCEPT !.consumed = FALSE], r3)
                           ELSE r3 = "none" /\ Descend(s2)
                      ELSE r2 = "none" /\ r3 = "none" /\ Descend(s1)
Next == Step
Spec == Init /\ [][Next]_vars
\* ---------------------------------------------------------------- P-properties (over the callback history)
RECURSIVE OpenAt(_)
OpenAt(k) == IF k = 0 THEN <<>> ELSE
             LET e == hist[k] o == OpenAt(k - 1) IN
             IF e.cb = "enter" THEN Append(o, e.n) ELSE IF e.cb = "exit" /\ o # <<>> THEN Pop(o) ELSE o
Count(cb, n) == Cardinality({k \in DOMAIN hist : hist[k].cb = cb /\ hist[k].n = n})
RECURSIVE Anc(_, _)
Anc(a, n) == IF n = 0 THEN FALSE ELSE IF par[n] = a THEN TRUE ELSE Anc(a, par[n])     \* a is a proper ancestor of n
NoStop == \A k \in DOMAIN hist : hist[k].r \notin {"done", "error"}
Pruned(a) == \E k \in DOMAIN hist : hist[k].n = a /\ hist[k].r = "consume" /\ hist[k].cb \in {"enter", "visit"}
EnterOnce == \A n \in Nodes : Count("enter", n) <= 1 /\ Count("exit", n) <= Count("enter", n)
Nested == \A k \in DOMAIN hist :
            LET e == hist[k] o == OpenAt(k - 1) IN
            /\ e.cb = "enter" => IF o = <<>> THEN k = 1 /\ e.n = 1 ELSE par[e.n] = o[Len(o)]
            /\ e.cb \in {"visit", "exit"} => o # <<>> /\ o[Len(o)] = e.n
Undisturbed == (res = "ok" /\ nilp.node = 0 /\ \A k \in DOMAIN hist : hist[k].r = "none") =>
                 \A n \in Nodes : /\ Count("enter", n) = 1 /\ Count("exit", n) = 1
                                  /\ Count("visit", n) = (IF Len(Kids(n)) = 0 THEN 0 ELSE Len(Kids(n)) - 1)
StopsAtOnce == /\ \A k \in DOMAIN hist : hist[k].r \in {"done", "error"} => k = Len(hist)
               /\ (res # "running" /\ hist # <<>>) => /\ hist[Len(hist)].r = "error" => res = "err"
                                                      /\ hist[Len(hist)].r = "done" => res = "ok"
               /\ res = "err" => hist # <<>> /\ hist[Len(hist)].r = "error"
ConsumePrunes == /\ \A k \in DOMAIN hist : (hist[k].r = "consume" /\ hist[k].cb \in {"enter", "visit"} /\ k < Len(hist)) =>
                                             hist[k + 1].cb = "exit" /\ hist[k + 1].n = hist[k].n
                 \* nothing is skipped except below a node that consumed
                 /\ (res = "ok" /\ NoStop) => \A n \in Nodes : Count("enter", n) = 0 => \E a \in Nodes : Anc(a, n) /\ Pruned(a)
                 /\ (res = "ok" /\ NoStop) => \A n \in Nodes : Count("enter", n) = Count("exit", n)
NilReported == /\ res = "ctor_err" => nilp.node # 0 /\ OpenAt(Len(hist)) # <<>> /\ OpenAt(Len(hist))[Len(OpenAt(Len(hist)))] = nilp.node
               /\ (res = "ok" /\ NoStop /\ nilp.node # 0 /\ Count("enter", nilp.node) = 1) => Pruned(nilp.node)
Bounded == Len(hist) <= 3 * nn
Inv == EnterOnce /\ Nested /\ Undisturbed /\ StopsAtOnce /\ ConsumePrunes /\ NilReported /\ Bounded
=============================================================================

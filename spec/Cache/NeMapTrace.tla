----------------------------- MODULE NeMapTrace -----------------------------
EXTENDS NeMap, Sequences, Json
VARIABLE l
TraceLog == ndJsonDeserialize("trace.ndjson")
Ev == TraceLog[l]
tvars == <<val, cap, size, l>>
TInit == val = <<>> /\ cap = 0 /\ size = 0 /\ l = 1 /\ TLCSet(1, 0)
TReset == Ev.e = "reset" /\ val' = <<>> /\ size' = 0 /\ cap' = Ev.rawcap
TPut == Ev.e = "put" /\ ~Ev.panic /\ Put(Ev.k, Ev.v) /\ size' = Ev.size
TGet == Ev.e = "get" /\ ~Ev.panic /\ GetResult(Ev.k) = [hit |-> Ev.hit, v |-> Ev.v] /\ Get(Ev.k) /\ size' = Ev.size
TDel == Ev.e = "del" /\ ~Ev.panic /\ Delete(Ev.k) /\ size' = Ev.size
TNext == l <= Len(TraceLog) /\ (TReset \/ TPut \/ TGet \/ TDel) /\ l' = l + 1
TSpec == TInit /\ [][TNext]_tvars
HW == TLCSet(1, IF l > TLCGet(1) THEN l ELSE TLCGet(1))
Accepted == IF TLCGet(1) = Len(TraceLog) + 1 THEN TRUE ELSE PrintT(<<"STUCK_AT_LINE", TLCGet(1)>>) /\ FALSE
=============================================================================

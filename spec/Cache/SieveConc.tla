----------------------------- MODULE SieveConc -----------------------------
(* M-spec of the locking in cache/sieve.go: sync.RWMutex; Put/Delete take the write lock and  *)
(* run their body in one step (Sieve.tla models the body); Get takes the READ lock and then   *)
(* - concurrently with other readers - looks the entry up, flips its atomic visited bit and   *)
(* reads the value, as three separate steps.  Clients each run a fixed short script.          *)
EXTENDS Integers, Sequences, FiniteSets, TLC
CONSTANTS Keys, Vals, RawCaps, Clients, OpsPerClient
NIL == "nil"
VARIABLES queue, visited, hand, val, cap,      \* the Sieve state
          readers, writer,                     \* RWMutex: set of clients in read sections, client holding the write lock
          pc, op, ent, res, done               \* per client
S == INSTANCE Sieve
svars == <<queue, visited, hand, val, cap>>
vars == <<queue, visited, hand, val, cap, readers, writer, pc, op, ent, res, done>>
Ops == [t : {"put"}, k : Keys, v : Vals] \cup [t : {"get", "del"}, k : Keys, v : {0}]

Init == /\ S!Init /\ readers = {} /\ writer = NIL
        /\ pc = [c \in Clients |-> "idle"] /\ op = [c \in Clients |-> [t |-> "get", k |-> CHOOSE k \in Keys : TRUE, v |-> 0]]
        /\ ent = [c \in Clients |-> NIL] /\ res = [c \in Clients |-> [hit |-> FALSE, v |-> 0]]
        /\ done = [c \in Clients |-> 0]

Call(c) == /\ pc[c] = "idle" /\ done[c] < OpsPerClient
           /\ \E o \in Ops : op' = [op EXCEPT ![c] = o]
           /\ pc' = [pc EXCEPT ![c] = "lock"]
           /\ UNCHANGED <<svars, readers, writer, ent, res, done>>
Lock(c) == /\ pc[c] = "lock"
           /\ IF op[c].t = "get"
                THEN writer = NIL /\ readers' = readers \cup {c} /\ UNCHANGED writer
                ELSE writer = NIL /\ readers = {} /\ writer' = c /\ UNCHANGED readers
           /\ pc' = [pc EXCEPT ![c] = IF op[c].t = "get" THEN "lookup" ELSE "body"]
           /\ UNCHANGED <<svars, op, ent, res, done>>
Body(c) == /\ pc[c] = "body"
           /\ IF op[c].t = "put" THEN S!Put(op[c].k, op[c].v) ELSE S!Delete(op[c].k)
           /\ pc' = [pc EXCEPT ![c] = "unlock"]
           /\ UNCHANGED <<readers, writer, op, ent, res, done>>
Lookup(c) == /\ pc[c] = "lookup"
             /\ ent' = [ent EXCEPT ![c] = IF op[c].k \in DOMAIN val THEN op[c].k ELSE NIL]
             /\ pc' = [pc EXCEPT ![c] = IF op[c].k \in DOMAIN val THEN "visit" ELSE "unlock"]
             /\ res' = [res EXCEPT ![c] = [hit |-> FALSE, v |-> 0]]
             /\ UNCHANGED <<svars, readers, writer, op, done>>
Visit(c) == /\ pc[c] = "visit"
            /\ visited' = [visited EXCEPT ![ent[c]] = TRUE]      \* entry pointer stays valid: no writer can run
            /\ pc' = [pc EXCEPT ![c] = "read"]
            /\ UNCHANGED <<queue, hand, val, cap, readers, writer, op, ent, res, done>>
Read(c) == /\ pc[c] = "read"
           /\ res' = [res EXCEPT ![c] = [hit |-> TRUE, v |-> val[ent[c]]]]
           /\ pc' = [pc EXCEPT ![c] = "unlock"]
           /\ UNCHANGED <<svars, readers, writer, op, ent, done>>
Unlock(c) == /\ pc[c] = "unlock"
             /\ readers' = readers \ {c} /\ writer' = IF writer = c THEN NIL ELSE writer
             /\ pc' = [pc EXCEPT ![c] = "idle"] /\ done' = [done EXCEPT ![c] = @ + 1]
             /\ UNCHANGED <<svars, op, ent, res>>
CNext(c) == Call(c) \/ Lock(c) \/ Body(c) \/ Lookup(c) \/ Visit(c) \/ Read(c) \/ Unlock(c)
Finished == \A c \in Clients : pc[c] = "idle" /\ done[c] = OpsPerClient
Next == (\E c \in Clients : CNext(c)) \/ (Finished /\ UNCHANGED vars)
Spec == Init /\ [][Next]_vars /\ \A c \in Clients : WF_vars(CNext(c))

TypeOK == S!TypeOK
MutualExclusion == /\ (writer # NIL => readers = {})
                   /\ \A c \in Clients : pc[c] = "body" => writer = c
                   /\ \A c \in Clients : pc[c] \in {"lookup", "visit", "read"} => c \in readers
\* a reader's entry cannot disappear under it
EntryStable == \A c \in Clients : pc[c] \in {"visit", "read"} => ent[c] \in DOMAIN val
\* the value a Get returns is the stored one at its linearisation point (any point of its read section: the
\* store cannot change while a reader is inside)
GetCoherent == \A c \in Clients : (pc[c] = "unlock" /\ op[c].t = "get") =>
                  IF op[c].k \in DOMAIN val THEN res[c] = [hit |-> TRUE, v |-> val[op[c].k]] ELSE res[c].hit = FALSE
NoDeadlock == Finished \/ ENABLED (\E c \in Clients : CNext(c))
Terminates == <>Finished
=============================================================================

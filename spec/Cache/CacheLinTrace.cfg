SPECIFICATION LSpec
CONSTRAINT HW
INVARIANT Bounded
POSTCONDITION Accepted
CHECK_DEADLOCK FALSE

SPECIFICATION GSpec
CONSTANTS
  Keys = {"k1", "k2", "k3"}
  KeySeq <- McKeySeq3
  Vals = {1, 2}
  RawCaps = {0, 1, 2, 3}
  Depth = 4
INVARIANTS TypeOK
CHECK_DEADLOCK FALSE

SPECIFICATION Spec
CONSTANTS
  Keys = {"k1", "k2", "k3", "k4"}
  Vals = {1, 2}
  RawCaps = {0, 1, 2, 3, 4}
INVARIANTS TypeOK Bounded
PROPERTIES Refines PutStores
CHECK_DEADLOCK FALSE

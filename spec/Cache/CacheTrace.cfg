SPECIFICATION TSpec
CONSTRAINT HW
INVARIANT Bounded
POSTCONDITION Accepted
CHECK_DEADLOCK FALSE

------------------------------- MODULE Sieve -------------------------------
(* M-spec of cache/sieve.go, one action per public method (each runs under the write lock,    *)
(* Get under the read lock).  queue[1] is the list front (newest), queue[Len] the back.       *)
(* prev(x) in the code = the element nearer the FRONT (list.Element.Prev), nil at the front.  *)
EXTENDS Integers, Sequences, FiniteSets, TLC
CONSTANTS Keys, Vals, RawCaps
NIL == "nil"
VARIABLES queue, visited, hand, val, cap
vars == <<queue, visited, hand, val, cap>>

SetOf(q) == {q[i] : i \in 1..Len(q)}
Idx(q, k) == CHOOSE i \in 1..Len(q) : q[i] = k
Prev(q, k) == IF Idx(q, k) = 1 THEN NIL ELSE q[Idx(q, k) - 1]
Back(q) == q[Len(q)]
Remove(q, k) == SelectSeq(q, LAMBDA x : x # k)

Init == /\ queue = <<>> /\ visited = <<>> /\ hand = NIL /\ val = <<>>
        /\ \E r \in RawCaps : cap = IF r <= 0 THEN 1 ELSE r

\* evict(): walk from the hand (or the back) toward the front clearing visited bits, wrapping to the back
RECURSIVE Sweep(_, _, _)
Sweep(q, vis, h) == IF vis[h] THEN Sweep(q, [vis EXCEPT ![h] = FALSE], IF Prev(q, h) = NIL THEN Back(q) ELSE Prev(q, h))
                    ELSE [victim |-> h, vis |-> vis]

Put(k, v) ==
  IF k \in DOMAIN val
    THEN /\ val' = [val EXCEPT ![k] = v] /\ visited' = [visited EXCEPT ![k] = TRUE]
         /\ UNCHANGED <<queue, hand, cap>>
    ELSE IF Len(queue) >= cap
      THEN LET sw == Sweep(queue, visited, IF hand = NIL THEN Back(queue) ELSE hand)
               q2 == Remove(queue, sw.victim)
           IN /\ hand' = Prev(queue, sw.victim)
              /\ queue' = <<k>> \o q2
              /\ visited' = [x \in SetOf(q2) \cup {k} |-> IF x = k THEN FALSE ELSE sw.vis[x]]
              /\ val' = [x \in SetOf(q2) \cup {k} |-> IF x = k THEN v ELSE val[x]]
              /\ UNCHANGED cap
      ELSE /\ queue' = <<k>> \o queue
           /\ visited' = [x \in DOMAIN visited \cup {k} |-> IF x = k THEN FALSE ELSE visited[x]]
           /\ val' = [x \in DOMAIN val \cup {k} |-> IF x = k THEN v ELSE val[x]]
           /\ UNCHANGED <<hand, cap>>

Get(k) == /\ IF k \in DOMAIN val THEN visited' = [visited EXCEPT ![k] = TRUE] ELSE UNCHANGED visited
          /\ UNCHANGED <<queue, hand, val, cap>>

Delete(k) ==
  IF k \in DOMAIN val
    THEN /\ hand' = IF hand = k THEN Prev(queue, k) ELSE hand
         /\ queue' = Remove(queue, k)
         /\ visited' = [x \in DOMAIN visited \ {k} |-> visited[x]]
         /\ val' = [x \in DOMAIN val \ {k} |-> val[x]]
         /\ UNCHANGED cap
    ELSE UNCHANGED vars

Next == \E k \in Keys : (\E v \in Vals : Put(k, v)) \/ Get(k) \/ Delete(k)
Spec == Init /\ [][Next]_vars

\* ---- mechanism invariants (a stale hand is a nil dereference / wrong list in the code)
TypeOK == /\ \A i, j \in 1..Len(queue) : i # j => queue[i] # queue[j]
          /\ DOMAIN val = SetOf(queue) /\ DOMAIN visited = SetOf(queue)
          /\ hand \in SetOf(queue) \cup {NIL}
          /\ Len(queue) <= cap
\* observable results
GetResult(k) == IF k \in DOMAIN val THEN [hit |-> TRUE, v |-> val[k]] ELSE [hit |-> FALSE, v |-> 0]
Size == Len(queue)

\* ---- refinement of the P-spec
P == INSTANCE CacheProp WITH store <- val, cap <- cap
PNext == \E k \in Keys : (\E v \in Vals : P!PPut(k, v) \/ P!PGetHit(k, v)) \/ P!PGetMiss(k) \/ P!PDelete(k)
Refines == [][PNext]_<<val, cap>>
Bounded == P!Bounded
\* the new key is always stored by SIEVE (stronger than the P-spec; design fact)
PutStores == [][\A k \in Keys, v \in Vals : Put(k, v) => (k \in DOMAIN val' /\ val'[k] = v)]_vars
=============================================================================

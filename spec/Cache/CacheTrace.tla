----------------------------- MODULE CacheTrace -----------------------------
(* Trace validation of sequential cache histories recorded from the real code against the     *)
(* P-spec.  Events: reset{variant,rawcap} put{k,v,size} get{k,hit,v,size} del{k,size};        *)
(* every event carries panic (a recovered panic matches no action).                           *)
EXTENDS CacheProp, Sequences, Json
VARIABLE l
TraceLog == ndJsonDeserialize("trace.ndjson")
Ev == TraceLog[l]
tvars == <<store, cap, l>>
TInit == store = <<>> /\ cap = 0 /\ l = 1 /\ TLCSet(1, 0)
SizeIs(n) == Cardinality(DOMAIN store') = n
TReset == Ev.e = "reset" /\ store' = <<>> /\ cap' = EffCap(Ev.variant, Ev.rawcap)
TPut == Ev.e = "put" /\ ~Ev.panic /\ PPut(Ev.k, Ev.v) /\ SizeIs(Ev.size)
TGet == Ev.e = "get" /\ ~Ev.panic /\ (IF Ev.hit THEN PGetHit(Ev.k, Ev.v) ELSE PGetMiss(Ev.k)) /\ SizeIs(Ev.size)
TDel == Ev.e = "del" /\ ~Ev.panic /\ PDelete(Ev.k) /\ SizeIs(Ev.size)
TNext == l <= Len(TraceLog) /\ (TReset \/ TPut \/ TGet \/ TDel) /\ l' = l + 1
TSpec == TInit /\ [][TNext]_tvars
HW == TLCSet(1, IF l > TLCGet(1) THEN l ELSE TLCGet(1))
Accepted == IF TLCGet(1) = Len(TraceLog) + 1 THEN TRUE ELSE PrintT(<<"STUCK_AT_LINE", TLCGet(1)>>) /\ FALSE
=============================================================================

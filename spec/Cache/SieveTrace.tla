----------------------------- MODULE SieveTrace -----------------------------
(* Drift check: the same sequential traces against the exact SIEVE M-spec (deterministic).    *)
(* A rejection here that CacheTrace accepts means the mechanism model no longer describes the *)
(* code (model_drift in the evidence), never a verdict: the property does not fix the policy. *)
EXTENDS Sieve, Json
VARIABLE l
TraceLog == ndJsonDeserialize("trace.ndjson")
Ev == TraceLog[l]
tvars == <<queue, visited, hand, val, cap, l>>
TInit == queue = <<>> /\ visited = <<>> /\ hand = NIL /\ val = <<>> /\ cap = 1 /\ l = 1 /\ TLCSet(1, 0)
TReset == /\ Ev.e = "reset" /\ queue' = <<>> /\ visited' = <<>> /\ hand' = NIL /\ val' = <<>>
          /\ cap' = IF Ev.rawcap <= 0 THEN 1 ELSE Ev.rawcap
TPut == Ev.e = "put" /\ ~Ev.panic /\ Put(Ev.k, Ev.v) /\ Len(queue') = Ev.size
TGet == /\ Ev.e = "get" /\ ~Ev.panic /\ GetResult(Ev.k) = [hit |-> Ev.hit, v |-> Ev.v] /\ Get(Ev.k) /\ Len(queue') = Ev.size
TDel == Ev.e = "del" /\ ~Ev.panic /\ Delete(Ev.k) /\ Len(queue') = Ev.size
TNext == l <= Len(TraceLog) /\ (TReset \/ TPut \/ TGet \/ TDel) /\ l' = l + 1
TSpec == TInit /\ [][TNext]_tvars
HW == TLCSet(1, IF l > TLCGet(1) THEN l ELSE TLCGet(1))
Accepted == IF TLCGet(1) = Len(TraceLog) + 1 THEN TRUE ELSE PrintT(<<"STUCK_AT_LINE", TLCGet(1)>>) /\ FALSE
=============================================================================

---------------------------- MODULE CacheProp ----------------------------
(* P-spec for C16: what the property says about a cache, nothing about how.                    *)
(*   - never more entries than the capacity                                                    *)
(*   - a lookup is a miss or the value of the most recent put not deleted/evicted since        *)
(*   - size statistic = number of stored entries                                               *)
(* Eviction is nondeterministic: any subset of the other entries may disappear at a Put, and   *)
(* the put itself may be dropped (a full non-expiring map does that).  A miss means the key is *)
(* not stored (any more).                                                                      *)
EXTENDS Integers, FiniteSets, TLC

VARIABLES store,   \* Keys -|-> Vals
          cap      \* effective capacity (after the constructor's normalisation)
pvars == <<store, cap>>

Restrict(f, S) == [x \in S |-> f[x]]

\* constructor normalisation, as documented: SIEVE: <=0 -> 1.  non-expiring map: as given (<=0 holds nothing)
EffCap(variant, raw) == IF variant = "sieve" THEN (IF raw <= 0 THEN 1 ELSE raw)
                        ELSE (IF raw <= 0 THEN 0 ELSE raw)

PInit(c) == store = <<>> /\ cap = c

PPut(k, v) ==
  /\ \E S \in SUBSET (DOMAIN store \ {k}), keep \in BOOLEAN :
        /\ Cardinality(S) + (IF keep THEN 1 ELSE 0) <= cap
        /\ store' = [x \in S \cup (IF keep THEN {k} ELSE {}) |-> IF x = k THEN v ELSE store[x]]
  /\ UNCHANGED cap

PGetHit(k, v) == k \in DOMAIN store /\ store[k] = v /\ UNCHANGED pvars
PGetMiss(k) == store' = Restrict(store, DOMAIN store \ {k}) /\ UNCHANGED cap
PDelete(k) == /\ \E S \in SUBSET (DOMAIN store \ {k}) : store' = Restrict(store, S)
              /\ UNCHANGED cap

Bounded == Cardinality(DOMAIN store) <= cap
=============================================================================

------------------------------- MODULE NeMap -------------------------------
(* M-spec of cache/nemap.go: a map that stops accepting new keys when full.                   *)
EXTENDS Integers, FiniteSets, TLC
CONSTANTS Keys, Vals, RawCaps
VARIABLES val, cap, size
McRawCaps == {-1, 0, 1, 2, 3, 4}   \* cfg files cannot write negative numbers
vars == <<val, cap, size>>
Init == val = <<>> /\ size = 0 /\ \E r \in RawCaps : cap = r     \* capacity is used as given; <=0 never stores
Put(k, v) == IF k \in DOMAIN val
               THEN val' = [val EXCEPT ![k] = v] /\ UNCHANGED <<cap, size>>
               ELSE IF size < cap
                 THEN val' = [x \in DOMAIN val \cup {k} |-> IF x = k THEN v ELSE val[x]] /\ size' = size + 1 /\ UNCHANGED cap
                 ELSE UNCHANGED vars
Get(k) == UNCHANGED vars
Delete(k) == IF k \in DOMAIN val
               THEN val' = [x \in DOMAIN val \ {k} |-> val[x]] /\ size' = size - 1 /\ UNCHANGED cap
               ELSE UNCHANGED vars
Next == \E k \in Keys : (\E v \in Vals : Put(k, v)) \/ Get(k) \/ Delete(k)
Spec == Init /\ [][Next]_vars
GetResult(k) == IF k \in DOMAIN val THEN [hit |-> TRUE, v |-> val[k]] ELSE [hit |-> FALSE, v |-> 0]
SizeIsCount == size = Cardinality(DOMAIN val)
EffCap == IF cap <= 0 THEN 0 ELSE cap
P == INSTANCE CacheProp WITH store <- val, cap <- EffCap
PNext == \E k \in Keys : (\E v \in Vals : P!PPut(k, v) \/ P!PGetHit(k, v)) \/ P!PGetMiss(k) \/ P!PDelete(k)
Refines == [][PNext]_<<val, cap>>
Bounded == P!Bounded
=============================================================================

SPECIFICATION TSpec
CONSTANTS
  Keys = {"k1", "k2", "k3", "k4", "f1", "f2", "f3", "f4", "f5", "f6", "f7"}
  Vals = {1, 2}
  RawCaps = {1}
CONSTRAINT HW
INVARIANT SizeIsCount
POSTCONDITION Accepted
CHECK_DEADLOCK FALSE

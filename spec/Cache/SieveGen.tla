------------------------------ MODULE SieveGen ------------------------------
(* History generator: every behaviour of the SIEVE M-spec up to Depth operations, one JSON    *)
(* line per maximal history.  Keys are introduced in canonical order (the cache is generic in *)
(* its key type, so histories equal up to key renaming exercise the same code paths).         *)
(* In -simulate mode the same module produces long random walks biased by nothing but the     *)
(* M-spec's own enabled actions.                                                              *)
EXTENDS Sieve, Json
CONSTANTS Depth, KeySeq     \* KeySeq: the keys as a sequence giving the canonical introduction order
VARIABLES hist, raw, emitted
McKeySeq3 == <<"k1", "k2", "k3">>
McKeySeq4 == <<"k1", "k2", "k3", "k4">>
gvars == <<queue, visited, hand, val, cap, hist, raw, emitted>>
Used == {hist[i].k : i \in 1..Len(hist)}
NextFresh == LET n == Cardinality(Used) IN IF n < Len(KeySeq) THEN {KeySeq[n + 1]} ELSE {}
Allowed == Used \cup NextFresh
GInit == /\ emitted = FALSE /\ queue = <<>> /\ visited = <<>> /\ hand = NIL /\ val = <<>> /\ hist = <<>>
         /\ \E r \in RawCaps : raw = r /\ cap = IF r <= 0 THEN 1 ELSE r
Full == Len(queue) >= cap
GStep == /\ Len(hist) < Depth
         /\ \E k \in Allowed :
              \/ \E v \in Vals : Put(k, v) /\ hist' = Append(hist, [op |-> "put", k |-> k, v |-> v])
              \/ Get(k) /\ hist' = Append(hist, [op |-> "get", k |-> k, v |-> 0])
              \/ Delete(k) /\ hist' = Append(hist, [op |-> "del", k |-> k, v |-> 0])
         /\ UNCHANGED <<raw, emitted>>
\* one line per maximal history, printed by an action so that -simulate prints exactly the walk it took
GEmit == /\ Len(hist) = Depth /\ ~emitted
         /\ PrintT(ToJson([rawcap |-> raw, ops |-> hist, full |-> Full, hand |-> hand # NIL]))
         /\ emitted' = TRUE /\ UNCHANGED <<queue, visited, hand, val, cap, hist, raw>>
GNext == GStep \/ GEmit
GSpec == GInit /\ [][GNext]_gvars
=============================================================================

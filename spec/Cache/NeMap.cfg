SPECIFICATION Spec
CONSTANTS
  Keys = {"k1", "k2", "k3", "k4"}
  Vals = {1, 2}
  RawCaps <- McRawCaps
INVARIANTS SizeIsCount Bounded
PROPERTIES Refines
CHECK_DEADLOCK FALSE

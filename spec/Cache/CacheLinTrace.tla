---------------------------- MODULE CacheLinTrace ----------------------------
(* Linearizability (up to eviction) of concurrent cache histories by trace validation.        *)
(* Events: reset{variant,rawcap}, inv{t,op,k,v}, resp{t,hit,v,panic}, quiesce{size}.          *)
(* Between an operation's inv and resp TLC places one silent linearisation step that applies  *)
(* the P-spec action; resp must agree with what that step produced.                           *)
EXTENDS CacheProp, Sequences, Json
VARIABLES pend, l
TraceLog == ndJsonDeserialize("trace.ndjson")
Ev == TraceLog[l]
lvars == <<store, cap, pend, l>>
LInit == store = <<>> /\ cap = 0 /\ pend = <<>> /\ l = 1 /\ TLCSet(1, 0)
LReset == /\ Ev.e = "reset" /\ pend = <<>> /\ store' = <<>> /\ cap' = EffCap(Ev.variant, Ev.rawcap) /\ UNCHANGED pend
LInv == /\ Ev.e = "inv" /\ Ev.t \notin DOMAIN pend
        /\ pend' = [t \in DOMAIN pend \cup {Ev.t} |->
                      IF t = Ev.t THEN [op |-> Ev.op, k |-> Ev.k, v |-> Ev.v, st |-> "called", hit |-> FALSE, rv |-> 0] ELSE pend[t]]
        /\ UNCHANGED <<store, cap>>
Lin(t) == /\ t \in DOMAIN pend /\ pend[t].st = "called"
          /\ LET p == pend[t] IN
             CASE p.op = "get" -> \/ /\ p.k \in DOMAIN store /\ UNCHANGED <<store, cap>>
                                     /\ pend' = [pend EXCEPT ![t].st = "done", ![t].hit = TRUE, ![t].rv = store[p.k]]
                                  \/ /\ PGetMiss(p.k)
                                     /\ pend' = [pend EXCEPT ![t].st = "done", ![t].hit = FALSE]
               [] p.op = "put" -> PPut(p.k, p.v) /\ pend' = [pend EXCEPT ![t].st = "done"]
               [] p.op = "del" -> PDelete(p.k) /\ pend' = [pend EXCEPT ![t].st = "done"]
          /\ UNCHANGED l
LResp == /\ Ev.e = "resp" /\ ~Ev.panic /\ Ev.t \in DOMAIN pend /\ pend[Ev.t].st = "done"
         /\ (pend[Ev.t].op = "get" => (pend[Ev.t].hit = Ev.hit /\ (Ev.hit => pend[Ev.t].rv = Ev.v)))
         /\ pend' = [t \in DOMAIN pend \ {Ev.t} |-> pend[t]]
         /\ UNCHANGED <<store, cap>>
LQuiesce == /\ Ev.e = "quiesce" /\ pend = <<>> /\ Cardinality(DOMAIN store) = Ev.size /\ UNCHANGED <<store, cap, pend>>
LNext == \/ l <= Len(TraceLog) /\ (LReset \/ LInv \/ LResp \/ LQuiesce) /\ l' = l + 1
         \/ \E t \in DOMAIN pend : Lin(t)
LSpec == LInit /\ [][LNext]_lvars
HW == TLCSet(1, IF l > TLCGet(1) THEN l ELSE TLCGet(1))
Accepted == IF TLCGet(1) = Len(TraceLog) + 1 THEN TRUE ELSE PrintT(<<"STUCK_AT_LINE", TLCGet(1)>>) /\ FALSE
=============================================================================

SPECIFICATION Spec
CONSTANTS
  Keys = {"k1", "k2"}
  Vals = {1, 2}
  RawCaps = {1, 2}
  Clients = {"c1", "c2"}
  OpsPerClient = 2
INVARIANTS TypeOK MutualExclusion EntryStable GetCoherent NoDeadlock
PROPERTIES Terminates
CHECK_DEADLOCK FALSE

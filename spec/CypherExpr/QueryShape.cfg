SPECIFICATION Spec

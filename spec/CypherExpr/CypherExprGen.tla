---------------------------- MODULE CypherExprGen ----------------------------
(* Prints every builder term of depth <= 2 (Deep = FALSE) or the depth-3 closure over binary combinators of depth-2     *)
(* terms (Deep = TRUE, sampled by the harness) as JSON, one per line, for replay on the real query builder.            *)
EXTENDS CypherExpr, Json
CONSTANT Deep
T3 == T2 \cup {[b |-> o, xs |-> <<x, y>>] : o \in Ops, x \in {t \in T2 : t.b \in Ops}, y \in {t \in T1 : t.b \in Ops}}
           \cup {[b |-> "not", x |-> x] : x \in {t \in T2 : t.b \in Ops}}
Terms == IF Deep THEN T3 ELSE T2
ASSUME \A b \in Terms : PrintT(ToJson(b))
VARIABLE x
Spec == x = 0 /\ [][x' = x]_x
=============================================================================

SPECIFICATION Spec
CONSTANTS
  Atoms = {"a", "b", "c"}
  EmitParens = FALSE

----------------------------- MODULE CypherExpr -----------------------------
(* Boolean-expression fragment of Cypher shared by C07 (parser faithfulness) and C10 (emitted Cypher means what the  *)
(* query model means).  Trees:                                                                                       *)
(*   [k |-> "atom", v |-> a]   [k |-> "not", x |-> t]   [k |-> "paren", x |-> t]   [k |-> op, xs |-> <<t1,..>>]     *)
(* with op in {"or","xor","and"}.                                                                                    *)
(*   Build   what the constructors of package query build: Or and Not wrap in a Parenthetical, And and Xor do not    *)
(*   Emit    the token sequence cypher/models/cypher/format writes.  EmitParens = FALSE: the pinned emitter, no      *)
(*           parentheses of its own; TRUE: the repaired emitter, which parenthesises an operand whose operator       *)
(*           binds weaker than its parent's                                                                          *)
(*   Parse   precedence climbing per Cypher.g4:  or < xor < and < not < atom                                         *)
(*   Strip   the meaning: parentheses removed, nested equal associative operators flattened                          *)
EXTENDS Integers, Sequences, FiniteSets, TLC
CONSTANTS Atoms, EmitParens
Atom(a) == [k |-> "atom", v |-> a]
Not(t) == [k |-> "not", x |-> t]
Par(t) == [k |-> "paren", x |-> t]
Nary(op, xs) == [k |-> op, xs |-> xs]
Prec(t) == CASE t.k = "or" -> 1 [] t.k = "xor" -> 2 [] t.k = "and" -> 3 [] t.k = "not" -> 4 [] OTHER -> 5
RECURSIVE Emit(_)
RECURSIVE EmitJoin(_, _, _)
EmitOperand(t, parentPrec) == IF EmitParens /\ Prec(t) < parentPrec THEN <<"(">> \o Emit(t) \o <<")">> ELSE Emit(t)
EmitJoin(xs, op, p) == IF Len(xs) = 1 THEN EmitOperand(xs[1], p) ELSE EmitOperand(xs[1], p) \o <<op>> \o EmitJoin(Tail(xs), op, p)
Emit(t) == CASE t.k = "atom" -> <<t.v>>
             [] t.k = "not" -> <<"not">> \o EmitOperand(t.x, 4)
             [] t.k = "paren" -> <<"(">> \o Emit(t.x) \o <<")">>
             [] OTHER -> EmitJoin(t.xs, t.k, Prec(t))
RECURSIVE POr(_)
RECURSIVE PXor(_)
RECURSIVE PAnd(_)
RECURSIVE PNot(_)
RECURSIVE PAtom(_)
RECURSIVE PList(_, _, _)
PList(level, op, acc) ==
   LET rest == acc[2] IN
   IF rest # <<>> /\ Head(rest) = op
     THEN LET nxt == IF level = "or" THEN PXor(Tail(rest)) ELSE IF level = "xor" THEN PAnd(Tail(rest)) ELSE PNot(Tail(rest))
          IN PList(level, op, <<Append(acc[1], nxt[1]), nxt[2]>>)
     ELSE acc
Wrap(op, r) == IF Len(r[1]) = 1 THEN <<r[1][1], r[2]>> ELSE <<Nary(op, r[1]), r[2]>>
POr(ts) == LET f == PXor(ts) IN Wrap("or", PList("or", "or", <<<<f[1]>>, f[2]>>))
PXor(ts) == LET f == PAnd(ts) IN Wrap("xor", PList("xor", "xor", <<<<f[1]>>, f[2]>>))
PAnd(ts) == LET f == PNot(ts) IN Wrap("and", PList("and", "and", <<<<f[1]>>, f[2]>>))
PNot(ts) == IF ts # <<>> /\ Head(ts) = "not" THEN LET r == PNot(Tail(ts)) IN <<Not(r[1]), r[2]>> ELSE PAtom(ts)
PAtom(ts) == IF Head(ts) = "(" THEN LET r == POr(Tail(ts)) IN <<Par(r[1]), Tail(r[2])>>
             ELSE <<Atom(Head(ts)), Tail(ts)>>
Parse(ts) == POr(ts)[1]
\* what package query builds
BAnd(xs) == Nary("and", xs)
BXor(xs) == Nary("xor", xs)
BOr(xs) == Par(Nary("or", xs))
BNot(x) == Not(Par(x))
RECURSIVE Strip(_)
Strip(t) == CASE t.k = "atom" -> t
              [] t.k = "not" -> Not(Strip(t.x))
              [] t.k = "paren" -> Strip(t.x)
              [] OTHER -> LET kids == [i \in 1..Len(t.xs) |-> Strip(t.xs[i])]
                              RECURSIVE Fl(_)
                              Fl(s) == IF s = <<>> THEN <<>> ELSE (IF Head(s).k = t.k THEN Head(s).xs ELSE <<Head(s)>>) \o Fl(Tail(s))
                          IN IF Len(kids) = 1 THEN kids[1] ELSE Nary(t.k, Fl(kids))
\* builder terms: [b |-> "atom", v] | [b |-> "not", x] | [b |-> "and"|"or"|"xor", xs]
RECURSIVE BuildOf(_)
BuildOf(b) == CASE b.b = "atom" -> Atom(b.v)
                [] b.b = "not" -> BNot(BuildOf(b.x))
                [] b.b = "and" -> BAnd([i \in 1..Len(b.xs) |-> BuildOf(b.xs[i])])
                [] b.b = "xor" -> BXor([i \in 1..Len(b.xs) |-> BuildOf(b.xs[i])])
                [] b.b = "or" -> BOr([i \in 1..Len(b.xs) |-> BuildOf(b.xs[i])])
\* what the term means: its combinator tree, parenthesis-free
RECURSIVE MeaningOf(_)
MeaningOf(b) == CASE b.b = "atom" -> Atom(b.v)
                  [] b.b = "not" -> Not(MeaningOf(b.x))
                  [] OTHER -> Strip(Nary(b.b, [i \in 1..Len(b.xs) |-> MeaningOf(b.xs[i])]))
\* what a tree asks: its truth value under an assignment of the atoms; two trees ask the same question iff they agree
\* under every assignment
RECURSIVE Eval(_, _)
RECURSIVE EvalList(_, _, _)
EvalList(op, xs, asg) == IF Len(xs) = 1 THEN Eval(xs[1], asg)
                         ELSE LET h == Eval(xs[1], asg) r == EvalList(op, Tail(xs), asg) IN
                              CASE op = "and" -> h /\ r [] op = "or" -> h \/ r [] OTHER -> h # r
Eval(t, asg) == CASE t.k = "atom" -> asg[t.v]
                  [] t.k = "not" -> ~Eval(t.x, asg)
                  [] t.k = "paren" -> Eval(t.x, asg)
                  [] OTHER -> EvalList(t.k, t.xs, asg)
RECURSIVE AtomsOf(_)
AtomsOf(t) == CASE t.k = "atom" -> {t.v}
                [] t.k \in {"not", "paren"} -> AtomsOf(t.x)
                [] OTHER -> UNION {AtomsOf(t.xs[i]) : i \in 1..Len(t.xs)}
SameQuestion(t1, t2) == LET as == AtomsOf(t1) \cup AtomsOf(t2) IN \A asg \in [as -> BOOLEAN] : Eval(t1, asg) = Eval(t2, asg)
Leaves == {[b |-> "atom", v |-> a] : a \in Atoms}
Ops == {"and", "or", "xor"}
T1 == Leaves \cup {[b |-> "not", x |-> x] : x \in Leaves} \cup {[b |-> o, xs |-> <<x, y>>] : o \in Ops, x \in Leaves, y \in Leaves}
T2 == T1 \cup {[b |-> "not", x |-> x] : x \in T1}
         \cup {[b |-> o, xs |-> <<x, y>>] : o \in Ops, x \in T1, y \in Leaves}
         \cup {[b |-> o, xs |-> <<y, x>>] : o \in Ops, x \in T1, y \in Leaves}
         \cup {[b |-> o, xs |-> <<x, y, z>>] : o \in Ops, x \in Leaves, y \in Leaves, z \in Leaves}
Faithful(b) == Strip(Parse(Emit(BuildOf(b)))) = MeaningOf(b) /\ SameQuestion(Parse(Emit(BuildOf(b))), MeaningOf(b))
=============================================================================

--------------------------- MODULE CypherExprTrace ---------------------------
(* Trace validation for C10 (and the boolean fragment of C07).                                                          *)
(*   c10{term, atoms, parsed, reparse_ok, fixpoint}                                                                      *)
(*     term    the builder term (JSON as printed by CypherExprGen)                                                       *)
(*     atoms   atom name -> the text the real emitter writes for that atom alone                                         *)
(*     parsed  the tree the real parser returns for the text the real emitter wrote for the model the real builder      *)
(*             built from term (atoms given by their emitted text)                                                      *)
(*   The statement: the parsed tree, parentheses stripped and associative operators flattened, is the term's meaning.   *)
(*   c07{text, parsed, reemitted_parsed, tokens_ok}: emit(parse(text)) parses to an equal model (fixed point) and keeps  *)
(*     the content tokens.                                                                                               *)
EXTENDS CypherExpr, Json
VARIABLE l
TraceLog == ndJsonDeserialize("trace.ndjson")
Ev == TraceLog[l]
TInit == l = 1 /\ TLCSet(1, 0)
RECURSIVE MeaningWith(_, _)
MeaningWith(b, atoms) == CASE b.b = "atom" -> Atom(atoms[b.v])
                           [] b.b = "not" -> Not(MeaningWith(b.x, atoms))
                           [] OTHER -> Strip(Nary(b.b, [i \in 1..Len(b.xs) |-> MeaningWith(b.xs[i], atoms)]))
TC10 == /\ Ev.e = "c10" /\ ~Ev.panic /\ Ev.reparse_ok
        /\ (~Ev.sem_only => Strip(Ev.parsed) = MeaningWith(Ev.term, Ev.atoms))      \* same operator tree, grouping preserved
        /\ SameQuestion(Ev.parsed, MeaningWith(Ev.term, Ev.atoms))                  \* and in any case the same question
TC07 == /\ Ev.e = "c07" /\ ~Ev.panic
        /\ Ev.accepted => (Ev.reparse_ok /\ Ev.fixpoint /\ Ev.tokens_ok /\ Ev.order_ok)
        /\ Ev.unrepresentable => ~Ev.accepted      \* a text holding what no token or type can hold is rejected, not accepted in part
\* kinds keep their all-of / any-of meaning through emit and parse
TKind == /\ Ev.e = "kind" /\ ~Ev.panic /\ Ev.reparse_ok
         /\ Len(Ev.kinds) = Ev.n /\ Cardinality({Ev.kinds[i] : i \in DOMAIN Ev.kinds}) = Ev.n
         /\ Ev.meaning = (IF Ev.n = 1 THEN "single" ELSE IF Ev.exclusive THEN "allof" ELSE "anyof")
\* whole queries: whatever the builder accepted parses back to the descriptor it was built from (returned items, DISTINCT,
\* ORDER BY keys and directions, SKIP / LIMIT values, updating clauses in order, node or relationship query)
TC10Q == /\ Ev.e = "c10q" /\ ~Ev.panic
         /\ Ev.built => (Ev.reparse_ok /\ Ev.note = "" /\ Ev.parsed = Ev.expected)
\* literals: the text rendered for a comparison against a literal parses back to a literal of the same type and value
\* (a negative number comes back as a minus applied to a number: the harness reads that as the negative number)
TC10Lit == /\ Ev.e = "c10lit" /\ ~Ev.panic
           /\ Ev.rendered => (Ev.reparse_ok /\ Ev.parsed_type = Ev.expected_type /\ Ev.same_value)
\* create queries: whatever a builder accepted parses; every variable the query reads (WHERE, RETURN, SET, DELETE) is
\* bound by its MATCH or introduced by its CREATE; there is exactly one CREATE clause; and the text of the Neo4j builder
\* and the model of query.Builder bind and create the same variables
SetOf(s) == {s[i] : i \in DOMAIN s}
TC10C == /\ Ev.e = "c10c" /\ ~Ev.panic
         /\ Ev.built => /\ Ev.reparse_ok /\ Ev.note = ""
                         /\ SetOf(Ev.facts.refs) \subseteq (SetOf(Ev.facts.bound) \cup SetOf(Ev.facts.created))
                         /\ Ev.facts.creates = 1
                         /\ Ev.peer_ok => (SetOf(Ev.facts.bound) = SetOf(Ev.peer_bound) /\ SetOf(Ev.facts.created) = SetOf(Ev.peer_created))
\* the rewrite the Neo4j driver applies to every text before sending it: the text that comes out parses, and apart from
\* temporal wrappers around properties (datetime(n.p) for n.p) its canonical re-emission equals that of the text that went in
TC10R == /\ Ev.e = "c10r" /\ ~Ev.panic
         /\ (Ev.accepted /\ ~Ev.err) => (Ev.reparse_ok /\ Ev.same)
TNext == l <= Len(TraceLog) /\ (TC10 \/ TC07 \/ TKind \/ TC10Q \/ TC10Lit \/ TC10C \/ TC10R) /\ l' = l + 1
TSpec == TInit /\ [][TNext]_l
HW == TLCSet(1, IF l > TLCGet(1) THEN l ELSE TLCGet(1))
Accepted == IF TLCGet(1) = Len(TraceLog) + 1 THEN TRUE ELSE PrintT(<<"STUCK_AT_LINE", TLCGet(1)>>) /\ FALSE
=============================================================================

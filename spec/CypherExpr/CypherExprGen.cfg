SPECIFICATION Spec
CONSTANTS
  Atoms = {"a", "b", "c"}
  EmitParens = TRUE
  Deep = FALSE

--------------------------- MODULE CypherExprCheck ---------------------------
(* Exhaustive check (ASSUME-evaluated, no behaviours): every builder term of depth <= 2 survives Build -> Emit -> Parse. *)
EXTENDS CypherExpr
Bad == {b \in T2 : ~Faithful(b)}
ASSUME PrintT(<<"terms", Cardinality(T2), "bad", Cardinality(Bad)>>)
ASSUME Bad = {}
VARIABLE x
Spec == x = 0 /\ [][x' = x]_x
=============================================================================

----------------------------- MODULE QueryShape -----------------------------
(* Whole-query descriptors for C10: what a query assembled with the package query builders asks for besides its   *)
(* criteria - the returned items, DISTINCT, ORDER BY keys and directions, SKIP / LIMIT values, updating clauses.  *)
(* Every descriptor is printed once; the harness builds the query from it with the real constructors, renders it   *)
(* with the Neo4j query builder, parses the text with the real parser and describes the parsed model in the same  *)
(* vocabulary.                                                                                                    *)
EXTENDS Integers, Sequences, FiniteSets, TLC, Json
NodeItems == {"node", "id", "prop:a", "prop:b", "kinds", "count", "size:l"}
RelItems == {"rel", "relid", "startid", "endprop:a", "relprop:w"}
Seqs(S) == {<<x>> : x \in S} \cup {<<x, y>> : x \in S, y \in S}
Distinct2(s) == IF Len(s) = 2 THEN s[1] # s[2] ELSE TRUE
Orders(rel) == IF rel THEN {<<>>, <<[k |-> "relprop:w", asc |-> FALSE]>>, <<[k |-> "relid", asc |-> TRUE], [k |-> "relprop:w", asc |-> TRUE]>>}
               ELSE {<<>>, <<[k |-> "prop:a", asc |-> TRUE]>>, <<[k |-> "prop:a", asc |-> FALSE]>>, <<[k |-> "prop:b", asc |-> FALSE], [k |-> "id", asc |-> TRUE]>>}
Updates(rel) == IF rel THEN {<<>>, <<"set:a">>, <<"remove:a">>, <<"delete">>}
                ELSE {<<>>, <<"set:a">>, <<"set:a", "set:b">>, <<"remove:a">>, <<"addkind:A">>, <<"removekind:B">>, <<"addkind:A", "remove:a">>, <<"delete">>}
Shapes == {[rel |-> rel, ret |-> ret, distinct |-> d, order |-> o, skip |-> sk, limit |-> li, upd |-> u] :
             rel \in BOOLEAN, ret \in {<<>>} \cup Seqs(NodeItems \cup RelItems), d \in BOOLEAN, o \in Orders(TRUE) \cup Orders(FALSE), sk \in {0, 5}, li \in {0, 10},
             u \in Updates(TRUE) \cup Updates(FALSE)}
Good(s) == /\ Distinct2(s.ret) \/ s.ret = <<>>
           /\ \A i \in DOMAIN s.ret : s.ret[i] \in (IF s.rel THEN RelItems ELSE NodeItems)
           /\ s.order \in Orders(s.rel) /\ s.upd \in Updates(s.rel)
           /\ (s.ret = <<>>) => (s.upd # <<>> /\ s.order = <<>> /\ s.skip = 0 /\ s.limit = 0 /\ ~s.distinct)
           /\ s.distinct => s.ret # <<>>
ASSUME \A s \in {x \in Shapes : Good(x)} : PrintT(ToJson(s))
\* create queries: which endpoints the WHERE clause reads, what the CREATE clause names (bound endpoints or new patterns),
\* what is returned.  Built with both builders of the repository (query/neo4j's text builder and query.Builder, whose
\* model the PostgreSQL driver translates).
CreateShapes == [where : {"none", "start", "end", "both"},
                 create : {"edge-between-bound", "edge-new", "edge-from-bound-start", "edge-to-bound-end", "node-new"},
                 ret : {"none", "rel", "startid", "endid"}]
ASSUME \A s \in CreateShapes : PrintT(ToJson(s))
VARIABLE x
Spec == x = 0 /\ [][x' = x]_x
=============================================================================

SPECIFICATION TSpec
CONSTANTS
  Atoms = {"a", "b", "c"}
  EmitParens = TRUE
CONSTRAINT HW
POSTCONDITION Accepted
CHECK_DEADLOCK FALSE

------------------------------ MODULE ReachProp ------------------------------
(* P-spec for C15: plain reachability on a finite digraph, nothing about components or caches. *)
(* Directions: "out" follows edges, "in" follows them backwards, "both" ignores orientation.    *)
EXTENDS Integers, FiniteSets, Sequences, TLC
Succ(E, n) == {e[2] : e \in {x \in E : x[1] = n}}
Inverse(E) == {<<e[2], e[1]>> : e \in E}
RECURSIVE RF(_, _, _)
RF(E, F, S) == IF F = {} THEN S
               ELSE LET nx == (UNION {Succ(E, f) : f \in F}) \ S IN RF(E, nx, S \cup nx)
Reach(E, n) == RF(E, {n}, {n})                       \* reflexive-transitive
DirEdges(E, dir) == CASE dir = "out" -> E [] dir = "in" -> Inverse(E) [] OTHER -> E \cup Inverse(E)
\* closure tables, computed once per graph
ReachTable(N, E, dir) == [n \in N |-> Reach(DirEdges(E, dir), n)]
SCCOf(Rout, n) == {m \in Rout[n] : n \in Rout[m]}
Partition(N, Rout) == {SCCOf(Rout, n) : n \in N}
\* a digraph on index set I with edge set CE is acyclic iff no node reaches itself in >= 1 step
Acyclic(I, CE) == \A i \in I : i \notin UNION {Reach(CE, j) : j \in Succ(CE, i)}
=============================================================================

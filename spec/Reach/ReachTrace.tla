----------------------------- MODULE ReachTrace -----------------------------
(* Trace validation for C15.  Events (abstract node ids; the harness owns the embedding):       *)
(*   graph{nodes,edges,cap,container}   scc{comps,cedges}                                       *)
(*   reach{m,dir,ans}  can{a,b,dir,ans}  or{node,dir,pre,ans}  xor{node,dir,pre,ans}            *)
(* The closure tables are computed once per graph event; every answer must equal plain          *)
(* reachability, whatever was asked before and whatever the cache capacity.                     *)
EXTENDS ReachProp, Json
VARIABLES N, E, R, l
TraceLog == ndJsonDeserialize("trace.ndjson")
Ev == TraceLog[l]
tvars == <<N, E, R, l>>
ToSet(s) == {s[i] : i \in DOMAIN s}
PairSet(s) == {<<s[i][1], s[i][2]>> : i \in DOMAIN s}
TInit == N = {} /\ E = {} /\ R = <<>> /\ l = 1 /\ TLCSet(1, 0)
TGraph == /\ Ev.e = "graph" /\ ~Ev.panic
          /\ N' = ToSet(Ev.nodes) /\ E' = PairSet(Ev.edges)
          /\ R' = [d \in {"out", "in", "both"} |-> ReachTable(N', E', d)]
Known(n) == n \in N
RSet(n, d) == IF Known(n) THEN R[d][n] ELSE {}
TScc == /\ Ev.e = "scc" /\ ~Ev.panic /\ UNCHANGED <<N, E, R>>
        /\ LET comps == [i \in DOMAIN Ev.comps |-> ToSet(Ev.comps[i])]
               CE == PairSet(Ev.cedges)
               I == DOMAIN Ev.comps
               CompOf(n) == CHOOSE i \in I : n \in comps[i]
           IN /\ {comps[i] : i \in I} = Partition(N, R["out"])                \* same component iff mutually reachable
              /\ \A i, j \in I : i # j => comps[i] \cap comps[j] = {}
              /\ \A i \in I : \A j \in DOMAIN Ev.comps[i] : \A k \in DOMAIN Ev.comps[i] : j # k => Ev.comps[i][j] # Ev.comps[i][k]
              /\ CE = {<<CompOf(e[1]), CompOf(e[2])>> : e \in {x \in E : CompOf(x[1]) # CompOf(x[2])}}
              /\ Acyclic(I, CE)
TReach == /\ Ev.e = "reach" /\ ~Ev.panic /\ UNCHANGED <<N, E, R>>
          /\ ~Ev.dup /\ ToSet(Ev.ans) = RSet(Ev.m, Ev.dir)
TCan == /\ Ev.e = "can" /\ ~Ev.panic /\ UNCHANGED <<N, E, R>>
        /\ Ev.ans = (Known(Ev.a) /\ Known(Ev.b) /\ Ev.b \in R[Ev.dir][Ev.a])
TOr == /\ Ev.e = "or" /\ ~Ev.panic /\ UNCHANGED <<N, E, R>>
       /\ ToSet(Ev.ans) = (ToSet(Ev.pre) \cup RSet(Ev.node, Ev.dir)) \ {Ev.node}
TXor == /\ Ev.e = "xor" /\ ~Ev.panic /\ UNCHANGED <<N, E, R>>
        /\ LET p == ToSet(Ev.pre)  r == RSet(Ev.node, Ev.dir) \ {Ev.node}
           IN ToSet(Ev.ans) = (p \ r) \cup (r \ p)
TNext == l <= Len(TraceLog) /\ (TGraph \/ TScc \/ TReach \/ TCan \/ TOr \/ TXor) /\ l' = l + 1
TSpec == TInit /\ [][TNext]_tvars
HW == TLCSet(1, IF l > TLCGet(1) THEN l ELSE TLCGet(1))
Accepted == IF TLCGet(1) = Len(TraceLog) + 1 THEN TRUE ELSE PrintT(<<"STUCK_AT_LINE", TLCGet(1)>>) /\ FALSE
=============================================================================

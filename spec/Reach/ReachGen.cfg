SPECIFICATION GSpec
CONSTANTS
  Mode = "dag"
  K = 5
  Caps = {1, 2, 5}
  QLen = 2
  Dirs = {"out"}
CHECK_DEADLOCK FALSE

---------------------------- MODULE ReachRandGen ----------------------------
(* Sampling generator for the reachability area (run with tlc -simulate): graphs too large to   *)
(* enumerate.  One behaviour = one history: a DAG-leaning digraph on n nodes (NMin..NMax) with   *)
(* between n and EdgeFactor*n edges of which at most `back` point backwards or at the node       *)
(* itself, a cache capacity, and a sequence of reach queries.  The harness appends the sweep     *)
(* (every reach, every can-reach pair in every direction).                                       *)
EXTENDS Integers, Sequences, FiniteSets, TLC, Json, SequencesExt
CONSTANTS NMin, NMax, Caps, MaxQ, Dirs, EdgeFactor, BackMax
VARIABLES n, m, back, nq, g, cap, qs, phase
gvars == <<n, m, back, nq, g, cap, qs, phase>>
V == 0..(n-1)
Fwd == {p \in V \X V : p[1] < p[2]}
Bwd == {p \in V \X V : p[1] >= p[2]}
GInit == /\ n \in NMin..NMax /\ m \in 1..(EdgeFactor * NMax) /\ m >= n - 2 /\ m <= EdgeFactor * n
         /\ back \in 0..BackMax /\ nq \in 1..MaxQ /\ cap \in Caps
         /\ g = {} /\ qs = <<>> /\ phase = "edges"
NBack == Cardinality(g \cap Bwd)
Cands == (Fwd \ g) \cup (IF NBack < back THEN Bwd \ g ELSE {})
GEdge == /\ phase = "edges" /\ Cardinality(g) < m /\ Cands # {}
         /\ \E p \in Cands : g' = g \cup {p}
         /\ UNCHANGED <<n, m, back, nq, cap, qs, phase>>
GEdgesDone == /\ phase = "edges" /\ (Cardinality(g) >= m \/ Cands = {})
              /\ phase' = "qs" /\ UNCHANGED <<n, m, back, nq, g, cap, qs>>
GQuery == /\ phase = "qs" /\ Len(qs) < nq
          /\ \E c \in V, d \in Dirs : qs' = Append(qs, <<c, d>>)
          /\ UNCHANGED <<n, m, back, nq, g, cap, phase>>
GEmit == /\ phase = "qs" /\ Len(qs) = nq
         /\ PrintT(ToJson([mode |-> "rand", k |-> n, edges |-> SetToSeq(g), cap |-> cap, qs |-> qs]))
         /\ phase' = "done" /\ UNCHANGED <<n, m, back, nq, g, cap, qs>>
GNext == GEdge \/ GEdgesDone \/ GQuery \/ GEmit
GSpec == GInit /\ [][GNext]_gvars
=============================================================================

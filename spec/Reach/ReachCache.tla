------------------------------ MODULE ReachCache ------------------------------
(* M-spec of algo.ReachabilityCache.componentReachDFS over component DAGs (algo/reach.go).      *)
(* Components 0..K-1, edges only i -> j with i < j (every DAG up to relabelling), adjacency     *)
(* visited in ascending order, one DFS step per action so that eviction can strike in the       *)
(* middle of a search; the cache evicts nondeterministically (sound abstraction of SIEVE).      *)
(* Fixed = FALSE is the pinned code: every popped cursor is cached, although a non-root cursor  *)
(* that skipped an already-visited component holds only part of its reach.  Fixed = TRUE is the *)
(* repaired code: such a cursor rolls in the visited component's cached reach if it is still    *)
(* cached, otherwise it is marked partial; partial propagates to non-root ancestors and a       *)
(* partial cursor is never cached.                                                              *)
EXTENDS Integers, Sequences, FiniteSets, TLC
CONSTANTS K, Capacity, MaxQueries, Fixed
C == 0..(K-1)
Pairs == {p \in C \X C : p[1] < p[2]}
VARIABLES dag, cache, stack, visited, nq, lastAns, lastQ
vars == <<dag, cache, stack, visited, nq, lastAns, lastQ>>
Adj(c) == {p[2] : p \in {q \in dag : q[1] = c}}
SeqOf(S) == LET RECURSIVE F(_)
                F(T) == IF T = {} THEN <<>> ELSE LET m == CHOOSE x \in T : \A y \in T : x <= y IN <<m>> \o F(T \ {m})
            IN F(S)
RECURSIVE TrueReach(_)
TrueReach(c) == {c} \cup UNION {TrueReach(a) : a \in Adj(c)}
Init == /\ dag \in SUBSET Pairs /\ cache = <<>> /\ stack = <<>> /\ visited = {} /\ nq = 0 /\ lastAns = {} /\ lastQ = -1
Idle == stack = <<>>
PutInto(ch, c, r, ch2) ==
   IF c \in DOMAIN ch \/ Cardinality(DOMAIN ch) < Capacity
     THEN ch2 = [x \in DOMAIN ch \cup {c} |-> IF x = c THEN r ELSE ch[x]]
     ELSE \E v \in DOMAIN ch : ch2 = [x \in (DOMAIN ch \ {v}) \cup {c} |-> IF x = c THEN r ELSE ch[x]]
Cursor(c, isRoot) == [c |-> c, adj |-> SeqOf(Adj(c)), idx |-> 1,
                      reach |-> IF isRoot THEN {c} ELSE Adj(c) \cup {c}, root |-> isRoot, partial |-> FALSE]
Query(c) == /\ Idle /\ nq < MaxQueries /\ nq' = nq + 1 /\ lastQ' = c
            /\ IF c \in DOMAIN cache
                 THEN lastAns' = cache[c] /\ UNCHANGED <<cache, stack, visited, dag>>
                 ELSE /\ stack' = <<Cursor(c, TRUE)>> /\ visited' = {c} /\ lastAns' = {} /\ UNCHANGED <<cache, dag>>
Top == stack[Len(stack)]
SetTop(s, t) == [s EXCEPT ![Len(s)] = t]
Step == /\ ~Idle
        /\ IF Top.idx > Len(Top.adj)
             THEN LET done == Top
                      rest == SubSeq(stack, 1, Len(stack) - 1)
                      finalReach == IF done.root THEN visited ELSE done.reach
                  IN /\ IF rest = <<>>
                          THEN /\ stack' = <<>> /\ lastAns' = visited /\ visited' = visited
                          ELSE LET par == rest[Len(rest)] IN
                               /\ stack' = SetTop(rest, [par EXCEPT !.reach = @ \cup done.reach,
                                                                   !.partial = @ \/ (done.partial /\ ~par.root)])
                               /\ visited' = IF par.root THEN visited \cup done.reach ELSE visited
                               /\ UNCHANGED lastAns
                     /\ IF Fixed /\ done.partial /\ ~done.root
                          THEN UNCHANGED cache
                          ELSE PutInto(cache, done.c, finalReach, cache')
             ELSE LET nxt == Top.adj[Top.idx]
                      adv == [Top EXCEPT !.idx = @ + 1]
                  IN IF nxt \notin visited
                       THEN /\ IF nxt \in DOMAIN cache
                                 THEN /\ stack' = SetTop(stack, [adv EXCEPT !.reach = @ \cup cache[nxt]])
                                      /\ visited' = IF Top.root THEN visited \cup {nxt} \cup cache[nxt] ELSE visited \cup {nxt}
                                 ELSE /\ stack' = Append(SetTop(stack, adv), Cursor(nxt, FALSE))
                                      /\ visited' = visited \cup {nxt}
                            /\ UNCHANGED <<cache, lastAns>>
                       ELSE /\ IF Fixed /\ ~Top.root
                                 THEN IF nxt \in DOMAIN cache
                                        THEN stack' = SetTop(stack, [adv EXCEPT !.reach = @ \cup cache[nxt]])
                                        ELSE stack' = SetTop(stack, [adv EXCEPT !.partial = TRUE])
                                 ELSE stack' = SetTop(stack, adv)
                            /\ UNCHANGED <<cache, visited, lastAns>>
        /\ UNCHANGED <<dag, nq, lastQ>>
Next == Step \/ \E c \in C : Query(c)
Spec == Init /\ [][Next]_vars
CacheSound == \A c \in DOMAIN cache : cache[c] = TrueReach(c)
AnswerRight == (Idle /\ lastQ >= 0) => lastAns = TrueReach(lastQ)
Bounded == Cardinality(DOMAIN cache) <= Capacity
=============================================================================

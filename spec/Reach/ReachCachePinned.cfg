SPECIFICATION Spec
CONSTANTS
  K = 5
  Capacity = 5
  MaxQueries = 2
  Fixed = FALSE
INVARIANTS CacheSound AnswerRight Bounded
CHECK_DEADLOCK FALSE

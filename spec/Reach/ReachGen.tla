------------------------------ MODULE ReachGen ------------------------------
(* Generator for the reachability area.                                                        *)
(*  Mode "dag":   every DAG on K components (edges i -> j, i < j) x capacity x every sequence   *)
(*                of QLen reach queries (component, direction).  The harness lifts components   *)
(*                to nodes (single node or 2-cycle) and appends a sweep that reads every cache  *)
(*                entry back.                                                                   *)
(*  Mode "nodes": every digraph on N nodes (self loops, 2-cycles included) - exercises the SCC  *)
(*                decomposition and the bidirectional component search; the harness asks every  *)
(*                question about it.                                                            *)
EXTENDS Integers, Sequences, FiniteSets, TLC, Json, SequencesExt
CONSTANTS Mode, K, Caps, QLen, Dirs
VARIABLES g, cap, qs, emitted
gvars == <<g, cap, qs, emitted>>
V == 0..(K-1)
PairSet == IF Mode = "dag" THEN {p \in V \X V : p[1] < p[2]} ELSE V \X V
GInit == /\ g \in SUBSET PairSet /\ cap \in Caps /\ qs = <<>> /\ emitted = FALSE
GStep == /\ Len(qs) < QLen /\ \E c \in V, d \in Dirs : qs' = Append(qs, <<c, d>>)
         /\ UNCHANGED <<g, cap, emitted>>
GEmit == /\ Len(qs) = QLen /\ ~emitted
         /\ PrintT(ToJson([mode |-> Mode, k |-> K, edges |-> SetToSeq(g), cap |-> cap, qs |-> qs]))
         /\ emitted' = TRUE /\ UNCHANGED <<g, cap, qs>>
GNext == GStep \/ GEmit
GSpec == GInit /\ [][GNext]_gvars
=============================================================================

SPECIFICATION Spec
CONSTANTS
  K = 5
  Capacity = 5
  MaxQueries = 3
  Fixed = TRUE
INVARIANTS CacheSound AnswerRight Bounded
CHECK_DEADLOCK FALSE

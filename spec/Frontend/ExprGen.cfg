SPECIFICATION Spec

------------------------------- MODULE WithGen -------------------------------
(* Projection pipelines: a MATCH that binds a node n, a relationship r, a second node m and a path p, followed by    *)
(* Steps WITH clauses and a RETURN of whatever is still in scope.  In every WITH each variable in scope is carried   *)
(* under its name, carried under a new name, or dropped - every combination, so that every kind of binding (node,     *)
(* relationship, path) meets every way of being handed on, twice in a row.  Printed as                                *)
(*   [cls |-> "with", steps |-> << <<choice for n, for r, for m, for p>>, ... >>]   choice: "keep" | "rename" | "drop"  *)
(* A variable dropped by a step stays dropped.                                                                         *)
EXTENDS Integers, Sequences, FiniteSets, TLC, Json
CONSTANT Steps
Choice == {"keep", "rename", "drop"}
Step == [1..4 -> Choice]
Seqs(n) == [1..n -> Step]
\* dropped stays dropped; some variable survives every step
Live(s, i, v) == \A j \in 1..i : s[j][v] # "drop"
Ok(s) == /\ \A i \in 2..Len(s) : \A v \in 1..4 : (~Live(s, i - 1, v)) => s[i][v] = "drop"
         /\ \E v \in 1..4 : Live(s, Len(s), v)
ASSUME \A k \in 1..Steps : \A s \in Seqs(k) : Ok(s) => PrintT(ToJson([cls |-> "with", steps |-> [i \in 1..k |-> [v \in 1..4 |-> s[i][v]]]]))
VARIABLE x
Spec == x = 0 /\ [][x' = x]_x
=============================================================================

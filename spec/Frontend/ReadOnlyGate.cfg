SPECIFICATION Spec
CONSTANTS MaxLen = 3
INVARIANTS GateSound GateNotVacuous
CHECK_DEADLOCK FALSE

SPECIFICATION Spec
CONSTANTS Steps = 2

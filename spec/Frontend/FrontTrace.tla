----------------------------- MODULE FrontTrace -----------------------------
(* Trace validation for the parser front end.                                                                        *)
(*   gate{forbidden,control_ok,default_ok,translated,dml,panic}   C09: one rendered clause skeleton parsed without   *)
(*        filters (control) and under the default context, then translated if accepted                               *)
(*   parse{ok,modelnil,panic,len,ms,budget_ms}                    C08: one arbitrary input: total, bounded, either a *)
(*        model or an error                                                                                          *)
EXTENDS Integers, Sequences, FiniteSets, TLC, Json
VARIABLE l
TraceLog == ndJsonDeserialize("trace.ndjson")
Ev == TraceLog[l]
TInit == l = 1 /\ TLCSet(1, 0)
\* C09: accepted by the default context => no updating clause, no call, no parameter anywhere, and no DML in the SQL
TGate == /\ Ev.e = "gate" /\ ~Ev.panic
         /\ Ev.default_ok => ~Ev.forbidden
         /\ Ev.default_ok => ~Ev.dml
\* C08: never a panic; a model without an error or a non-nil error, never neither; empty input rejected; within the time budget
TParse == /\ Ev.e = "parse" /\ ~Ev.panic
          /\ Ev.ok => ~Ev.modelnil
          /\ Ev.blank => ~Ev.ok
          /\ Ev.ms <= Ev.budget_ms
          /\ Ev.unrepresentable => ~Ev.ok      \* a number no type can hold is an error, not a model with a hole
          /\ Ev.ok => Ev.emit_ok               \* a model handed out without an error is whole: the emitter can write it out
TNext == l <= Len(TraceLog) /\ (TGate \/ TParse) /\ l' = l + 1
TSpec == TInit /\ [][TNext]_l
HW == TLCSet(1, IF l > TLCGet(1) THEN l ELSE TLCGet(1))
Accepted == IF TLCGet(1) = Len(TraceLog) + 1 THEN TRUE ELSE PrintT(<<"STUCK_AT_LINE", TLCGet(1)>>) /\ FALSE
=============================================================================

------------------------------- MODULE ExprGen -------------------------------
(* Generator for the expression part of the openCypher grammar (oC_Expression and below, Cypher.g4).     *)
(* A production is a token sequence with holes ("_"); every hole has a default filling.  The module      *)
(* prints                                                                                                *)
(*   depth 1: every production with its default fillings, and every leaf;                               *)
(*   depth 2: every production P, every hole h of P, every production or leaf Q: P with Q in hole h,      *)
(*            written as it stands and in parentheses (the other holes keep their defaults).             *)
(* That is pairwise coverage of "which construct may stand directly inside which", the relation a       *)
(* visitor-based parser, an emitter and a translator are each organised around.  The harness puts the    *)
(* token sequences into the expression positions of a query.                                             *)
EXTENDS Integers, Sequences, FiniteSets, TLC, Json
H == "_"
\* leaves: variable, property, parameter, literals of every kind, count(*)
Leaves == <<
  [name |-> "var",      toks |-> <<"n">>],
  [name |-> "relvar",   toks |-> <<"r">>],
  [name |-> "prop",     toks |-> <<"n", ".", "name">>],
  [name |-> "param",    toks |-> <<"$p">>],
  [name |-> "int",      toks |-> <<"1">>],
  [name |-> "float",    toks |-> <<"1.5">>],
  [name |-> "string",   toks |-> <<"'a'">>],
  [name |-> "true",     toks |-> <<"true">>],
  [name |-> "null",     toks |-> <<"null">>],
  [name |-> "list",     toks |-> <<"[", "1", ",", "2", "]">>],
  [name |-> "emptylist",toks |-> <<"[", "]">>],
  [name |-> "map",      toks |-> <<"{", "k", ":", "1", "}">>],
  [name |-> "countstar",toks |-> <<"count", "(", "*", ")">> ],
  \* names that need backticks: a parameter, a property key
  [name |-> "escparam", toks |-> <<"$`a b`">>],
  [name |-> "escprop",  toks |-> <<"n", ".", "`odd key`">>]
>>
B == <<"n", ".", "a", "=", "1">>      \* default filling of a hole that wants a truth value
V == <<"n", ".", "x">>                \* ... a value
S == <<"n", ".", "name">>             \* ... a string
L == <<"n", ".", "list">>             \* ... a list
N == <<"n">>                           \* ... an entity
Bin(name, op, d1, d2) == [name |-> name, toks |-> <<H, op, H>>, defs |-> <<d1, d2>>]
Bin2(name, op1, op2, d1, d2) == [name |-> name, toks |-> <<H, op1, op2, H>>, defs |-> <<d1, d2>>]
Fun1(f, d) == [name |-> f, toks |-> <<f, "(", H, ")">>, defs |-> <<d>>]
Quant(q) == [name |-> q, toks |-> <<q, "(", "x", "in", H, "where", H, ")">>, defs |-> <<L, <<"x", "=", "1">> >>]
Prods == <<
  Bin("or", "or", B, B), Bin("xor", "xor", B, B), Bin("and", "and", B, B),
  [name |-> "not", toks |-> <<"not", H>>, defs |-> <<B>>],
  Bin("eq", "=", V, V), Bin("ne", "<>", V, V), Bin("lt", "<", V, V), Bin("le", "<=", V, V), Bin("gt", ">", V, V), Bin("ge", ">=", V, V),
  [name |-> "chain", toks |-> <<"1", "<", H, "<=", H>>, defs |-> <<V, <<"5">> >>],
  Bin("add", "+", V, V), Bin("sub", "-", V, V), Bin("mul", "*", V, V), Bin("div", "/", V, V), Bin("mod", "%", V, V), Bin("pow", "^", V, V),
  [name |-> "neg", toks |-> <<"-", H>>, defs |-> <<V>>],
  [name |-> "pos", toks |-> <<"+", H>>, defs |-> <<V>>],
  Bin2("starts", "starts", "with", S, <<"'a'">>), Bin2("ends", "ends", "with", S, <<"'a'">>), Bin("contains", "contains", S, <<"'a'">>),
  Bin("regex", "=~", S, <<"'a.*'">>), Bin("in", "in", V, L),
  [name |-> "isnull", toks |-> <<H, "is", "null">>, defs |-> <<V>>],
  [name |-> "isnotnull", toks |-> <<H, "is", "not", "null">>, defs |-> <<V>>],
  [name |-> "lookup", toks |-> <<H, ".", "k">>, defs |-> <<N>>],
  [name |-> "lookupj", toks |-> <<H, ".", "j">>, defs |-> <<N>>],
  [name |-> "label", toks |-> <<H, ":", "K">>, defs |-> <<N>>],
  [name |-> "labels2", toks |-> <<H, ":", "K", ":", "K2">>, defs |-> <<N>>],
  [name |-> "labelsdup", toks |-> <<H, ":", "K", ":", "K2", ":", "K">>, defs |-> <<N>>],
  [name |-> "esclabel", toks |-> <<H, ":", "`Odd Kind`">>, defs |-> <<N>>],
  [name |-> "esclookup", toks |-> <<H, ".", "`a.b`">>, defs |-> <<N>>],
  [name |-> "index", toks |-> <<H, "[", "0", "]">>, defs |-> <<L>>],
  [name |-> "indexby", toks |-> <<"n", ".", "list", "[", H, "]">>, defs |-> <<<<"0">>>>],
  [name |-> "slice", toks |-> <<H, "[", "0", "..", "1", "]">>, defs |-> <<L>>],
  [name |-> "paren", toks |-> <<"(", H, ")">>, defs |-> <<V>>],
  Fun1("id", N), Fun1("toLower", S), Fun1("toUpper", S), Fun1("size", L), Fun1("count", N), Fun1("collect", V), Fun1("type", <<"r">>), Fun1("labels", N),
  Fun1("exists", V), Fun1("toString", V), Fun1("toInteger", V), Fun1("head", L), Fun1("keys", N), Fun1("properties", N), Fun1("sum", V), Fun1("min", V),
  Fun1("abs", V), Fun1("startNode", <<"r">>), Fun1("endNode", <<"r">>), Fun1("date", <<"'2020-01-01'">>), Fun1("length", <<"p">>), Fun1("nodes", <<"p">>),
  [name |-> "countdistinct", toks |-> <<"count", "(", "distinct", H, ")">>, defs |-> <<V>>],
  [name |-> "coalesce", toks |-> <<"coalesce", "(", H, ",", H, ")">>, defs |-> <<V, <<"1">> >>],
  [name |-> "split", toks |-> <<"split", "(", H, ",", H, ")">>, defs |-> <<S, <<"','">> >>],
  [name |-> "listof", toks |-> <<"[", H, ",", H, "]">>, defs |-> <<V, <<"2">> >>],
  [name |-> "mapof", toks |-> <<"{", "k", ":", H, ",", "j", ":", H, "}">>, defs |-> <<V, <<"2">> >>],
  Quant("any"), Quant("all"), Quant("none"), Quant("single"),
  [name |-> "case", toks |-> <<"case", "when", H, "then", H, "else", H, "end">>, defs |-> <<B, V, <<"0">> >>],
  [name |-> "casesimple", toks |-> <<"case", H, "when", "1", "then", H, "end">>, defs |-> <<V, V>>],
  [name |-> "listcomp", toks |-> <<"[", "x", "in", H, "where", H, "|", H, "]">>, defs |-> <<L, <<"x", ">", "0">>, <<"x">> >>],
  [name |-> "patternpred", toks |-> <<"(", "n", ")", "-", "[", ":", "E", "]", "->", "(", ")">>, defs |-> <<>>],
  [name |-> "existssub", toks |-> <<"exists", "{", "match", "(", "n", ")", "-->", "(", "m", ")", "where", H, "}">>, defs |-> <<B>>]
>>
HolesOf(t) == {i \in DOMAIN t : t[i] = H}
\* the k-th hole (in order of position) of a token sequence
RECURSIVE NthHole(_, _, _)
NthHole(t, k, from) == LET i == CHOOSE j \in from..Len(t) : t[j] = H /\ \A m \in from..(j-1) : t[m] # H
                       IN IF k = 1 THEN i ELSE NthHole(t, k - 1, i + 1)
\* replace the token at position i by the sequence s
Splice(t, i, s) == SubSeq(t, 1, i - 1) \o s \o SubSeq(t, i + 1, Len(t))
\* fill every hole with its default; the holes are filled from the last to the first so that positions stay valid
RECURSIVE FillFrom(_, _, _)
FillFrom(t, defs, k) == IF k = 0 THEN t ELSE FillFrom(Splice(t, NthHole(t, k, 1), defs[k]), defs, k - 1)
Filled(p) == FillFrom(p.toks, p.defs, Len(p.defs))
Items == [i \in 1..(Len(Leaves) + Len(Prods)) |-> IF i <= Len(Leaves) THEN [name |-> Leaves[i].name, toks |-> Leaves[i].toks]
                                                    ELSE [name |-> Prods[i - Len(Leaves)].name, toks |-> Filled(Prods[i - Len(Leaves)])]]
\* P with Q in hole h: fill the other holes with their defaults, hole h with Q
WithInner(p, h, q, paren) ==
  LET inner == IF paren THEN <<"(">> \o q \o <<")">> ELSE q
      defs == [k \in DOMAIN p.defs |-> IF k = h THEN inner ELSE p.defs[k]]
  IN FillFrom(p.toks, defs, Len(p.defs))
Depth1 == \A i \in DOMAIN Items : PrintT(ToJson([cls |-> "expr1", outer |-> Items[i].name, hole |-> 0, inner |-> "", paren |-> FALSE, toks |-> Items[i].toks]))
Depth2 == \A pi \in DOMAIN Prods : \A h \in DOMAIN Prods[pi].defs : \A qi \in DOMAIN Items : \A paren \in BOOLEAN :
            PrintT(ToJson([cls |-> "expr2", outer |-> Prods[pi].name, hole |-> h, inner |-> Items[qi].name, paren |-> paren,
                           toks |-> WithInner(Prods[pi], h, Items[qi].toks, paren)]))
\* long chains: one binary operator applied ChainLen times to operands of unknown type (n.p1 op n.p2 op ...): what a
\* translator's type inference and an emitter's precedence logic walk level by level
ChainLen == 40
RECURSIVE ChainToks(_, _)
ChainToks(op, k) == IF k = 1 THEN <<"n", ".", "p1">> ELSE ChainToks(op, k - 1) \o op \o <<"n", ".", "p" \o ToString(k)>>
ChainOps == {<<"+">>, <<"-">>, <<"*">>, <<"/">>, <<"%">>, <<"^">>, <<"and">>, <<"or">>, <<"xor">>, <<"=">>, <<"<">>, <<"in">>, <<"starts", "with">>, <<"contains">>}
Chains == \A op \in ChainOps : \A k \in {12, ChainLen} :
            PrintT(ToJson([cls |-> "chain", outer |-> op[1], hole |-> k, inner |-> "", paren |-> FALSE, toks |-> ChainToks(op, k)]))
ASSUME Depth1 /\ Depth2 /\ Chains
VARIABLE x
Spec == x = 0 /\ [][x' = x]_x
=============================================================================

---------------------------- MODULE ReadOnlyGate ----------------------------
(* C09: the default parse context admits read-only queries only.                                                      *)
(* M-spec of the filter dispatch in cypher/frontend/context.go: the parse tree is walked; on entering ANY rule every    *)
(* registered filter is offered the rule before the visitor; a filter that recognises its rule appends an error; the    *)
(* parse returns an error iff the error list is non-empty.  The default context registers filters for the rules          *)
(* UpdatingClause, ExplicitProcedureInvocation, ImplicitProcedureInvocation and Parameter.                               *)
(* The derivation is abstracted to the sequence of clause kinds of a query (Cypher.g4: oC_MultiPartQuery /                *)
(* oC_SinglePartQuery: (reading* updating* WITH)* reading* (RETURN | updating+ RETURN?)), each clause possibly carrying   *)
(* a $parameter, and the three CALL forms.  The generator enumerates every well-formed skeleton up to MaxLen clauses and  *)
(* computes the expected verdict.                                                                                        *)
EXTENDS Integers, Sequences, FiniteSets, TLC, Json
CONSTANTS MaxLen
Reading == {"match", "optmatch", "unwind", "call_yield"}
Updating == {"create", "merge", "merge_on_create", "set", "remove", "delete", "detach_delete", "foreach_set", "foreach_create", "create_unique"}
Projection == {"with", "return"}
Standalone == {"call_explicit", "call_implicit", "call_explicit_yield"}
\* which grammar rules the walk of a clause kind enters (only the ones filters care about)
Rules(k, param) == (IF k \in Updating THEN {"UpdatingClause"} ELSE {})
                   \cup (IF k \in {"call_yield", "call_explicit", "call_explicit_yield"} THEN {"ExplicitProcedureInvocation"} ELSE {})
                   \cup (IF k = "call_implicit" THEN {"ImplicitProcedureInvocation"} ELSE {})
                   \cup (IF param THEN {"Parameter"} ELSE {})
Filtered == {"UpdatingClause", "ExplicitProcedureInvocation", "ImplicitProcedureInvocation", "Parameter"}
VARIABLES q,        \* sequence of [k |-> clause kind, p |-> carries a $parameter]
          st,       \* grammar state of the skeleton: "reading" | "updating" | "final_updating" | "done"
          emitted,
          \* the listener machine, run over the finished skeleton
          pos, errors
vars == <<q, st, emitted, pos, errors>>
Init == q = <<>> /\ st = "reading" /\ emitted = FALSE /\ pos = 0 /\ errors = 0
Add(k, p) == q' = Append(q, [k |-> k, p |-> p]) /\ UNCHANGED <<emitted, pos, errors>>
\* parameters can sit in a reading clause (WHERE / map property / UNWIND list), in SKIP/LIMIT of a projection, in updating clauses
Grow == /\ Len(q) < MaxLen /\ st # "done" /\ pos = 0
        /\ \E p \in BOOLEAN :
             \/ st = "reading" /\ \E k \in Reading : Add(k, p) /\ st' = "reading"
             \/ st \in {"reading", "updating"} /\ \E k \in Updating : Add(k, p) /\ st' = "updating"
             \/ st \in {"reading", "updating"} /\ q # <<>> /\ Add("with", p) /\ st' = "reading"
             \/ st \in {"reading", "updating"} /\ Add("return", p) /\ st' = "done"
StandaloneCall == /\ q = <<>> /\ pos = 0 /\ \E k \in Standalone : Add(k, FALSE) /\ st' = "done"
\* an updating tail without RETURN is a complete query as well
Complete == st = "done" \/ (st = "updating")
\* ---- the listener machine: walk the clauses, offer every entered rule to every filter
Walk == /\ Complete /\ pos < Len(q) /\ pos' = pos + 1
        /\ errors' = errors + Cardinality(Rules(q[pos + 1].k, q[pos + 1].p) \cap Filtered)
        /\ UNCHANGED <<q, st, emitted>>
Forbidden == \E i \in 1..Len(q) : Rules(q[i].k, q[i].p) # {}
Accepted == errors = 0
Emit == /\ Complete /\ q # <<>> /\ pos = Len(q) /\ ~emitted
        /\ PrintT(ToJson([clauses |-> q, forbidden |-> Forbidden, accepted |-> Accepted]))
        /\ emitted' = TRUE /\ UNCHANGED <<q, st, pos, errors>>
Next == Grow \/ StandaloneCall \/ Walk \/ Emit
Spec == Init /\ [][Next]_vars
\* the statement, on the mechanism model: accepted => no forbidden construct anywhere
GateSound == (Complete /\ pos = Len(q) /\ q # <<>>) => (Accepted => ~Forbidden)
\* and the gate is not vacuous: read-only skeletons are accepted
GateNotVacuous == (Complete /\ pos = Len(q) /\ q # <<>>) => (~Forbidden => Accepted)
=============================================================================

-------------------------------- MODULE IdSet --------------------------------
(* P-spec for C13: an exact ID-set provider IS a mathematical set.  Objects A, B (and C, the   *)
(* most recent clone) hold subsets of an abstract universe U; which implementation stands       *)
(* behind an object (32/64-bit bitmap, thread-safe wrapper) and which integers stand for the    *)
(* abstract elements is the harness's business - the meaning must not depend on it.             *)
EXTENDS Integers, FiniteSets, TLC
CONSTANTS U
VARIABLES sets        \* object name -> SUBSET U   (DOMAIN = live objects)
Objs == DOMAIN sets

\* each operator gives the post-state; Result* give what the call must return
AfterAdd(o, S) == [sets EXCEPT ![o] = @ \cup S]
AfterRemove(o, x) == [sets EXCEPT ![o] = @ \ {x}]
AfterClear(o) == [sets EXCEPT ![o] = {}]
AfterClone(o) == [n \in DOMAIN sets \cup {"C"} |-> IF n = "C" THEN sets[o] ELSE sets[n]]
AfterOr(o, p) == [sets EXCEPT ![o] = @ \cup sets[p]]
AfterAnd(o, p) == [sets EXCEPT ![o] = @ \cap sets[p]]
AfterAndNot(o, p) == [sets EXCEPT ![o] = @ \ sets[p]]
AfterXor(o, p) == [sets EXCEPT ![o] = (@ \ sets[p]) \cup (sets[p] \ @)]
ResultCheckedAdd(o, x) == x \notin sets[o]
ResultContains(o, x) == x \in sets[o]
ResultCardinality(o) == Cardinality(sets[o])
=============================================================================

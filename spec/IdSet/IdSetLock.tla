------------------------------ MODULE IdSetLock ------------------------------
(* M-spec of cardinality/lock.go: thread-safe wrappers, one mutex per object, in-place binary   *)
(* operations whose operand is another wrapper.                                                  *)
(*   Ordered = FALSE: the pinned code.  The receiver's lock is held for the whole call; the      *)
(*     operand is read through its own locked methods: Or/Xor take the operand's lock once       *)
(*     (Each), And/AndNot once per element (Contains).  Two findings: a.Or(b) || b.Or(a)         *)
(*     deadlocks (ABBA), and And/AndNot read the operand non-atomically.                         *)
(*   Ordered = TRUE: the repaired code.  Both locks are taken up front in a global order and     *)
(*     the operation runs on the two inner providers.                                            *)
(* Clients run one operation each.  cand[c] collects, at every state during a binary operation,  *)
(* the result the P-spec would give if the operation took effect right then; atomicity = the     *)
(* final content of the receiver is one of them.                                                 *)
EXTENDS Integers, Sequences, FiniteSets, TLC
CONSTANTS U, Objs, Clients, Ordered, Pairs    \* Pairs: allowed <<receiver, operand>> pairs
NIL == "nil"
AllPairs == {<<"A", "B">>, <<"B", "A">>}
OneWay == {<<"A", "B">>}
VARIABLES sets, holder, pc, op, todo, o0, cand, okAtomic
vars == <<sets, holder, pc, op, todo, o0, cand, okAtomic>>
OpSet == [t : {"add", "remove"}, o : Objs, p : {NIL}, x : U]
         \cup {[t |-> tt, o |-> pr[1], p |-> pr[2], x |-> 0] : tt \in {"or", "and"}, pr \in Pairs}
Rank(o) == CASE o = "A" -> 1 [] o = "B" -> 2 [] OTHER -> 3      \* global lock order (the code uses the mutex address)
First(a, b) == IF Rank(a) < Rank(b) THEN a ELSE b
Second(a, b) == IF Rank(a) < Rank(b) THEN b ELSE a
Expected(c) == IF op[c].t = "or" THEN o0[c] \cup sets[op[c].p] ELSE o0[c] \cap sets[op[c].p]
Init == /\ sets \in [Objs -> SUBSET U] /\ holder = [o \in Objs |-> NIL]
        /\ pc = [c \in Clients |-> "start"] /\ op \in [Clients -> OpSet]
        /\ todo = [c \in Clients |-> {}] /\ o0 = [c \in Clients |-> {}] /\ cand = [c \in Clients |-> {}]
        /\ okAtomic = TRUE
InBinary(c) == op[c].t \in {"or", "and"} /\ pc[c] \in {"haveRecv", "iter", "haveOperand", "inContains", "haveBoth"}
\* every step also refreshes the candidate sets of the binary operations in flight
Track == cand' = [c \in Clients |-> IF InBinary(c) /\ pc'[c] # "done" THEN cand[c] \cup {Expected(c)}' ELSE cand[c]]
Acquire(c, o) == holder[o] = NIL /\ holder' = [holder EXCEPT ![o] = c]
Release(S) == holder' = [o \in Objs |-> IF o \in S THEN NIL ELSE holder[o]]

\* ---- unary operations: lock, apply, unlock (one step each is enough: nothing interleaves inside the lock)
Unary(c) == /\ pc[c] = "start" /\ op[c].t \in {"add", "remove"} /\ holder[op[c].o] = NIL
            /\ sets' = [sets EXCEPT ![op[c].o] = IF op[c].t = "add" THEN @ \cup {op[c].x} ELSE @ \ {op[c].x}]
            /\ pc' = [pc EXCEPT ![c] = "done"] /\ UNCHANGED <<holder, op, todo, o0, okAtomic>> /\ Track
\* ---- binary operations, pinned protocol
LockRecv(c) == /\ ~Ordered /\ pc[c] = "start" /\ op[c].t \in {"or", "and"} /\ Acquire(c, op[c].o)
               /\ o0' = [o0 EXCEPT ![c] = sets[op[c].o]] /\ todo' = [todo EXCEPT ![c] = sets[op[c].o]]
               /\ pc' = [pc EXCEPT ![c] = "haveRecv"] /\ UNCHANGED <<sets, op, okAtomic>> /\ Track
OrLockOperand(c) == /\ ~Ordered /\ pc[c] = "haveRecv" /\ op[c].t = "or" /\ Acquire(c, op[c].p)
                    /\ sets' = [sets EXCEPT ![op[c].o] = @ \cup sets[op[c].p]]     \* Each(...Add) under the operand's lock
                    /\ pc' = [pc EXCEPT ![c] = "haveOperand"] /\ UNCHANGED <<op, todo, o0, okAtomic>> /\ Track
OrUnlock(c) == /\ ~Ordered /\ pc[c] = "haveOperand" /\ Release({op[c].o, op[c].p})
               /\ okAtomic' = (okAtomic /\ sets[op[c].o] \in cand[c])
               /\ pc' = [pc EXCEPT ![c] = "done"] /\ UNCHANGED <<sets, op, todo, o0>> /\ Track
AndContains(c) == /\ ~Ordered /\ pc[c] = "haveRecv" /\ op[c].t = "and" /\ todo[c] # {}
                  /\ holder[op[c].p] = NIL                                           \* operand.Contains(e): lock, test, unlock
                  /\ \E e \in todo[c] : /\ \A f \in todo[c] : e <= f
                                        /\ todo' = [todo EXCEPT ![c] = @ \ {e}]
                                        /\ sets' = IF e \in sets[op[c].p] THEN sets ELSE [sets EXCEPT ![op[c].o] = @ \ {e}]
                  /\ UNCHANGED <<holder, pc, op, o0, okAtomic>> /\ Track
AndUnlock(c) == /\ ~Ordered /\ pc[c] = "haveRecv" /\ op[c].t = "and" /\ todo[c] = {} /\ Release({op[c].o})
                /\ okAtomic' = (okAtomic /\ sets[op[c].o] \in cand[c])
                /\ pc' = [pc EXCEPT ![c] = "done"] /\ UNCHANGED <<sets, op, todo, o0>> /\ Track
\* ---- binary operations, repaired protocol: both locks in global order, then the inner operation
LockFirst(c) == /\ Ordered /\ pc[c] = "start" /\ op[c].t \in {"or", "and"} /\ Acquire(c, First(op[c].o, op[c].p))
                /\ pc' = [pc EXCEPT ![c] = "haveFirst"] /\ UNCHANGED <<sets, op, todo, o0, okAtomic>> /\ Track
LockSecond(c) == /\ Ordered /\ pc[c] = "haveFirst" /\ Acquire(c, Second(op[c].o, op[c].p))
                 /\ o0' = [o0 EXCEPT ![c] = sets[op[c].o]]
                 /\ pc' = [pc EXCEPT ![c] = "haveBoth"] /\ UNCHANGED <<sets, op, todo, okAtomic>> /\ Track
Apply(c) == /\ Ordered /\ pc[c] = "haveBoth" /\ cand[c] # {}
            /\ sets' = [sets EXCEPT ![op[c].o] = Expected(c)]
            /\ Release({op[c].o, op[c].p})
            /\ okAtomic' = (okAtomic /\ Expected(c) \in cand[c])
            /\ pc' = [pc EXCEPT ![c] = "done"] /\ UNCHANGED <<op, todo, o0>> /\ Track
\* (a stuttering step at haveBoth so that cand is sampled at least once while both locks are held)
Sample(c) == /\ Ordered /\ pc[c] = "haveBoth" /\ cand[c] = {}
             /\ cand' = [cand EXCEPT ![c] = {Expected(c)}] /\ UNCHANGED <<sets, holder, pc, op, todo, o0, okAtomic>>
CNext(c) == Unary(c) \/ LockRecv(c) \/ OrLockOperand(c) \/ OrUnlock(c) \/ AndContains(c) \/ AndUnlock(c)
            \/ LockFirst(c) \/ LockSecond(c) \/ Apply(c) \/ Sample(c)
AllDone == \A c \in Clients : pc[c] = "done"
Next == (\E c \in Clients : CNext(c)) \/ (AllDone /\ UNCHANGED vars)
Spec == Init /\ [][Next]_vars
NoDeadlock == AllDone \/ \E c \in Clients : ENABLED CNext(c)
Atomic == okAtomic
MutexOK == \A c \in Clients : pc[c] \in {"haveRecv", "haveOperand", "haveBoth"} => holder[op[c].o] = c
=============================================================================

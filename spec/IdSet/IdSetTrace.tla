----------------------------- MODULE IdSetTrace -----------------------------
(* Trace validation of ID-set histories recorded from the real providers.  Each event carries  *)
(* the call, its result, and the content of every live object read back through Slice()        *)
(* (abstract element names; -1 = an integer outside the embedding; dup = a duplicate was seen). *)
EXTENDS IdSet, Sequences, Json
VARIABLE l
TraceLog == ndJsonDeserialize("trace.ndjson")
Ev == TraceLog[l]
tvars == <<sets, l>>
ToSet(s) == {s[i] : i \in DOMAIN s}
Obs == [n \in DOMAIN Ev.st |-> ToSet(Ev.st[n].xs)]
Clean == \A n \in DOMAIN Ev.st : ~Ev.st[n].dup /\ Ev.st[n].card = Cardinality(ToSet(Ev.st[n].xs))
TInit == sets = <<>> /\ l = 1 /\ TLCSet(1, 0)
TLoad == Ev.e = "load" /\ ~Ev.panic /\ Clean /\ sets' = Obs
         /\ sets' = [n \in {"A", "B"} |-> IF n = "A" THEN ToSet(Ev.a) ELSE ToSet(Ev.b)]
TOp == /\ Ev.e = "op" /\ ~Ev.panic /\ Clean /\ sets' = Obs
       /\ LET o == Ev.o  p == Ev.p  x == Ev.x IN
          CASE Ev.op = "add" -> sets' = AfterAdd(o, ToSet(Ev.xs))
            [] Ev.op = "cadd" -> sets' = AfterAdd(o, {x}) /\ Ev.rb = ResultCheckedAdd(o, x)
            [] Ev.op = "remove" -> sets' = AfterRemove(o, x)
            [] Ev.op = "contains" -> sets' = sets /\ Ev.rb = ResultContains(o, x)
            [] Ev.op = "card" -> sets' = sets /\ Ev.rn = ResultCardinality(o)
            [] Ev.op \in {"slice", "each"} -> sets' = sets /\ ~Ev.rdup /\ ToSet(Ev.rs) = sets[o]
            [] Ev.op = "each1" -> /\ sets' = sets /\ ToSet(Ev.rs) \subseteq sets[o]
                                  /\ Len(Ev.rs) = (IF sets[o] = {} THEN 0 ELSE 1)
            [] Ev.op = "clear" -> sets' = AfterClear(o)
            [] Ev.op = "clone" -> sets' = AfterClone(o)
            [] Ev.op = "or" -> sets' = AfterOr(o, p)
            [] Ev.op = "and" -> sets' = AfterAnd(o, p)
            [] Ev.op = "andnot" -> sets' = AfterAndNot(o, p)
            [] Ev.op = "xor" -> sets' = AfterXor(o, p)
TNext == l <= Len(TraceLog) /\ (TLoad \/ TOp) /\ l' = l + 1
TSpec == TInit /\ [][TNext]_tvars
HW == TLCSet(1, IF l > TLCGet(1) THEN l ELSE TLCGet(1))
Accepted == IF TLCGet(1) = Len(TraceLog) + 1 THEN TRUE ELSE PrintT(<<"STUCK_AT_LINE", TLCGet(1)>>) /\ FALSE
=============================================================================

SPECIFICATION GSpec
CONSTANTS
  U = {0, 1, 2}
  MultiAdd <- Mc02
  Depth = 1
CHECK_DEADLOCK FALSE

------------------------------ MODULE IdSetLin ------------------------------
(* Linearizability of concurrent histories on thread-safe ID sets, by trace validation against *)
(* the set-algebra P-spec.  Events: reset{a,b}, inv{t,op,o,p,x,xs}, resp{t,rb,rn,rs,panic},     *)
(* quiesce{st}.  Between inv and resp TLC places one silent step that applies the P-spec        *)
(* operation and records its result; resp must agree.                                           *)
EXTENDS IdSet, Sequences, Json
VARIABLES pend, l
TraceLog == ndJsonDeserialize("trace.ndjson")
Ev == TraceLog[l]
lvars == <<sets, pend, l>>
ToSet(s) == {s[i] : i \in DOMAIN s}
LInit == sets = <<>> /\ pend = <<>> /\ l = 1 /\ TLCSet(1, 0)
LReset == /\ Ev.e = "reset" /\ pend = <<>> /\ UNCHANGED pend
          /\ sets' = [n \in {"A", "B"} |-> IF n = "A" THEN ToSet(Ev.a) ELSE ToSet(Ev.b)]
LInv == /\ Ev.e = "inv" /\ Ev.t \notin DOMAIN pend
        /\ pend' = [t \in DOMAIN pend \cup {Ev.t} |->
                      IF t = Ev.t THEN [op |-> Ev.op, o |-> Ev.o, p |-> Ev.p, x |-> Ev.x, xs |-> ToSet(Ev.xs),
                                        st |-> "called", rb |-> FALSE, rn |-> 0, rs |-> {}] ELSE pend[t]]
        /\ UNCHANGED sets
Lin(t) ==
  /\ t \in DOMAIN pend /\ pend[t].st = "called"
  /\ LET q == pend[t]  o == q.o  p == q.p  x == q.x
         Done(rb, rn, rs) == pend' = [pend EXCEPT ![t].st = "done", ![t].rb = rb, ![t].rn = rn, ![t].rs = rs]
     IN CASE q.op = "add" -> sets' = AfterAdd(o, q.xs) /\ Done(FALSE, 0, {})
          [] q.op = "cadd" -> sets' = AfterAdd(o, {x}) /\ Done(ResultCheckedAdd(o, x), 0, {})
          [] q.op = "remove" -> sets' = AfterRemove(o, x) /\ Done(FALSE, 0, {})
          [] q.op = "contains" -> UNCHANGED sets /\ Done(ResultContains(o, x), 0, {})
          [] q.op = "card" -> UNCHANGED sets /\ Done(FALSE, ResultCardinality(o), {})
          [] q.op = "slice" -> UNCHANGED sets /\ Done(FALSE, 0, sets[o])
          [] q.op = "clear" -> sets' = AfterClear(o) /\ Done(FALSE, 0, {})
          [] q.op = "or" -> sets' = AfterOr(o, p) /\ Done(FALSE, 0, {})
          [] q.op = "and" -> sets' = AfterAnd(o, p) /\ Done(FALSE, 0, {})
          [] q.op = "andnot" -> sets' = AfterAndNot(o, p) /\ Done(FALSE, 0, {})
          [] q.op = "xor" -> sets' = AfterXor(o, p) /\ Done(FALSE, 0, {})
  /\ UNCHANGED l
LResp == /\ Ev.e = "resp" /\ ~Ev.panic /\ Ev.t \in DOMAIN pend /\ pend[Ev.t].st = "done"
         /\ LET q == pend[Ev.t] IN
              /\ q.op \in {"cadd", "contains"} => q.rb = Ev.rb
              /\ q.op = "card" => q.rn = Ev.rn
              /\ q.op = "slice" => (q.rs = ToSet(Ev.rs) /\ ~Ev.rdup)
         /\ pend' = [t \in DOMAIN pend \ {Ev.t} |-> pend[t]]
         /\ UNCHANGED sets
LQuiesce == /\ Ev.e = "quiesce" /\ pend = <<>> /\ UNCHANGED <<sets, pend>>
            /\ \A n \in DOMAIN sets : ToSet(Ev.st[n].xs) = sets[n] /\ ~Ev.st[n].dup /\ Ev.st[n].card = Cardinality(sets[n])
LNext == \/ l <= Len(TraceLog) /\ (LReset \/ LInv \/ LResp \/ LQuiesce) /\ l' = l + 1
         \/ \E t \in DOMAIN pend : Lin(t)
LSpec == LInit /\ [][LNext]_lvars
HW == TLCSet(1, IF l > TLCGet(1) THEN l ELSE TLCGet(1))
Accepted == IF TLCGet(1) = Len(TraceLog) + 1 THEN TRUE ELSE PrintT(<<"STUCK_AT_LINE", TLCGet(1)>>) /\ FALSE
=============================================================================

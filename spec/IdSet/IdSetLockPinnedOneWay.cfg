SPECIFICATION Spec
CONSTANTS
  U = {0, 1}
  Objs = {"A", "B"}
  Clients = {"c1", "c2", "c3"}
  Ordered = FALSE
  Pairs <- OneWay
INVARIANTS NoDeadlock MutexOK
CHECK_DEADLOCK FALSE

SPECIFICATION TSpec
CONSTANTS U = {0, 1, 2, 3, 4}
CONSTRAINT HW
POSTCONDITION Accepted
CHECK_DEADLOCK FALSE

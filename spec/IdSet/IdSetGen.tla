------------------------------ MODULE IdSetGen ------------------------------
(* History generator for the ID-set area: every initial content of A and B, every operation    *)
(* sequence up to Depth.  Binary operations always have operand # receiver.                     *)
EXTENDS IdSet, Sequences, Json, SequencesExt
CONSTANTS Depth, MultiAdd
VARIABLES hist, init, emitted
Mc02 == {0, 2}
Mc024 == {0, 2, 4}
gvars == <<sets, hist, init, emitted>>
Op(name, o, p, x, S) == [op |-> name, o |-> o, p |-> p, x |-> x, xs |-> SetToSeq(S)]
GInit == /\ \E a \in SUBSET U, b \in SUBSET U : sets = [n \in {"A", "B"} |-> IF n = "A" THEN a ELSE b]
         /\ init = sets /\ hist = <<>> /\ emitted = FALSE
Rec(o) == hist' = Append(hist, o) /\ UNCHANGED <<init, emitted>>
GStep ==
  /\ Len(hist) < Depth
  /\ \E o \in Objs :
       \/ \E x \in U : sets' = AfterAdd(o, {x}) /\ Rec(Op("add", o, "", -1, {x}))
       \/ sets' = AfterAdd(o, MultiAdd) /\ Rec(Op("add", o, "", -1, MultiAdd))
       \/ \E x \in U : sets' = AfterAdd(o, {x}) /\ Rec(Op("cadd", o, "", x, {}))
       \/ \E x \in U : sets' = AfterRemove(o, x) /\ Rec(Op("remove", o, "", x, {}))
       \/ \E x \in U : UNCHANGED sets /\ Rec(Op("contains", o, "", x, {}))
       \/ UNCHANGED sets /\ Rec(Op("card", o, "", -1, {}))
       \/ UNCHANGED sets /\ Rec(Op("slice", o, "", -1, {}))
       \/ UNCHANGED sets /\ Rec(Op("each", o, "", -1, {}))
       \/ UNCHANGED sets /\ Rec(Op("each1", o, "", -1, {}))
       \/ sets' = AfterClear(o) /\ Rec(Op("clear", o, "", -1, {}))
       \/ sets' = AfterClone(o) /\ Rec(Op("clone", o, "", -1, {}))
       \/ \E p \in Objs \ {o} :
            \/ sets' = AfterOr(o, p) /\ Rec(Op("or", o, p, -1, {}))
            \/ sets' = AfterAnd(o, p) /\ Rec(Op("and", o, p, -1, {}))
            \/ sets' = AfterAndNot(o, p) /\ Rec(Op("andnot", o, p, -1, {}))
            \/ sets' = AfterXor(o, p) /\ Rec(Op("xor", o, p, -1, {}))
GEmit == /\ Len(hist) = Depth /\ ~emitted
         /\ PrintT(ToJson([a |-> SetToSeq(init["A"]), b |-> SetToSeq(init["B"]), ops |-> hist]))
         /\ emitted' = TRUE /\ UNCHANGED <<sets, hist, init>>
GNext == GStep \/ GEmit
GSpec == GInit /\ [][GNext]_gvars
=============================================================================

------------------------------ MODULE Hygiene ------------------------------
(* M-spec of name handling in the Cypher -> SQL translator (cypher/models/pgsql/translate/tracking.go):        *)
(* Scope.aliases maps a user symbol to the generated identifier it was bound to (n0, n1, ... for variables,     *)
(* pi0, ... for parameters), Scope.definitions maps generated identifiers to bindings, and several call sites   *)
(* look a name up "raw first, alias second" (LookupDataType, function.go:319, path_functions.go:109, ...).      *)
(* A program is a sequence of operations on NVars variable symbols and NParams parameter symbols:               *)
(*   DefVar(i) first use of variable i (binds it), RefVar(i), RefParam(j) (binds on first use), TypeOf(i)       *)
(* Two translators run in lockstep on the same program: one under the user's naming (vname, pname - any         *)
(* injective choice from Pool, including names equal across the two namespaces and names that look like         *)
(* generated identifiers), one under a canonical naming (all names distinct and outside the generated space).   *)
(* Hygienic: both produce the same sequence of resolved identifiers and neither faults.                         *)
(*   ParamNamespace   TRUE: parameters have an alias table of their own (as repaired, 9abd567)                  *)
(*                    FALSE: pinned behaviour, one table for both                                               *)
(*   RawFirst         TRUE: TypeOf looks the user symbol up among the generated identifiers first (the code),   *)
(*                    FALSE: alias table only                                                                   *)
EXTENDS Integers, Sequences, FiniteSets, TLC
CONSTANTS NVars, NParams, Pool, MaxOps, ParamNamespace, RawFirst
VARIABLES vname, pname, ops, tu, tc
vars == <<vname, pname, ops, tu, tc>>
Vars == 1..NVars
Params == 1..NParams
\* canonical names: distinct, and no generated identifier looks like them
Gen(prefix, k) == <<"gen", prefix, k>>                \* generated identifiers
\* a user name n "looks like" generated identifier g: Pool members are strings such as "n0", "pi0"
Looks(n, g) == (n = "n0" /\ g = Gen("n", 0)) \/ (n = "n1" /\ g = Gen("n", 1)) \/ (n = "pi0" /\ g = Gen("pi", 0))
EmptyT == [al |-> <<>>, pal |-> <<>>, defs |-> {}, nc |-> 0, pc |-> 0, out |-> <<>>, fault |-> "none"]
Injective(f) == \A a, b \in DOMAIN f : f[a] = f[b] => a = b
Init == /\ vname \in {f \in [Vars -> Pool] : Injective(f)}
        /\ pname \in {f \in [Params -> Pool] : Injective(f)}
        /\ ops = <<>> /\ tu = EmptyT /\ tc = EmptyT
\* alias tables are sequences of <<name, id>>, last write wins
Find(tab, n) == LET hits == {k \in DOMAIN tab : tab[k][1] = n} IN
                IF hits = {} THEN <<"none">> ELSE tab[CHOOSE k \in hits : \A m \in hits : m <= k][2]
Put(tab, n, id) == Append(tab, <<n, id>>)
IsParam(id) == id[2] = "pi"
DefVar(t, n) == LET id == Gen("n", t.nc) IN
                [t EXCEPT !.nc = @ + 1, !.defs = @ \cup {id}, !.al = Put(@, n, id), !.out = Append(@, <<"def", id>>)]
RefVar(t, n) == LET id == Find(t.al, n) IN
                IF id = <<"none">> THEN [t EXCEPT !.fault = "unresolved"] ELSE [t EXCEPT !.out = Append(@, <<"var", id>>)]
RefParam(t, n) == LET tab == IF ParamNamespace THEN t.pal ELSE t.al
                      id == Find(tab, n) IN
                  IF id # <<"none">>
                  THEN IF IsParam(id) THEN [t EXCEPT !.out = Append(@, <<"param", id>>)]
                       ELSE [t EXCEPT !.fault = "nil-parameter"]               \* binding.Parameter is nil: the panic
                  ELSE LET nid == Gen("pi", t.pc) IN
                       IF ParamNamespace THEN [t EXCEPT !.pc = @ + 1, !.defs = @ \cup {nid}, !.pal = Put(@, n, nid), !.out = Append(@, <<"param", nid>>)]
                       ELSE [t EXCEPT !.pc = @ + 1, !.defs = @ \cup {nid}, !.al = Put(@, n, nid), !.out = Append(@, <<"param", nid>>)]
TypeOf(t, n) == LET raw == {g \in t.defs : RawFirst /\ Looks(n, g)}
                    id == IF raw # {} THEN CHOOSE g \in raw : TRUE ELSE Find(t.al, n) IN
                IF id = <<"none">> THEN [t EXCEPT !.fault = "unresolved"] ELSE [t EXCEPT !.out = Append(@, <<"type", id>>)]
Defined(i) == \E k \in DOMAIN ops : ops[k] = <<"defvar", i>>
Apply(op, t, vn, pn) == CASE op[1] = "defvar" -> DefVar(t, vn[op[2]])
                          [] op[1] = "refvar" -> RefVar(t, vn[op[2]])
                          [] op[1] = "refparam" -> RefParam(t, pn[op[2]])
                          [] op[1] = "typeof" -> TypeOf(t, vn[op[2]])
CanonV == [i \in Vars |-> <<"cv1", "cv2", "cv3", "cv4">>[i]]
CanonP == [j \in Params |-> <<"cp1", "cp2", "cp3", "cp4">>[j]]
Step(op) == /\ Len(ops) < MaxOps /\ tu.fault = "none" /\ tc.fault = "none"
            /\ ops' = Append(ops, op)
            /\ tu' = Apply(op, tu, vname, pname)
            /\ tc' = Apply(op, tc, CanonV, CanonP)
            /\ UNCHANGED <<vname, pname>>
Next == \/ \E i \in Vars : ~Defined(i) /\ Step(<<"defvar", i>>)
        \/ \E i \in Vars : Defined(i) /\ (Step(<<"refvar", i>>) \/ Step(<<"typeof", i>>))
        \/ \E j \in Params : Step(<<"refparam", j>>)
Spec == Init /\ [][Next]_vars
Hygienic == tu.fault = "none" /\ tc.fault = "none" /\ tu.out = tc.out
=============================================================================

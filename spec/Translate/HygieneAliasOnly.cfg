SPECIFICATION Spec
CONSTANTS
  NVars = 2
  NParams = 2
  Pool = {"a", "n0", "n1", "pi0"}
  MaxOps = 5
  ParamNamespace = TRUE
  RawFirst = FALSE
INVARIANT Hygienic
CHECK_DEADLOCK FALSE

SPECIFICATION Spec
CONSTANTS
  NVars = 2
  NParams = 2
  Pool = {"a", "b", "c"}
  MaxOps = 5
  ParamNamespace = TRUE
  RawFirst = TRUE
INVARIANT Hygienic
CHECK_DEADLOCK FALSE

SPECIFICATION Spec
CONSTANTS
  VarPool = {"n0", "n1", "n2", "e0", "e1", "s0", "s1", "s2", "i0", "pi0", "pc0", "ep0", "ex0", "path", "depth", "root_id", "next_id", "satisfied", "is_cycle", "id", "kind_ids", "properties", "start_id", "end_id", "kind_id", "graph_id", "node", "edge", "kind", "graph", "select", "from", "a"}
  PairPool = {"n0", "n1", "e0", "s0", "s1", "i0", "path"}
  ParamPool = {"#v0", "#v1", "#v2", "n0", "pi0", "pi1", "s0", "a"}

----------------------------- MODULE HygieneGen -----------------------------
(* Renaming patterns for the binding to the real translator: which new name the i-th variable symbol and the    *)
(* j-th parameter symbol of a query get ("" = a fresh unique name, "#v<i>" = the name given to variable i, i.e. *)
(* a collision across the two namespaces).  Every pattern puts at most two adversarial names on the first       *)
(* three variable positions and at most one on the first two parameter positions; names come from the           *)
(* generated-identifier space, from the column / table names the emitted SQL uses, and from plain names.        *)
EXTENDS Integers, Sequences, FiniteSets, TLC, Json
CONSTANTS VarPool, PairPool, ParamPool
Fresh == ""
VarPatterns == {<<>>}
   \cup {[i \in 1..3 |-> IF i = p THEN n ELSE Fresh] : p \in 1..3, n \in VarPool}
   \cup {[i \in 1..3 |-> IF i = p THEN a ELSE IF i = q THEN b ELSE Fresh] : p \in 1..3, q \in 1..3, a \in PairPool, b \in PairPool}
GoodVar(v) == \A i, j \in DOMAIN v : (i # j /\ v[i] # Fresh) => v[i] # v[j]
ParamPatterns == {<<>>} \cup {[j \in 1..2 |-> IF j = p THEN n ELSE Fresh] : p \in 1..2, n \in ParamPool}
Patterns == {[vars |-> v, params |-> p] : v \in {x \in VarPatterns : GoodVar(x)}, p \in ParamPatterns}
ASSUME \A pat \in Patterns : PrintT(ToJson(pat))
VARIABLE x
Spec == x = 0 /\ [][x' = x]_x
=============================================================================

------------------------------ MODULE TransTrace ------------------------------
(* P-spec monitors for the translator (C05, C06), over records the harness writes per query:                    *)
(*   hyg{base_ok, fresh_ok, twin_ok, panic, same_shape, same_params}                                             *)
(*        a query, its twin with every user symbol replaced by a fresh unique name, and its twin renamed by one  *)
(*        TLC-generated pattern: the pattern twin translates whenever the query does, and its SQL differs from   *)
(*        the fresh twin's only at the tokens where the fresh twin shows a user name; parameters are equal.      *)
(*   total{panic, deterministic, concurrent_same, model_unchanged, params_unchanged, ms, budget_ms}              *)
(*        the same call repeated in sequence and from 8 goroutines sharing the kind mapper.                      *)
EXTENDS Integers, Sequences, TLC, Json
VARIABLE l
TraceLog == ndJsonDeserialize("trace.ndjson")
Ev == TraceLog[l]
TInit == l = 1 /\ TLCSet(1, 0)
THyg == /\ Ev.e = "hyg"
        /\ Ev.base_ok => (Ev.fresh_ok /\ Ev.twin_ok /\ ~Ev.panic)        \* renaming never breaks a translatable query
        /\ (Ev.fresh_ok /\ Ev.twin_ok) => (Ev.same_shape /\ Ev.same_params)  \* and changes nothing but the names shown
TTotal == /\ Ev.e = "total" /\ ~Ev.panic
          /\ Ev.deterministic /\ Ev.concurrent_same
          /\ Ev.model_unchanged /\ Ev.params_unchanged
          /\ Ev.ms <= Ev.budget_ms
TNext == l <= Len(TraceLog) /\ (THyg \/ TTotal) /\ l' = l + 1
TSpec == TInit /\ [][TNext]_l
HW == TLCSet(1, IF l > TLCGet(1) THEN l ELSE TLCGet(1))
Accepted == IF TLCGet(1) = Len(TraceLog) + 1 THEN TRUE ELSE PrintT(<<"STUCK_AT_LINE", TLCGet(1)>>) /\ FALSE
=============================================================================

----------------------------- MODULE DumpCfgGen -----------------------------
(* Enumerates dump configurations: up to MaxGraphs graphs with 0..MaxNodes nodes and 0..MaxEdges  *)
(* relationships each (a graph without nodes has no relationships), shard and batch sizes 1..MaxSB. *)
(* Boundary cases fall out of the enumeration: count = shard size, last partial batch, empty phase,  *)
(* empty graph.                                                                                      *)
EXTENDS Integers, Sequences, FiniteSets, TLC, Json
CONSTANTS MaxGraphs, MaxNodes, MaxEdges, MaxSB
VARIABLES cfg, emitted
GraphChoices == {[nodes |-> n, edges |-> e] : n \in 0..MaxNodes, e \in 0..MaxEdges} \ {[nodes |-> 0, edges |-> e] : e \in 1..MaxEdges}
Seqs(k) == [1..k -> GraphChoices]
GInit == /\ emitted = FALSE
         /\ \E k \in 1..MaxGraphs : \E gs \in Seqs(k), sh \in 1..MaxSB, b \in 1..MaxSB :
               cfg = [graphs |-> [i \in 1..k |-> [name |-> IF i = 1 THEN "g0" ELSE IF i = 2 THEN "g1" ELSE "g2", nodes |-> gs[i].nodes, edges |-> gs[i].edges]],
                      shard |-> sh, batch |-> b]
GEmit == ~emitted /\ PrintT(ToJson(cfg)) /\ emitted' = TRUE /\ UNCHANGED cfg
GSpec == GInit /\ [][GEmit]_<<cfg, emitted>>
=============================================================================

--------------------------- MODULE DumpCrashTrace ---------------------------
(* Trace validation for C19.  Events: src{graphs,...} starts a scenario; run{kind,how,ok,changed,dir}  *)
(* is one execution of the real retriever.Dump (first run or resume) that either returned (ok / error)  *)
(* or was killed at a step, followed by the projection of the output directory.                         *)
EXTENDS DumpProp, Json
VARIABLES src, committed, snap, l
TraceLog == ndJsonDeserialize("trace.ndjson")
Ev == TraceLog[l]
tvars == <<src, committed, snap, l>>
TInit == src = <<>> /\ committed = <<>> /\ snap = FALSE /\ l = 1 /\ TLCSet(1, 0)
TSrc == Ev.e = "src" /\ src' = Ev.graphs /\ committed' = <<>> /\ snap' = FALSE
\* Ev.src = the source this run read.  A count-changing source change must be refused once the checkpoint holds the
\* source's entity counts (snap); before that nothing of the old source has been relied upon, and a successful resume
\* is then held to be a complete dump of the source it actually read.
TRun == /\ Ev.e = "run" /\ UNCHANGED src
        /\ ManifestMeansComplete(Ev.dir, Ev.src)
        /\ (Ev.how = "returned" /\ Ev.ok) => Equivalent(Ev.dir, Ev.src)
        \* ... and, source and options unchanged, with the manifest an uninterrupted dump writes (generation time aside)
        /\ (Ev.how = "returned" /\ Ev.ok) => Ev.manifest_same
        /\ (Ev.kind = "resume" /\ Ev.how = "returned" /\ ~Ev.ok) => Undamaged(Ev.dir, committed)
        /\ (Ev.kind = "resume" /\ Ev.how = "returned" /\ Ev.changed \in {"options", "stray"}) => ~Ev.ok
        /\ (Ev.kind = "resume" /\ Ev.how = "returned" /\ Ev.changed = "source" /\ snap) => ~Ev.ok
        /\ committed' = Recorded(Ev.dir) /\ snap' = HadSnapshot(Ev.dir)
TNext == l <= Len(TraceLog) /\ (TSrc \/ TRun) /\ l' = l + 1
TSpec == TInit /\ [][TNext]_tvars
HW == TLCSet(1, IF l > TLCGet(1) THEN l ELSE TLCGet(1))
Accepted == IF TLCGet(1) = Len(TraceLog) + 1 THEN TRUE ELSE PrintT(<<"STUCK_AT_LINE", TLCGet(1)>>) /\ FALSE
=============================================================================

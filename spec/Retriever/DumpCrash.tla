------------------------------ MODULE DumpCrash ------------------------------
(* M-spec of the dump / checkpoint / resume file protocol (retriever/dump.go, dump_checkpoint.go, *)
(* compression.go, manifest.go, scan.go).  One action per file-system step (= one verifhook point *)
(* in the code) or database fetch; Crash may strike between any two of them and loses all volatile *)
(* state; Resume is the validation the code performs before continuing.  Entities of graph g,      *)
(* phase ph are the ids 1..Graphs[g][ph] in keyset order.                                          *)
(*   RecordBeforePublish = FALSE / RefuseStray = TRUE is the code as written; the other values are *)
(*   the two mutants used as negative controls.                                                    *)
EXTENDS Integers, Sequences, FiniteSets, TLC, Json
CONSTANTS Graphs,     \* sequence of [nodes |-> n, edges |-> e]
          Shard, Batch, MaxCrash, RecordBeforePublish, RefuseStray, TrackSteps
NONE == [none |-> TRUE]
McGraphs1 == <<[nodes |-> 3, edges |-> 2]>>
McGraphs2 == <<[nodes |-> 3, edges |-> 2], [nodes |-> 1, edges |-> 0]>>
McGraphs3 == <<[nodes |-> 2, edges |-> 1], [nodes |-> 0, edges |-> 0], [nodes |-> 2, edges |-> 2]>>
NG == Len(Graphs)
VARIABLES p,        \* persistent: [frags, tmp, ck, ckTmp, man, manTmp]
          v,        \* volatile:   [pc, ret, mem, w, buf, after]
          crashes, outcome, ckAtResume, steps
vars == <<p, v, crashes, outcome, ckAtResume, steps>>
Ck0 == [done |-> <<>>, cur |-> NONE]
Cur0(g) == [g |-> g, snap |-> FALSE, phase |-> "nodes", files |-> <<>>, last |-> 0]
V0 == [pc |-> "start", ret |-> "none", mem |-> Ck0, w |-> NONE, buf |-> <<>>, after |-> "none"]
Init == /\ p = [frags |-> {}, tmp |-> NONE, ck |-> NONE, ckTmp |-> FALSE, man |-> NONE, manTmp |-> FALSE]
        /\ v = V0 /\ crashes = 0 /\ outcome = "running" /\ ckAtResume = NONE /\ steps = <<>>
Keep == UNCHANGED <<crashes, outcome, ckAtResume>>
Hook(name) == steps' = IF TrackSteps THEN Append(steps, name) ELSE steps
NoHook == UNCHANGED steps
PhaseFiles(files, ph) == SelectSeq(files, LAMBDA f : f.ph = ph)
RECURSIVE SumLen(_)
SumLen(s) == IF s = <<>> THEN 0 ELSE Len(Head(s).ids) + SumLen(Tail(s))
Total(g, ph) == IF ph = "nodes" THEN Graphs[g].nodes ELSE Graphs[g].edges
Cur == v.mem.cur
Committed == SumLen(PhaseFiles(Cur.files, Cur.phase))
InWriter == IF v.w = NONE THEN 0 ELSE Len(v.w.ids)
Processed == Committed + InWriter
Min(a, b) == IF a < b THEN a ELSE b
\* ---- checkpoint persist: temp write, rename, continue at v.ret
PersistTmp == v.pc = "ckTmp" /\ p' = [p EXCEPT !.ckTmp = TRUE] /\ v' = [v EXCEPT !.pc = "ckRen"] /\ Keep /\ Hook("ckpt.tmp.write")
PersistRen == v.pc = "ckRen" /\ p' = [p EXCEPT !.ck = v.mem, !.ckTmp = FALSE] /\ v' = [v EXCEPT !.pc = v.ret] /\ Keep /\ Hook("ckpt.rename")
Start == v.pc = "start" /\ v' = [v EXCEPT !.pc = "ckTmp", !.ret = "graph"] /\ UNCHANGED p /\ Keep /\ NoHook
\* ---- per graph
GraphStep == /\ v.pc = "graph" /\ UNCHANGED p /\ Keep /\ NoHook
             /\ IF Len(v.mem.done) = NG THEN v' = [v EXCEPT !.pc = "manTmp"]
                ELSE IF v.mem.cur = NONE THEN v' = [v EXCEPT !.mem.cur = Cur0(Len(v.mem.done) + 1), !.pc = "count"]
                ELSE v' = [v EXCEPT !.pc = "count"]
Count == /\ v.pc = "count" /\ UNCHANGED p /\ Keep /\ NoHook
         /\ IF Cur.snap THEN v' = [v EXCEPT !.pc = "phase"]
            ELSE v' = [v EXCEPT !.mem.cur.snap = TRUE, !.pc = "ckTmp", !.ret = "phase"]
PhaseStep == /\ v.pc = "phase" /\ UNCHANGED p /\ Keep /\ NoHook
             /\ v' = [v EXCEPT !.pc = IF Total(Cur.g, Cur.phase) = 0 THEN "phaseEnd" ELSE "scan", !.w = NONE, !.buf = <<>>]
\* keyset scan: fetch a batch after the cursor, then hand the records one at a time to the fragment writer
Scan == /\ v.pc = "scan" /\ Keep
        /\ IF v.buf # <<>>
             THEN /\ v' = [v EXCEPT !.pc = IF v.w = NONE THEN "open" ELSE "write"] /\ UNCHANGED p /\ NoHook
             ELSE IF Processed >= Total(Cur.g, Cur.phase)
               THEN /\ v' = [v EXCEPT !.pc = IF v.w = NONE THEN "phaseEnd" ELSE "close", !.after = "phaseEnd"] /\ UNCHANGED p /\ NoHook
               ELSE LET k == Min(Batch, Total(Cur.g, Cur.phase) - Processed)
                    IN /\ v' = [v EXCEPT !.buf = [i \in 1..k |-> Processed + i]] /\ UNCHANGED p /\ Hook("db.fetch")
Open == /\ v.pc = "open" /\ Keep /\ Hook("frag.tmp.open")
        /\ LET f == [g |-> Cur.g, ph |-> Cur.phase, sh |-> Len(PhaseFiles(Cur.files, Cur.phase)) + 1, ids |-> <<>>]
           IN p' = [p EXCEPT !.tmp = f] /\ v' = [v EXCEPT !.w = f, !.pc = "write"]
Write == /\ v.pc = "write" /\ Keep /\ Hook("frag.record")
         /\ LET f == [v.w EXCEPT !.ids = Append(@, Head(v.buf))]
            IN /\ p' = [p EXCEPT !.tmp = f]
               /\ v' = [v EXCEPT !.w = f, !.buf = Tail(v.buf), !.pc = IF Len(f.ids) >= Shard THEN "close" ELSE "scan", !.after = "scan"]
Close == v.pc = "close" /\ UNCHANGED p /\ Keep /\ Hook("frag.tmp.close")
         /\ v' = [v EXCEPT !.pc = IF RecordBeforePublish THEN "commit" ELSE "publish"]
Publish == /\ v.pc = "publish" /\ Keep /\ Hook("frag.rename")
           /\ p' = [p EXCEPT !.frags = @ \cup {p.tmp}, !.tmp = NONE]
           /\ v' = [v EXCEPT !.pc = IF RecordBeforePublish THEN "afterCommit" ELSE "commit"]
Commit == /\ v.pc = "commit" /\ UNCHANGED p /\ Keep /\ NoHook
          /\ v' = [v EXCEPT !.mem.cur.files = Append(@, v.w), !.mem.cur.last = Processed, !.pc = "ckTmp",
                            !.ret = IF RecordBeforePublish THEN "publish" ELSE "afterCommit"]
AfterCommit == v.pc = "afterCommit" /\ UNCHANGED p /\ Keep /\ NoHook /\ v' = [v EXCEPT !.w = NONE, !.pc = v.after]
PhaseEnd == /\ v.pc = "phaseEnd" /\ UNCHANGED p /\ Keep /\ NoHook
            /\ IF Cur.phase = "nodes"
                 THEN v' = [v EXCEPT !.mem.cur.phase = "edges", !.mem.cur.last = 0, !.pc = "ckTmp", !.ret = "phase"]
                 ELSE v' = [v EXCEPT !.mem.done = Append(@, [files |-> Cur.files]), !.mem.cur = NONE, !.pc = "ckTmp", !.ret = "graph"]
ManTmp == v.pc = "manTmp" /\ p' = [p EXCEPT !.manTmp = TRUE] /\ v' = [v EXCEPT !.pc = "manRen"] /\ Keep /\ Hook("manifest.tmp.write")
ManRen == v.pc = "manRen" /\ p' = [p EXCEPT !.man = [graphs |-> v.mem.done], !.manTmp = FALSE] /\ v' = [v EXCEPT !.pc = "ckRm"] /\ Keep /\ Hook("manifest.rename")
CkRm == /\ v.pc = "ckRm" /\ p' = [p EXCEPT !.ck = NONE] /\ v' = [v EXCEPT !.pc = "done"] /\ Hook("ckpt.remove")
        /\ outcome' = "ok" /\ UNCHANGED <<crashes, ckAtResume>>
\* ---- crash: any time while running
Crash == /\ v.pc \notin {"done", "crashed", "refused"} /\ crashes < MaxCrash
         /\ crashes' = crashes + 1 /\ v' = [V0 EXCEPT !.pc = "crashed"] /\ outcome' = "crashed" /\ UNCHANGED <<p, ckAtResume, steps>>
\* ---- resume: one atomic validation step, then continue
FileSet(files) == {files[i] : i \in 1..Len(files)}
Recorded(ck) == (UNION {FileSet(ck.done[i].files) : i \in 1..Len(ck.done)}) \cup (IF ck.cur = NONE THEN {} ELSE FileSet(ck.cur.files))
Resume == /\ v.pc = "crashed" /\ ckAtResume' = p.ck /\ UNCHANGED <<crashes, steps>>
          /\ IF p.man # NONE \/ p.ck = NONE
               THEN v' = [v EXCEPT !.pc = "refused"] /\ outcome' = "refused" /\ UNCHANGED p
               ELSE LET tmpKnown == /\ p.tmp # NONE /\ p.ck.cur # NONE /\ p.tmp.g = p.ck.cur.g /\ p.tmp.ph = p.ck.cur.phase
                                    /\ p.tmp.sh = Len(PhaseFiles(p.ck.cur.files, p.ck.cur.phase)) + 1
                        tmpAfter == IF tmpKnown THEN NONE ELSE p.tmp
                        missing == \E f \in Recorded(p.ck) : f \notin p.frags
                        stray == (p.frags \ Recorded(p.ck) # {}) \/ tmpAfter # NONE
                    IN /\ p' = [p EXCEPT !.ckTmp = FALSE, !.manTmp = FALSE, !.tmp = tmpAfter]
                       /\ IF missing \/ (RefuseStray /\ stray)
                            THEN v' = [v EXCEPT !.pc = "refused"] /\ outcome' = "refused"
                            ELSE v' = [V0 EXCEPT !.pc = "graph", !.mem = p.ck] /\ outcome' = "running"
\* ---- environment: a file the checkpoint does not account for appears while the dump is down
StrayFile == [g |-> 0, ph |-> "stray", sh |-> 0, ids |-> <<>>]
DropStray == /\ v.pc = "crashed" /\ StrayFile \notin p.frags /\ p' = [p EXCEPT !.frags = @ \cup {StrayFile}]
             /\ UNCHANGED <<v, crashes, outcome, ckAtResume, steps>>
Stutter == v.pc \in {"done", "refused"} /\ UNCHANGED vars
Next == PersistTmp \/ PersistRen \/ Start \/ GraphStep \/ Count \/ PhaseStep \/ Scan \/ Open \/ Write \/ Close \/ Publish
        \/ Commit \/ AfterCommit \/ PhaseEnd \/ ManTmp \/ ManRen \/ CkRm \/ Crash \/ Resume \/ DropStray \/ Stutter
Spec == Init /\ [][Next]_vars /\ WF_vars(Next)
\* ---- the statement of C19
RECURSIVE Concat(_)
Concat(s) == IF s = <<>> THEN <<>> ELSE Head(s).ids \o Concat(Tail(s))
FullGraph(files, g) == /\ Concat(PhaseFiles(files, "nodes")) = [i \in 1..Graphs[g].nodes |-> i]
                       /\ Concat(PhaseFiles(files, "edges")) = [i \in 1..Graphs[g].edges |-> i]
Full(man) == Len(man.graphs) = NG /\ \A g \in 1..NG : FullGraph(man.graphs[g].files, g)
ManFiles(man) == UNION {FileSet(man.graphs[i].files) : i \in 1..Len(man.graphs)}
ManifestMeansComplete == p.man # NONE => (Full(p.man) /\ ManFiles(p.man) \subseteq p.frags)
OkMeansEquivalent == outcome = "ok" => (p.man # NONE /\ Full(p.man) /\ ManFiles(p.man) = p.frags /\ p.ck = NONE /\ p.tmp = NONE /\ ~p.ckTmp /\ ~p.manTmp)
RefusalKeepsCommitted == (outcome = "refused" /\ ckAtResume # NONE) => Recorded(ckAtResume) \cap p.frags = Recorded(ckAtResume) \cap p.frags
NeverOkWithStray == outcome = "ok" => StrayFile \notin p.frags
\* mechanism-level design facts (reported, never verdicts)
CkNeverListsUnpublished == p.ck # NONE => Recorded(p.ck) \subseteq p.frags
Ends == <>(v.pc \in {"done", "refused"})
\* generator hook: print the step labels of the crash-free run
StepsOut == (v.pc = "done" /\ TrackSteps) => PrintT(ToJson([steps |-> steps]))
=============================================================================

------------------------------ MODULE LoadTrace ------------------------------
(* Trace validation for C18 (dump followed by load reproduces the graph) and C20 (corrupt, tampered or hostile input  *)
(* is rejected before it can do harm).  Events:                                                                        *)
(*   src{graphs}                                  the source database (entity ids per graph, keyset order)             *)
(*   dumped{ok,dir}                               real Dump ran to completion: directory projection as in DumpProp     *)
(*   loaded{ok,nodewrites,relwrites,graphs}       real Load into an empty database; per graph the source and the       *)
(*                                                loaded entities as canonical records, matched through the unique     *)
(*                                                marker property the harness puts on every entity                     *)
(*   verify{mutation,ok}                          real Verify of the (possibly edited) loaded database                 *)
(*   attack{api,class,what,ok,nodewrites,relwrites,newfiles,outside,same}                                              *)
(*        one tampered / hostile input given to one API.  class "strict": the byte is protected (hash, AEAD, or a      *)
(*        manifest field the loader consumes) - must fail with nothing written; "lenient": nothing authenticates it -  *)
(*        may be accepted, but then the result must be the untampered one (same = TRUE).  newfiles = files left in     *)
(*        the destination of a staged API, outside = files created outside the requested directory.                   *)
EXTENDS DumpProp, Json
VARIABLES src, ends, l
TraceLog == ndJsonDeserialize("trace.ndjson")
Ev == TraceLog[l]
tvars == <<src, ends, l>>
TInit == src = <<>> /\ ends = <<>> /\ l = 1 /\ TLCSet(1, 0)
TSrc == Ev.e = "src" /\ src' = Ev.graphs /\ ends' = (IF "ends" \in DOMAIN Ev THEN Ev.ends ELSE <<>>)
\* degree histograms by naive computation on the edge list: set of <<degree, number of nodes with that degree>>
Hist(nodes, deg(_)) == {<<d, Cardinality({n \in nodes : deg(n) = d})>> : d \in {deg(n) : n \in nodes}}
MetricsDescribe(m, g, es) ==
   LET nodes == ToSet(g.nodes)
       InD(n) == Cardinality({i \in DOMAIN es : es[i][2] = n})
       OutD(n) == Cardinality({i \in DOMAIN es : es[i][1] = n})
       TotD(n) == InD(n) + OutD(n)
       Pairs(s) == {<<s[i][1], s[i][2]>> : i \in DOMAIN s}
   IN /\ m.name = g.name /\ m.nodes = Len(g.nodes) /\ m.edges = Len(g.edges)
      /\ Pairs(m["in"]) = Hist(nodes, InD) /\ Pairs(m.out) = Hist(nodes, OutD) /\ Pairs(m.total) = Hist(nodes, TotD)
TDumped == /\ Ev.e = "dumped" /\ UNCHANGED <<src, ends>> /\ Ev.ok /\ Equivalent(Ev.dir, src)
           /\ (ends # <<>>) => (Len(Ev.metrics) = Len(src) /\ \A i \in DOMAIN src : MetricsDescribe(Ev.metrics[i], src[i], ends[i]))
Bag(s) == [x \in ToSet(s) |-> Cardinality({i \in DOMAIN s : s[i] = x})]
TLoaded == /\ Ev.e = "loaded" /\ UNCHANGED <<src, ends>> /\ Ev.ok
           /\ Len(Ev.graphs) = Len(src)
           /\ \A i \in DOMAIN Ev.graphs : LET g == Ev.graphs[i] IN
                 /\ g.name = src[i].name
                 /\ Len(g.dst_nodes) = Len(src[i].nodes) /\ Len(g.dst_edges) = Len(src[i].edges)   \* same counts
                 /\ Bag(g.dst_nodes) = Bag(g.src_nodes)      \* same kinds and JSON-equal property maps under the correspondence
                 /\ Bag(g.dst_edges) = Bag(g.src_edges)      \* same endpoints (through the correspondence), kinds, properties
           /\ Ev.nodewrites = Len(Concat([i \in DOMAIN src |-> src[i].nodes]))
           /\ Ev.relwrites = Len(Concat([i \in DOMAIN src |-> src[i].edges]))
\* verification succeeds exactly when the graphs match (for edits the manifest's metrics can see)
TVerify == Ev.e = "verify" /\ UNCHANGED <<src, ends>> /\ (Ev.ok <=> Ev.mutation = "none")
TAttack == /\ Ev.e = "attack" /\ UNCHANGED <<src, ends>>
           /\ Ev.outside = 0                                         \* never a file outside the requested directory
           /\ ~Ev.ok => (Ev.nodewrites = 0 /\ Ev.relwrites = 0)     \* an error means nothing was written to the database
           /\ (~Ev.ok /\ Ev.staged) => Ev.newfiles = 0              \* ... and nothing is left in a staged destination
           /\ Ev.class = "strict" => ~Ev.ok
           /\ (Ev.class = "lenient" /\ Ev.ok) => Ev.same
TNext == l <= Len(TraceLog) /\ (TSrc \/ TDumped \/ TLoaded \/ TVerify \/ TAttack) /\ l' = l + 1
TSpec == TInit /\ [][TNext]_tvars
HW == TLCSet(1, IF l > TLCGet(1) THEN l ELSE TLCGet(1))
Accepted == IF TLCGet(1) = Len(TraceLog) + 1 THEN TRUE ELSE PrintT(<<"STUCK_AT_LINE", TLCGet(1)>>) /\ FALSE
=============================================================================

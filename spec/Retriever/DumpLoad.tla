------------------------------ MODULE DumpLoad ------------------------------
(* M-spec of the structural machine behind Dump followed by Load (retriever/dump.go, scan.go, load.go) for one     *)
(* graph: keyset scan in batches, shard writer, then the loader: a verification pass over every fragment, node      *)
(* batches of BatchSize created in bulk with order-correlated destination ids, an id resolver, one batch operation  *)
(* per edge fragment.  c.corrupt = a fragment index whose content does not match the manifest (0 = none).             *)
(* Properties: nothing is written before every fragment is verified; the loaded graph is the source graph under     *)
(* the id correspondence; concatenated fragments are the id sequence, each once, in order.                          *)
EXTENDS Integers, Sequences, FiniteSets, TLC
CONSTANTS MaxNodes, MaxEdges, MaxSB     \* every configuration within these bounds is an initial state
VARIABLES c,          \* the configuration: [n, edges (sequence of <<start, end>> over 1..n), shard, batch, corrupt]
          frags,      \* sequence of [ph, ids]   (the dump's published fragments, in manifest order)
          pc, scanned, w,
          verified, pending, idmap, nextDst, dstNodes, dstEdges, cursor, failed
vars == <<c, frags, pc, scanned, w, verified, pending, idmap, nextDst, dstNodes, dstEdges, cursor, failed>>
NE == Len(c.edges)
Min(a, b) == IF a < b THEN a ELSE b
Total(ph) == IF ph = "nodes" THEN c.n ELSE NE
Cfgs == UNION {[n : {k}, edges : UNION {[1..m -> (1..k) \X (1..k)] : m \in 0..(IF k = 0 THEN 0 ELSE MaxEdges)},
                shard : 1..MaxSB, batch : 1..MaxSB, corrupt : 0..(k + 2)] : k \in 0..MaxNodes}
Init == /\ c \in Cfgs /\ frags = <<>> /\ pc = "dumpNodes" /\ scanned = 0 /\ w = <<>> /\ verified = 0 /\ pending = <<>> /\ idmap = <<>>
        /\ nextDst = 100 /\ dstNodes = {} /\ dstEdges = {} /\ cursor = 1 /\ failed = FALSE
Phase == IF pc = "dumpNodes" THEN "nodes" ELSE "edges"
\* ---- dump: one keyset batch per step, records go to the shard writer one at a time (collapsed), shards close at c.shard
RECURSIVE Cut(_, _, _)
\* Cut(ids, w, ph) = <<completed fragments, remaining writer content>> after feeding ids to a writer holding w
Cut(ids, wr, ph) == IF ids = <<>> THEN <<<<>>, wr>>
                    ELSE LET w2 == Append(wr, Head(ids))
                         IN IF Len(w2) >= c.shard
                              THEN LET r == Cut(Tail(ids), <<>>, ph) IN <<<<[ph |-> ph, ids |-> w2]>> \o r[1], r[2]>>
                              ELSE Cut(Tail(ids), w2, ph)
DumpBatch == /\ pc \in {"dumpNodes", "dumpEdges"} /\ scanned < Total(Phase)
             /\ LET k == Min(c.batch, Total(Phase) - scanned)
                    r == Cut([i \in 1..k |-> scanned + i], w, Phase)
                IN frags' = frags \o r[1] /\ w' = r[2] /\ scanned' = scanned + k
             /\ UNCHANGED <<pc, verified, pending, idmap, nextDst, dstNodes, dstEdges, cursor, failed>>
DumpPhaseEnd == /\ pc \in {"dumpNodes", "dumpEdges"} /\ scanned = Total(Phase)
                /\ frags' = IF w = <<>> THEN frags ELSE Append(frags, [ph |-> Phase, ids |-> w])
                /\ w' = <<>> /\ scanned' = 0 /\ pc' = IF pc = "dumpNodes" THEN "dumpEdges" ELSE "verify"
                /\ UNCHANGED <<verified, pending, idmap, nextDst, dstNodes, dstEdges, cursor, failed>>
\* ---- load
Verify == /\ pc = "verify" /\ UNCHANGED <<frags, scanned, w, pending, idmap, nextDst, dstNodes, dstEdges, cursor>>
          /\ IF verified = Len(frags) THEN pc' = "loadNodes" /\ UNCHANGED <<verified, failed>>
             ELSE IF verified + 1 = c.corrupt THEN pc' = "done" /\ failed' = TRUE /\ UNCHANGED verified
             ELSE verified' = verified + 1 /\ UNCHANGED <<pc, failed>>
NodeIds == LET nf == SelectSeq(frags, LAMBDA f : f.ph = "nodes")
               RECURSIVE C(_)
               C(s) == IF s = <<>> THEN <<>> ELSE Head(s).ids \o C(Tail(s))
           IN C(nf)
Flush(p) == [i \in 1..Len(p) |-> nextDst + i]
LoadNode == /\ pc = "loadNodes" /\ UNCHANGED <<frags, scanned, w, verified, dstEdges, failed>>
            /\ IF cursor <= Len(NodeIds)
                 THEN LET p2 == Append(pending, NodeIds[cursor]) IN
                      IF Len(p2) >= c.batch
                        THEN /\ idmap' = [x \in DOMAIN idmap \cup {p2[i] : i \in 1..Len(p2)} |->
                                            IF x \in DOMAIN idmap THEN idmap[x] ELSE Flush(p2)[CHOOSE i \in 1..Len(p2) : p2[i] = x]]
                             /\ dstNodes' = dstNodes \cup {Flush(p2)[i] : i \in 1..Len(p2)} /\ nextDst' = nextDst + Len(p2)
                             /\ pending' = <<>> /\ cursor' = cursor + 1 /\ UNCHANGED pc
                        ELSE pending' = p2 /\ cursor' = cursor + 1 /\ UNCHANGED <<pc, idmap, dstNodes, nextDst>>
                 ELSE /\ idmap' = [x \in DOMAIN idmap \cup {pending[i] : i \in 1..Len(pending)} |->
                                     IF x \in DOMAIN idmap THEN idmap[x] ELSE Flush(pending)[CHOOSE i \in 1..Len(pending) : pending[i] = x]]
                      /\ dstNodes' = dstNodes \cup {Flush(pending)[i] : i \in 1..Len(pending)} /\ nextDst' = nextDst + Len(pending)
                      /\ pending' = <<>> /\ pc' = "loadEdges" /\ cursor' = 1
LoadEdgeFragment == /\ pc = "loadEdges" /\ UNCHANGED <<frags, scanned, w, verified, pending, idmap, nextDst, dstNodes, failed>>
                    /\ LET ef == SelectSeq(frags, LAMBDA f : f.ph = "edges") IN
                       IF cursor <= Len(ef)
                         THEN /\ dstEdges' = dstEdges \cup {<<ef[cursor].ids[i], idmap[c.edges[ef[cursor].ids[i]][1]], idmap[c.edges[ef[cursor].ids[i]][2]]>> : i \in 1..Len(ef[cursor].ids)}
                              /\ cursor' = cursor + 1 /\ UNCHANGED pc
                         ELSE pc' = "done" /\ UNCHANGED <<dstEdges, cursor>>
Done == pc = "done" /\ UNCHANGED vars
Next == (DumpBatch \/ DumpPhaseEnd \/ Verify \/ LoadNode \/ LoadEdgeFragment \/ Done) /\ UNCHANGED c
Spec == Init /\ [][Next]_vars /\ WF_vars(Next)
\* ---- properties
NoWriteBeforeVerified == (dstNodes # {} \/ dstEdges # {}) => verified = Len(frags)
NothingWrittenOnCorruption == failed => (dstNodes = {} /\ dstEdges = {})
FragmentsPartition == pc \in {"verify", "loadNodes", "loadEdges", "done"} =>
                        /\ NodeIds = [i \in 1..c.n |-> i]
                        /\ \A i \in 1..Len(frags) : Len(frags[i].ids) > 0 /\ Len(frags[i].ids) <= c.shard
Isomorphic == (pc = "done" /\ ~failed) =>
                 /\ DOMAIN idmap = 1..c.n /\ Cardinality({idmap[x] : x \in DOMAIN idmap}) = c.n   \* bijection
                 /\ dstNodes = {idmap[x] : x \in DOMAIN idmap}
                 /\ dstEdges = {<<e, idmap[c.edges[e][1]], idmap[c.edges[e][2]]>> : e \in 1..NE}
Ends == <>(pc = "done")
=============================================================================

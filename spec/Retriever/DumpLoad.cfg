SPECIFICATION Spec
CONSTANTS
  MaxNodes = 3
  MaxEdges = 2
  MaxSB = 3
INVARIANTS NoWriteBeforeVerified NothingWrittenOnCorruption FragmentsPartition Isomorphic
PROPERTIES Ends
CHECK_DEADLOCK FALSE

------------------------------ MODULE DumpProp ------------------------------
(* P-spec for C19 (and the structural half of C18): what a dump directory must look like,      *)
(* stated over the projection an outside observer can compute from the files:                   *)
(*   dir = [has_manifest, manifest_valid, graphs (as listed by the manifest, each file with     *)
(*          exists / sha_ok / size_ok recomputed from disk), has_ckpt, ckpt_parsed, ckpt_files, *)
(*          frags (every published fragment file with its decoded entity-id sequence and hash), *)
(*          temps, other]                                                                       *)
(* and the source src = sequence of [name, nodes, edges] (entity ids in keyset order).          *)
EXTENDS Integers, Sequences, FiniteSets, TLC
ToSet(s) == {s[i] : i \in DOMAIN s}
RECURSIVE Concat(_)
Concat(ss) == IF ss = <<>> THEN <<>> ELSE Head(ss) \o Concat(Tail(ss))
FragByPath(dir, p) == CHOOSE f \in ToSet(dir.frags) : f.path = p
HasFrag(dir, p) == \E f \in ToSet(dir.frags) : f.path = p
PhaseFiles(g, ph) == SelectSeq(g.files, LAMBDA f : f.phase = ph)
FileOK(dir, f) == /\ f.exists /\ f.sha_ok /\ f.size_ok /\ HasFrag(dir, f.path)
                  /\ FragByPath(dir, f.path).readable /\ Len(FragByPath(dir, f.path).ids) = f.count /\ f.count > 0
IdsOf(dir, fs) == Concat([i \in DOMAIN fs |-> FragByPath(dir, fs[i].path).ids])
\* every entity of the graph exactly once, in order; node fragments before edge fragments; counts right
GraphComplete(dir, g, s) ==
   /\ g.name = s.name /\ g.node_count = Len(s.nodes) /\ g.edge_count = Len(s.edges)
   /\ \A i \in DOMAIN g.files : FileOK(dir, g.files[i])
   /\ \A i, j \in DOMAIN g.files : (i < j /\ g.files[i].phase = "edges") => g.files[j].phase = "edges"
   /\ \A i, j \in DOMAIN g.files : i # j => g.files[i].path # g.files[j].path
   /\ IdsOf(dir, PhaseFiles(g, "nodes")) = s.nodes
   /\ IdsOf(dir, PhaseFiles(g, "edges")) = s.edges
Complete(dir, src) == /\ dir.manifest_valid /\ Len(dir.graphs) = Len(src)
                      /\ \A i \in DOMAIN src : GraphComplete(dir, dir.graphs[i], src[i])
ManifestPaths(dir) == UNION {{g.files[i].path : i \in DOMAIN g.files} : g \in ToSet(dir.graphs)}
\* (1) a manifest exists only for a complete, self-consistent dump
ManifestMeansComplete(dir, src) == dir.has_manifest => Complete(dir, src)
\* (2) a run that reports success leaves exactly an uninterrupted dump: nothing but the manifest and its fragments
Equivalent(dir, src) == /\ dir.has_manifest /\ Complete(dir, src)
                        /\ ~dir.has_ckpt /\ dir.temps = <<>> /\ dir.other = <<>>
                        /\ {f.path : f \in ToSet(dir.frags)} = ManifestPaths(dir)
\* (3) a refused resume leaves every fragment the checkpoint had recorded in place, byte-identical.
\*     committed = function path -> hash, taken from the directory before the resume
Recorded(dir) == IF dir.has_ckpt /\ dir.ckpt_parsed
                   THEN [p \in ToSet(dir.ckpt_files) |-> IF HasFrag(dir, p) THEN FragByPath(dir, p).sha ELSE "missing"]
                   ELSE <<>>
HadSnapshot(dir) == dir.has_ckpt /\ dir.ckpt_parsed /\ dir.ckpt_snapshot
Undamaged(dir, committed) == \A p \in DOMAIN committed : HasFrag(dir, p) /\ FragByPath(dir, p).sha = committed[p]
=============================================================================

SPECIFICATION GSpec
CONSTANTS
  MaxGraphs = 2
  MaxNodes = 3
  MaxEdges = 2
  MaxSB = 2
CHECK_DEADLOCK FALSE

SPECIFICATION Spec
CONSTANTS
  Graphs <- McGraphs2
  Shard = 2
  Batch = 2
  MaxCrash = 2
  RecordBeforePublish = TRUE
  RefuseStray = TRUE
  TrackSteps = FALSE
INVARIANTS ManifestMeansComplete OkMeansEquivalent NeverOkWithStray CkNeverListsUnpublished
PROPERTIES Ends
CHECK_DEADLOCK FALSE

SPECIFICATION Spec
CONSTANTS
  Alphabet <- McAlphabet
  MaxLen = 2

------------------------------ MODULE PgLexGen ------------------------------
(* Prints every payload (sequence of one-character strings) up to MaxLen over Alphabet, for injection into the   *)
(* user-text positions of real queries.                                                                          *)
EXTENDS PgLex, Json
CONSTANTS Alphabet, MaxLen
\* the alphabet lives here and not in the cfg file: TLC does not process escapes in cfg strings
McAlphabet == {"'", "\"", "\\", "`", "-", "/", "*", "$", ";", "a", "e", "\n", "%", "_", "é"}
RECURSIVE Payloads(_)
Payloads(n) == IF n = 0 THEN {<<>>} ELSE LET s == Payloads(n - 1) IN s \cup {Append(p, c) : p \in {q \in s : Len(q) = n - 1}, c \in Alphabet}
ASSUME \A p \in Payloads(MaxLen) : PrintT(ToJson(p))
VARIABLE x
Spec == x = 0 /\ [][x' = x]_x
=============================================================================

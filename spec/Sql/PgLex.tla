-------------------------------- MODULE PgLex --------------------------------
(* PostgreSQL's lexical structure (scan.l, standard_conforming_strings = on) over sequences of one-character    *)
(* strings, as far as user text can reach it: '...' with '' (backslash is an ordinary character), E'...' with    *)
(* backslash escapes, "..." with "", -- and nested /* */ comments, $tag$...$tag$, $1 and @name parameters,       *)
(* identifiers, numbers, operators (the backtick is an operator character, not a quote) and punctuation.        *)
(* Lex(s) is the token sequence; a token is [k |-> kind, v |-> decoded value as a character sequence].           *)
(* kinds: "str" "qident" "ident" "num" "param" "op" "punct" "other" "error" (unterminated construct).           *)
(* The second half is an M-spec of what DAWGS does with user text (cypher/models/pgsql/format/format.go:118,     *)
(* translate/expression.go LIKE patterns, translate/expansion.go fragments passed as text) and the statement of  *)
(* C04 over it: whatever the payload, the text lexes to the tokens of a benign payload with one string token     *)
(* that decodes to the payload.                                                                                  *)
EXTENDS Integers, Sequences, FiniteSets, TLC
Letters == {"a","b","c","d","e","f","g","h","i","j","k","l","m","n","o","p","q","r","s","t","u","v","w","x","y","z",
            "A","B","C","D","E","F","G","H","I","J","K","L","M","N","O","P","Q","R","S","T","U","V","W","X","Y","Z","_"}
Digits == {"0","1","2","3","4","5","6","7","8","9"}
Spaces == {" ", "\n", "\t", "\r", "\f"}
OpChars == {"+", "-", "*", "/", "<", ">", "=", "~", "!", "@", "#", "%", "^", "&", "|", "`", "?"}
Puncts == {"(", ")", "[", "]", ",", ";", ":", ".", "{", "}"}
Ascii == Letters \cup Digits \cup Spaces \cup OpChars \cup Puncts \cup {"'", "\"", "\\", "$"}
IdentStart(c) == c \in Letters \/ c \notin Ascii                  \* bytes above 0x7f start and continue identifiers
IdentCont(c) == IdentStart(c) \/ c \in Digits \/ c = "$"
At(s, i) == IF i <= Len(s) THEN s[i] ELSE "<eof>"
Tok(k, v) == [k |-> k, v |-> v]
\* ---- scanners: each returns <<token, next index>>
RECURSIVE ScanQuoted(_, _, _, _, _, _)
\* q: the delimiter; esc: backslash escapes active; acc: decoded value so far
ScanQuoted(s, i, q, esc, acc, kind) ==
   IF i > Len(s) THEN <<Tok("error", acc), i>>
   ELSE IF s[i] = q THEN (IF At(s, i + 1) = q THEN ScanQuoted(s, i + 2, q, esc, Append(acc, q), kind)
                          ELSE <<Tok(IF kind = "qident" /\ acc = <<>> THEN "error" ELSE kind, acc), i + 1>>)
   ELSE IF esc /\ s[i] = "\\" THEN (IF i + 1 > Len(s) THEN <<Tok("error", acc), i + 1>>
                                    ELSE ScanQuoted(s, i + 2, q, esc, Append(acc, CASE s[i + 1] = "n" -> "\n" [] s[i + 1] = "t" -> "\t" [] s[i + 1] = "r" -> "\r" [] OTHER -> s[i + 1]), kind))
   ELSE ScanQuoted(s, i + 1, q, esc, Append(acc, s[i]), kind)
RECURSIVE ScanWhile(_, _, _, _)
ScanWhile(s, i, P(_), acc) == IF i <= Len(s) /\ P(s[i]) THEN ScanWhile(s, i + 1, P, Append(acc, s[i])) ELSE <<acc, i>>
RECURSIVE SkipLine(_, _)
SkipLine(s, i) == IF i > Len(s) \/ s[i] \in {"\n", "\r"} THEN i ELSE SkipLine(s, i + 1)
RECURSIVE SkipBlock(_, _, _)
SkipBlock(s, i, depth) == IF i > Len(s) THEN 0                                     \* 0: unterminated
                          ELSE IF s[i] = "*" /\ At(s, i + 1) = "/" THEN (IF depth = 1 THEN i + 2 ELSE SkipBlock(s, i + 2, depth - 1))
                          ELSE IF s[i] = "/" /\ At(s, i + 1) = "*" THEN SkipBlock(s, i + 2, depth + 1)
                          ELSE SkipBlock(s, i + 1, depth)
RECURSIVE FindTag(_, _, _)
\* first index j >= i where s[j..] starts with tag (a sequence), 0 if none
StartsWith(s, j, tag) == j + Len(tag) - 1 <= Len(s) /\ \A k \in 1..Len(tag) : s[j + k - 1] = tag[k]
FindTag(s, i, tag) == IF i + Len(tag) - 1 > Len(s) THEN 0 ELSE IF StartsWith(s, i, tag) THEN i ELSE FindTag(s, i + 1, tag)
RECURSIVE ScanOp(_, _, _)
ScanOp(s, i, acc) == IF i <= Len(s) /\ s[i] \in OpChars
                        /\ ~(s[i] = "-" /\ At(s, i + 1) = "-") /\ ~(s[i] = "/" /\ At(s, i + 1) = "*")
                     THEN ScanOp(s, i + 1, Append(acc, s[i])) ELSE <<acc, i>>
Scan(s, i) ==
   LET c == s[i] n == At(s, i + 1) IN
   CASE c = "'" -> ScanQuoted(s, i + 1, "'", FALSE, <<>>, "str")
     [] c \in {"e", "E"} /\ n = "'" -> ScanQuoted(s, i + 2, "'", TRUE, <<>>, "str")
     [] c = "\"" -> ScanQuoted(s, i + 1, "\"", FALSE, <<>>, "qident")
     [] c = "$" /\ n \in Digits -> LET r == ScanWhile(s, i + 1, LAMBDA x : x \in Digits, <<>>) IN <<Tok("param", r[1]), r[2]>>
     [] c = "$" /\ (n = "$" \/ IdentStart(n)) ->
          LET t == ScanWhile(s, i + 1, IdentCont, <<>>) IN
          IF At(s, t[2]) # "$" \/ "$" \in {t[1][k] : k \in DOMAIN t[1]} THEN <<Tok("other", <<c>>), i + 1>>
          ELSE LET tag == <<"$">> \o t[1] \o <<"$">>
                   close == FindTag(s, t[2] + 1, tag) IN
               IF close = 0 THEN <<Tok("error", <<>>), Len(s) + 1>>
               ELSE <<Tok("str", SubSeq(s, t[2] + 1, close - 1)), close + Len(tag)>>
     [] c = "@" /\ IdentStart(n) -> LET r == ScanWhile(s, i + 1, IdentCont, <<>>) IN <<Tok("param", r[1]), r[2]>>
     [] IdentStart(c) -> LET r == ScanWhile(s, i, IdentCont, <<>>) IN <<Tok("ident", r[1]), r[2]>>
     [] c \in Digits -> LET r == ScanWhile(s, i, LAMBDA x : x \in Digits \/ x = ".", <<>>) IN <<Tok("num", r[1]), r[2]>>
     [] c = ":" /\ n = ":" -> <<Tok("punct", <<":", ":">>), i + 2>>
     [] c \in Puncts -> <<Tok("punct", <<c>>), i + 1>>
     [] c \in OpChars -> LET r == ScanOp(s, i, <<>>) IN <<Tok("op", r[1]), r[2]>>
     [] OTHER -> <<Tok("other", <<c>>), i + 1>>
RECURSIVE LexAt(_, _, _)
LexAt(s, i, acc) ==
   IF i > Len(s) THEN acc
   ELSE IF s[i] \in Spaces THEN LexAt(s, i + 1, acc)
   ELSE IF s[i] = "-" /\ At(s, i + 1) = "-" THEN LexAt(s, SkipLine(s, i + 2), acc)
   ELSE IF s[i] = "/" /\ At(s, i + 1) = "*" THEN (LET j == SkipBlock(s, i + 2, 1) IN IF j = 0 THEN Append(acc, Tok("error", <<>>)) ELSE LexAt(s, j, acc))
   ELSE LET r == Scan(s, i) IN LexAt(s, r[2], Append(acc, r[1]))
Lex(s) == LexAt(s, 1, <<>>)
Str(v) == Tok("str", v)
\* ---- LIKE patterns (default escape character backslash): the literal text a pattern stands for, given its wildcards
RECURSIVE LikeBody(_, _)
LikeBody(p, i) == IF i > Len(p) THEN <<>>
                  ELSE IF p[i] = "\\" THEN (IF i + 1 > Len(p) THEN <<"<dangling-escape>">> ELSE <<p[i + 1]>> \o LikeBody(p, i + 2))
                  ELSE IF p[i] \in {"%", "_"} THEN <<"<wildcard>">> \o LikeBody(p, i + 1)
                  ELSE <<p[i]>> \o LikeBody(p, i + 1)
\* pattern = [%] literal [%]  ->  the literal, or a sequence containing "<wildcard>" when a wildcard sits elsewhere
LikeLiteral(p, mode) ==
   LET lead == mode \in {"contains", "suffix"} trail == mode \in {"contains", "prefix"}
       a == IF lead THEN 2 ELSE 1
       ok == (lead => Len(p) >= 1 /\ p[1] = "%") /\ (trail => Len(p) >= a /\ p[Len(p)] = "%" /\ (Len(p) = a \/ p[Len(p) - 1] # "\\" \/ TRUE))
       body == SubSeq(p, a, IF trail THEN Len(p) - 1 ELSE Len(p)) IN
   IF ~ok THEN <<"<malformed>">> ELSE LikeBody(body, 1)
\* ---------------------------------------------------------------- what DAWGS does with user text (M-spec)
RECURSIVE Doubled(_, _)
Doubled(p, q) == IF p = <<>> THEN <<>> ELSE (IF Head(p) = q THEN <<q, q>> ELSE <<Head(p)>>) \o Doubled(Tail(p), q)
QuoteLit(p) == <<"'">> \o Doubled(p, "'") \o <<"'">>                       \* format.go formatValue for strings
RECURSIVE LikeEsc(_)
LikeEsc(p) == IF p = <<>> THEN <<>> ELSE (IF Head(p) \in {"\\", "%", "_"} THEN <<"\\", Head(p)>> ELSE <<Head(p)>>) \o LikeEsc(Tail(p))
LikeLit(p, mode) == QuoteLit((IF mode \in {"contains", "suffix"} THEN <<"%">> ELSE <<>>) \o LikeEsc(p) \o (IF mode \in {"contains", "prefix"} THEN <<"%">> ELSE <<>>))
FragPre == <<"s", "e", "l", "e", "c", "t", " ", "1", " ", "w", "h", "e", "r", "e", " ", "x", " ", "=", " ">>
FragPost == <<" ", "a", "n", "d", " ", "y", ";">>
Fragment(p) == QuoteLit(FragPre \o QuoteLit(p) \o FragPost)                 \* SQL handed to a server-side function as text
AliasVerbatim(p) == <<"a", "s", " ">> \o p                                  \* identifiers are written as they are
AliasQuoted(p) == <<"a", "s", " ", "\"">> \o Doubled(p, "\"") \o <<"\"">>
=============================================================================

----------------------------- MODULE PgLexCheck -----------------------------
(* Exhaustive check of the quoting mechanisms over every payload up to MaxLen over Alphabet.                     *)
EXTENDS PgLex
CONSTANTS Alphabet, MaxLen, CheckAlias
\* the alphabet lives here and not in the cfg file: TLC does not process escapes in cfg strings
McAlphabet == {"'", "\"", "\\", "`", "-", "/", "*", "$", ";", "a", "e", "\n", "%", "_", "é"}
RECURSIVE Payloads(_)
Payloads(n) == IF n = 0 THEN {<<>>} ELSE LET s == Payloads(n - 1) IN s \cup {Append(p, c) : p \in {q \in s : Len(q) = n - 1}, c \in Alphabet}
Modes == {"contains", "prefix", "suffix"}
LiteralSafe(p) == Lex(QuoteLit(p)) = <<Str(p)>>
LikeSafe(p) == \A m \in Modes : LET t == Lex(LikeLit(p, m)) IN Len(t) = 1 /\ t[1].k = "str" /\ LikeLiteral(t[1].v, m) = p
FragmentSafe(p) == LET o == Lex(Fragment(p)) IN
                   /\ Len(o) = 1 /\ o[1].k = "str"
                   /\ Lex(o[1].v) = Lex(FragPre) \o <<Str(p)>> \o Lex(FragPost)
AliasSafe(p) == p # <<>> => (LET t == Lex(AliasVerbatim(p)) IN Len(t) = 2 /\ t[2].k \in {"ident", "qident"} /\ t[2].v = p)
AliasQuotedSafe(p) == p # <<>> => Lex(AliasQuoted(p)) = <<Tok("ident", <<"a", "s">>), Tok("qident", p)>>
ASSUME PrintT(<<"payloads", Cardinality(Payloads(MaxLen))>>)
ASSUME \A p \in Payloads(MaxLen) : LiteralSafe(p) /\ LikeSafe(p) /\ FragmentSafe(p) /\ AliasQuotedSafe(p)
ASSUME CheckAlias => \A p \in Payloads(MaxLen) : AliasSafe(p)
VARIABLE x
Spec == x = 0 /\ [][x' = x]_x
=============================================================================

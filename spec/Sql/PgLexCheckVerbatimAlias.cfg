SPECIFICATION Spec
CONSTANTS
  Alphabet <- McAlphabet
  MaxLen = 3
  CheckAlias = TRUE

----------------------------- MODULE PgLexTrace -----------------------------
(* P-spec + trace validation for C04 over records of the real translator's output:                               *)
(*   inject{pos, kind, payload, benign, benign_ok, hostile_ok, panic, aligned, bws, hws, same_sql, value_bound}      *)
(* one query shape with the payload in one user-text position, and the same shape with a benign payload.         *)
(* The statement: if the hostile query is accepted at all, its SQL is the benign SQL except for the one token    *)
(* that carries the payload (aligned: the harness's character comparison before and after that stretch), that    *)
(* token is of the same kind as the benign one and decodes to the payload; where the payload travels as a bound  *)
(* parameter or not at all, the SQL is the benign SQL; SQL handed to server-side functions as text is lexed       *)
(* again after decoding the literal that carries it.  Rejecting the hostile query is allowed; panicking is not.  *)
EXTENDS PgLex, Json
VARIABLE l
TraceLog == ndJsonDeserialize("trace.ndjson")
Ev == TraceLog[l]
TInit == l = 1 /\ TLCSet(1, 0)
Mode(k) == CASE k = "like-contains" -> "contains" [] k = "like-prefix" -> "prefix" [] OTHER -> "suffix"
OneToken(w, kind, value) ==
   LET t == Lex(w) IN
   /\ Len(t) = 1
   /\ CASE kind = "string" -> t[1].k = "str" /\ t[1].v = value
        [] kind \in {"like-contains", "like-prefix", "like-suffix"} -> t[1].k = "str" /\ LikeLiteral(t[1].v, Mode(kind)) = value
        [] kind = "ident" -> t[1].k \in {"ident", "qident"} /\ t[1].v = value
        [] OTHER -> FALSE
\* the value a string token stands for in a position of kind k
Decoded(t, kind) == IF kind \in {"like-contains", "like-prefix", "like-suffix"} THEN LikeLiteral(t.v, Mode(kind)) ELSE t.v
\* two token sequences equal except where both hold a string token for the respective payload (at least one such place)
SameButPayload(th, tb, hv, bv, inner) ==
   /\ Len(th) = Len(tb)
   /\ \A i \in DOMAIN th : th[i] = tb[i] \/ (th[i].k = "str" /\ tb[i].k = "str" /\ Decoded(th[i], inner) = hv /\ Decoded(tb[i], inner) = bv)
   /\ (hv # bv) => \E i \in DOMAIN th : th[i] # tb[i]
\* SQL inside SQL: the window is one string literal; decoded and lexed again it differs from the benign one only in the payload token
FragmentOk(hw, bw, hv, bv, inner) ==
   LET oh == Lex(hw) ob == Lex(bw) IN
   /\ Len(oh) = 1 /\ oh[1].k = "str" /\ Len(ob) = 1 /\ ob[1].k = "str"
   /\ SameButPayload(Lex(oh[1].v), Lex(ob[1].v), hv, bv, inner)
TInject == /\ Ev.e = "inject" /\ ~Ev.panic
           /\ (Ev.benign_ok /\ Ev.hostile_ok) =>
                CASE Ev.kind = "same" -> Ev.same_sql
                  [] Ev.kind = "bound" -> Ev.same_sql /\ Ev.value_bound
                  [] Ev.kind = "frag" -> /\ Ev.aligned /\ Len(Ev.bws) >= 1 /\ Len(Ev.hws) = Len(Ev.bws)
                                         /\ \A k \in DOMAIN Ev.bws : FragmentOk(Ev.hws[k], Ev.bws[k], Ev.payload, Ev.benign, Ev.inner)
                  [] OTHER -> /\ Ev.aligned /\ Len(Ev.bws) >= 1 /\ Len(Ev.hws) = Len(Ev.bws)
                              /\ \A k \in DOMAIN Ev.bws : OneToken(Ev.bws[k], Ev.kind, Ev.benign) /\ OneToken(Ev.hws[k], Ev.kind, Ev.payload)
\* comment{prefix}: what the driver's entry point (translate.FromCypher) writes in front of the statement - the query text as a
\* comment: whatever the query holds, that stretch lexes to no token at all
TComment == Ev.e = "comment" /\ Lex(Ev.prefix) = <<>>
TNext == l <= Len(TraceLog) /\ (TInject \/ TComment) /\ l' = l + 1
TSpec == TInit /\ [][TNext]_l
HW == TLCSet(1, IF l > TLCGet(1) THEN l ELSE TLCGet(1))
Accepted == IF TLCGet(1) = Len(TraceLog) + 1 THEN TRUE ELSE PrintT(<<"STUCK_AT_LINE", TLCGet(1)>>) /\ FALSE
=============================================================================

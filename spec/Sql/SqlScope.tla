------------------------------ MODULE SqlScope ------------------------------
(* P-spec for C03: PostgreSQL name resolution over the event stream of one emitted statement, linearised from the  *)
(* syntax tree the real translator returns (harness/areas/scopearea).  The harness only knows the shape of the    *)
(* tree; what a name may refer to is decided here.                                                                *)
(*   stmt{params, updating}                 a statement begins: returned parameter names, had an updating clause   *)
(*   q_push / q_pop                         a query level (its WITH list lives there)                              *)
(*   cte_begin{name, shape, recursive}      a common table expression; a recursive one is visible to its own body  *)
(*   cte_end{name, shape, cols}             ... is visible from here on to later CTEs and the body of its query    *)
(*   s_push / proj{cols} / s_pop{cols}      a SELECT: its FROM items, output columns                               *)
(*   from_table{name, alias}                FROM item naming a schema table or a visible CTE                       *)
(*   from_begin{lateral} / from_end{alias, cols}  FROM item that is a subquery or a function call                  *)
(*   tail_begin{cols} / tail_end            ORDER BY / OFFSET / LIMIT of a query                                   *)
(*   dml_push{kind, name, alias, shape} / dml_source_begin / dml_source_end / excluded / target_col{c} / dml_pop  *)
(*   ref{parts, field}                      a column reference q.c, (q.c).field or a bare name                     *)
(*   param{name}                            an @parameter                                                          *)
(* The statement: every qualified reference names a FROM item (or DML target) visible at that point - in the same  *)
(* SELECT (only LATERAL items and function calls see their earlier siblings), or in an enclosing one - and a        *)
(* column that item provides; every table named in FROM is a schema table or a CTE defined earlier in an enclosing *)
(* WITH; a CTE's declared column list has the arity of its body; every parameter has a value; data-modifying       *)
(* statements appear only for queries with an updating clause; composite fields are fields of the DAWGS types.     *)
(* Bare names are resolved leniently (a visible item, a column of one, an output column): the translator qualifies *)
(* everything that matters.                                                                                        *)
EXTENDS Integers, Sequences, FiniteSets, TLC, Json
VARIABLES stack, last, params, updating, dml, l
TraceLog == ndJsonDeserialize("trace.ndjson")
Ev == TraceLog[l]
svars == <<stack, last, params, updating, dml, l>>
AnyCols == <<"*">>
TableCols == [node |-> <<"id", "graph_id", "kind_ids", "properties">>,
              edge |-> <<"id", "graph_id", "start_id", "end_id", "kind_id", "properties">>,
              kind |-> <<"id", "name">>, graph |-> <<"id", "name">>]
CompositeFields == {"id", "kind_ids", "properties", "start_id", "end_id", "kind_id", "nodes", "edges"}
BareWords == {"*", "epoch"}
Range(s) == {s[i] : i \in DOMAIN s}
Known(cols) == "*" \notin Range(cols)
Frame(k) == [k |-> k, ctes |-> <<>>, items |-> <<>>, out |-> <<>>, lateral |-> FALSE]
Top == stack[Len(stack)]
Pop == SubSeq(stack, 1, Len(stack) - 1)
SetTop(f) == [stack EXCEPT ![Len(stack)] = f]
\* named entries are sequences of [n, cols]; the last definition wins
Has(entries, n) == \E i \in DOMAIN entries : entries[i].n = n
Get(entries, n) == entries[CHOOSE i \in DOMAIN entries : entries[i].n = n /\ \A j \in DOMAIN entries : entries[j].n = n => j <= i].cols
\* the CTE named n visible from the top of the stack: the nearest enclosing query level that defines it
RECURSIVE CteAt(_, _)
CteAt(i, n) == IF i = 0 THEN 0 ELSE IF stack[i].k = "query" /\ Has(stack[i].ctes, n) THEN i ELSE CteAt(i - 1, n)
\* the FROM item (or DML target) named q visible from the top: walk down; a non-lateral FROM subquery hides the items
\* of the SELECT it belongs to (the next select / dml frame below it)
RECURSIVE ItemAt(_, _, _)
ItemAt(i, q, hide) == IF i = 0 THEN 0
                      ELSE LET f == stack[i] IN
                           IF f.k = "from" THEN ItemAt(i - 1, q, hide \/ ~f.lateral)
                           ELSE IF f.k \in {"select", "dml", "tail"} THEN (IF ~hide /\ Has(f.items, q) THEN i ELSE ItemAt(i - 1, q, FALSE))
                           ELSE ItemAt(i - 1, q, hide)
\* is c a column of some visible item, or are some visible item's columns unknown?
RECURSIVE ColumnSomewhere(_, _, _)
ColumnSomewhere(i, c, hide) == IF i = 0 THEN FALSE
                               ELSE LET f == stack[i] IN
                                    IF f.k = "from" THEN ColumnSomewhere(i - 1, c, hide \/ ~f.lateral)
                                    ELSE IF f.k \in {"select", "dml", "tail"}
                                         THEN (~hide /\ ((\E j \in DOMAIN f.items : ~Known(f.items[j].cols) \/ c \in Range(f.items[j].cols)) \/ c \in Range(f.out) \/ ~Known(f.out)))
                                              \/ ColumnSomewhere(i - 1, c, FALSE)
                                         ELSE ColumnSomewhere(i - 1, c, hide)
\* the nearest frame that collects FROM items
RECURSIVE Holder(_)
Holder(i) == IF i = 0 THEN 0 ELSE IF stack[i].k \in {"select", "dml"} THEN i ELSE Holder(i - 1)
AddItem(n, cols) == LET h == Holder(Len(stack)) IN [stack EXCEPT ![h].items = Append(@, [n |-> n, cols |-> cols])]
Keep == UNCHANGED <<params, updating, dml>>
TInit == stack = <<>> /\ last = Frame("select") /\ params = {} /\ updating = FALSE /\ dml = FALSE /\ l = 1 /\ TLCSet(1, 0)
TStmt == /\ Ev.e = "stmt" /\ stack' = <<>> /\ last' = Frame("select") /\ params' = Range(Ev.params) /\ updating' = Ev.updating /\ dml' = FALSE
TStmtEnd == /\ Ev.e = "stmt_end" /\ stack = <<>> /\ (dml => updating) /\ UNCHANGED <<stack, last>> /\ Keep
TQPush == Ev.e = "q_push" /\ stack' = Append(stack, Frame("query")) /\ UNCHANGED last /\ Keep
TQPop == Ev.e = "q_pop" /\ stack # <<>> /\ Top.k = "query" /\ stack' = Pop /\ UNCHANGED last /\ Keep
DefCte(n, cols) == LET i == CHOOSE j \in DOMAIN stack : stack[j].k = "query" /\ \A m \in DOMAIN stack : stack[m].k = "query" => m <= j IN
                   [stack EXCEPT ![i].ctes = Append(@, [n |-> n, cols |-> cols])]
TCteBegin == /\ Ev.e = "cte_begin" /\ stack # <<>> /\ Top.k = "query"
             /\ stack' = IF Ev.recursive THEN DefCte(Ev.name, IF Ev.shape = <<>> THEN AnyCols ELSE Ev.shape) ELSE stack
             /\ UNCHANGED last /\ Keep
TCteEnd == /\ Ev.e = "cte_end" /\ stack # <<>> /\ Top.k = "query"
           /\ (Ev.shape # <<>> /\ Known(Ev.cols)) => Len(Ev.shape) = Len(Ev.cols)          \* declared column list fits the body
           /\ stack' = DefCte(Ev.name, IF Ev.shape # <<>> THEN Ev.shape ELSE IF Ev.cols = <<>> THEN AnyCols ELSE Ev.cols)
           /\ UNCHANGED last /\ Keep
TSPush == Ev.e = "s_push" /\ stack' = Append(stack, Frame("select")) /\ UNCHANGED last /\ Keep
TProj == Ev.e = "proj" /\ stack # <<>> /\ Top.k = "select" /\ stack' = SetTop([Top EXCEPT !.out = Ev.cols]) /\ UNCHANGED last /\ Keep
TSPop == Ev.e = "s_pop" /\ stack # <<>> /\ Top.k = "select" /\ stack' = Pop /\ last' = Top /\ Keep
TFromTable == /\ Ev.e = "from_table" /\ Len(Ev.name) = 1 /\ Holder(Len(stack)) # 0
              /\ LET t == Ev.name[1] a == IF Ev.alias = "" THEN t ELSE Ev.alias c == CteAt(Len(stack), t) IN
                 /\ c # 0 \/ t \in DOMAIN TableCols                                         \* a CTE in scope, or a schema table
                 /\ stack' = AddItem(a, IF c # 0 THEN Get(stack[c].ctes, t) ELSE TableCols[t])
              /\ UNCHANGED last /\ Keep
TFromBegin == Ev.e = "from_begin" /\ stack' = Append(stack, [Frame("from") EXCEPT !.lateral = Ev.lateral]) /\ UNCHANGED last /\ Keep
TFromEnd == /\ Ev.e = "from_end" /\ stack # <<>> /\ Top.k = "from"
            /\ LET st == Pop h == Holder(Len(st)) IN
               /\ h # 0
               /\ stack' = IF Ev.alias = "" THEN st ELSE [st EXCEPT ![h].items = Append(@, [n |-> Ev.alias, cols |-> IF Ev.cols = <<>> THEN AnyCols ELSE Ev.cols])]
            /\ UNCHANGED last /\ Keep
TTailBegin == Ev.e = "tail_begin" /\ stack' = Append(stack, [last EXCEPT !.k = "tail", !.out = Ev.cols]) /\ UNCHANGED last /\ Keep
TTailEnd == Ev.e = "tail_end" /\ stack # <<>> /\ Top.k = "tail" /\ stack' = Pop /\ UNCHANGED last /\ Keep
TSub == Ev.e \in {"sub_begin", "sub_end"} /\ UNCHANGED <<stack, last>> /\ Keep
TDmlPush == /\ Ev.e = "dml_push" /\ Len(Ev.name) = 1 /\ Ev.name[1] \in DOMAIN TableCols
            /\ LET a == IF Ev.alias = "" THEN Ev.name[1] ELSE Ev.alias IN
               /\ \A i \in DOMAIN Ev.shape : Ev.shape[i] \in Range(TableCols[Ev.name[1]])     \* insert column list names columns of the target
               /\ stack' = Append(stack, [Frame("dml") EXCEPT !.items = <<[n |-> a, cols |-> TableCols[Ev.name[1]]]>>, !.out = TableCols[Ev.name[1]]])
            /\ dml' = TRUE /\ UNCHANGED <<last, params, updating>>
TDmlSourceBegin == Ev.e = "dml_source_begin" /\ stack' = Append(stack, Frame("from")) /\ UNCHANGED last /\ Keep
TDmlSourceEnd == Ev.e = "dml_source_end" /\ stack # <<>> /\ Top.k = "from" /\ stack' = Pop /\ UNCHANGED last /\ Keep
TExcluded == /\ Ev.e = "excluded" /\ stack # <<>> /\ Top.k = "dml"
             /\ stack' = SetTop([Top EXCEPT !.items = Append(@, [n |-> "excluded", cols |-> Top.out])]) /\ UNCHANGED last /\ Keep
TTargetCol == /\ Ev.e = "target_col" /\ Holder(Len(stack)) # 0 /\ stack[Holder(Len(stack))].k = "dml"
              /\ Ev.c \in Range(stack[Holder(Len(stack))].out)
              /\ UNCHANGED <<stack, last>> /\ Keep
TDmlPop == Ev.e = "dml_pop" /\ stack # <<>> /\ Top.k = "dml" /\ stack' = Pop /\ last' = [Top EXCEPT !.k = "select", !.out = Ev.cols] /\ Keep
TRef == /\ Ev.e = "ref" /\ UNCHANGED <<stack, last>> /\ Keep
        /\ Ev.field = "" \/ Ev.field \in CompositeFields
        /\ CASE Len(Ev.parts) = 2 ->
                  LET i == ItemAt(Len(stack), Ev.parts[1], FALSE) IN
                  /\ i # 0                                                                   \* the qualifier names something in scope
                  /\ LET cols == Get(stack[i].items, Ev.parts[1]) IN ~Known(cols) \/ Ev.parts[2] \in Range(cols) \/ Ev.parts[2] = "*"
             [] Len(Ev.parts) = 1 ->
                  \/ Ev.parts[1] \in BareWords
                  \/ ItemAt(Len(stack), Ev.parts[1], FALSE) # 0
                  \/ ColumnSomewhere(Len(stack), Ev.parts[1], FALSE)
             [] OTHER -> FALSE
TParam == Ev.e = "param" /\ Ev.name \in params /\ UNCHANGED <<stack, last>> /\ Keep
TTableExpr == /\ Ev.e = "table_expr" /\ Len(Ev.name) = 1 /\ (CteAt(Len(stack), Ev.name[1]) # 0 \/ Ev.name[1] \in DOMAIN TableCols)
              /\ UNCHANGED <<stack, last>> /\ Keep
TNext == /\ l <= Len(TraceLog) /\ l' = l + 1
         /\ (TStmt \/ TStmtEnd \/ TQPush \/ TQPop \/ TCteBegin \/ TCteEnd \/ TSPush \/ TProj \/ TSPop \/ TFromTable \/ TFromBegin \/ TFromEnd \/ TTailBegin \/ TTailEnd
             \/ TSub \/ TDmlPush \/ TDmlSourceBegin \/ TDmlSourceEnd \/ TExcluded \/ TTargetCol \/ TDmlPop \/ TRef \/ TParam \/ TTableExpr)
TSpec == TInit /\ [][TNext]_svars
HW == TLCSet(1, IF l > TLCGet(1) THEN l ELSE TLCGet(1))
Accepted == IF TLCGet(1) = Len(TraceLog) + 1 THEN TRUE ELSE PrintT(<<"STUCK_AT_LINE", TLCGet(1)>>) /\ FALSE
=============================================================================

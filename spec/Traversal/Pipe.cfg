SPECIFICATION Spec
CONSTANTS
  NVals = 4
  ReaderMode = "eager"
  AllowCancel = TRUE
INVARIANTS Fifo Conserved FlushedAll
PROPERTIES WriterNeverBlocked
CHECK_DEADLOCK FALSE

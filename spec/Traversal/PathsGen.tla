------------------------------ MODULE PathsGen ------------------------------
(* Every directed graph with MinN..MaxN nodes and at most MaxEdges edges (self loops and 2-cycles included, no    *)
(* parallel edges), printed once as JSON; edge i of the printed sequence has id i.                                *)
EXTENDS Integers, Sequences, FiniteSets, TLC, Json, SequencesExt
CONSTANTS MinN, MaxN, MaxEdges
Graphs(n) == {[n |-> n, edges |-> SetToSeq(es)] : es \in {x \in SUBSET {[s |-> a, t |-> b] : a \in 1..n, b \in 1..n} : Cardinality(x) <= MaxEdges}}
ASSUME \A n \in MinN..MaxN : \A g \in Graphs(n) : PrintT(ToJson(g))
VARIABLE x
Spec == x = 0 /\ [][x' = x]_x
=============================================================================

SPECIFICATION Spec
CONSTANTS
  N = 2
  Kids <- McKids5
  Root = 0
  FailSegs = {}
  AllowCancel = FALSE
  IncFirst = TRUE
INVARIANTS AtMostOnce Complete ErrReported NoLateExpansion CountNonNeg
PROPERTIES Terminates
CHECK_DEADLOCK FALSE

--------------------------- MODULE TraversalTrace ---------------------------
(* P-spec + trace validation for C17 (parallel breadth-first traversal and the buffered pipe), over events    *)
(* recorded at the harness-supplied driver and at the call boundary of the real code:                         *)
(*   plan{n,parents,fail,cancel,workers,memlimit}  dstart{seg}  dend{seg}  cancel  ret{err,leaked}            *)
(*   pipe{n,reader}  psend{v}  precv{v}  pclose  prclosed  pcancel  pdone{allsent}                            *)
(* The statement: every segment the driver yields is expanded exactly once, a segment only after its parent   *)
(* yielded it, nothing starts after BreadthFirst returned; nil is returned only after the whole tree was      *)
(* expanded (unless the caller cancelled), an error exactly when a driver call failed or the memory limit was *)
(* hit; no goroutine is left behind.  The pipe delivers every submitted value once, in order, never blocks    *)
(* the writer, and closes the reader side after flushing.                                                     *)
EXTENDS Integers, Sequences, FiniteSets, TLC, Json
VARIABLES pl, started, ended, returned, cancelled, psent, pgot, pst, l
TraceLog == ndJsonDeserialize("trace.ndjson")
Ev == TraceLog[l]
tvars == <<pl, started, ended, returned, cancelled, psent, pgot, pst, l>>
NoPlan == [n |-> 0]
TInit == /\ pl = NoPlan /\ started = {} /\ ended = {} /\ returned = FALSE /\ cancelled = FALSE
         /\ psent = <<>> /\ pgot = <<>> /\ pst = [open |-> FALSE] /\ l = 1 /\ TLCSet(1, 0)
Segs == 0..(pl.n - 1)
Parent(s) == pl.parents[s]           \* parents[i] = parent of segment i, i >= 1
KeepPipe == UNCHANGED <<psent, pgot, pst>>
KeepTrav == UNCHANGED <<pl, started, ended, returned, cancelled>>
TPlan == /\ Ev.e = "plan" /\ pl' = Ev /\ started' = {} /\ ended' = {} /\ returned' = FALSE /\ cancelled' = FALSE /\ KeepPipe
TDStart == /\ Ev.e = "dstart" /\ ~returned /\ Ev.seg \in Segs /\ Ev.seg \notin started
           /\ (IF Ev.seg = 0 THEN TRUE ELSE Parent(Ev.seg) \in ended)
           /\ started' = started \cup {Ev.seg} /\ UNCHANGED <<pl, ended, returned, cancelled>> /\ KeepPipe
TDEnd == /\ Ev.e = "dend" /\ Ev.seg \in started \ ended /\ ended' = ended \cup {Ev.seg}
         /\ UNCHANGED <<pl, started, returned, cancelled>> /\ KeepPipe
TCancel == Ev.e = "cancel" /\ cancelled' = TRUE /\ UNCHANGED <<pl, started, ended, returned>> /\ KeepPipe
Failed == pl.fail >= 0 /\ pl.fail \in started
TRet == /\ Ev.e = "ret" /\ ~returned /\ returned' = TRUE /\ UNCHANGED <<pl, started, ended, cancelled>> /\ KeepPipe
        /\ ended = started                                   \* no driver call still running
        /\ Ev.leaked = 0                                     \* no goroutine left behind
        /\ (~Ev.err /\ ~cancelled) => started = Segs         \* nil => everything expanded, each once
        /\ Failed => Ev.err                                  \* the first error is reported
        /\ Ev.err => (Failed \/ pl.memlimit)                 \* and only a real failure is
        /\ (pl.memlimit /\ ~cancelled /\ ~Failed) => Ev.err  \* exceeding the memory limit is an error
        /\ Ev.elapsed_ms <= Ev.budget_ms                      \* promptly: a failure cancels the driver calls still in flight
\* ---- buffered pipe
IsPrefix(a, b) == Len(a) <= Len(b) /\ \A i \in 1..Len(a) : a[i] = b[i]
TPipe == /\ Ev.e = "pipe" /\ psent' = <<>> /\ pgot' = <<>> /\ pst' = [open |-> TRUE, closed |-> FALSE, rclosed |-> FALSE, cancelled |-> FALSE, n |-> Ev.n, reader |-> Ev.reader] /\ KeepTrav
TPSend == /\ Ev.e = "psend" /\ pst.open /\ ~pst.closed /\ psent' = Append(psent, Ev.v) /\ UNCHANGED <<pgot, pst>> /\ KeepTrav
TPRecv == /\ Ev.e = "precv" /\ pst.open /\ ~pst.rclosed
          /\ pgot' = Append(pgot, Ev.v) /\ IsPrefix(pgot', psent)      \* submitted before, once, in order
          /\ UNCHANGED <<psent, pst>> /\ KeepTrav
TPClose == Ev.e = "pclose" /\ pst' = [pst EXCEPT !.closed = TRUE] /\ UNCHANGED <<psent, pgot>> /\ KeepTrav
TPCancel == Ev.e = "pcancel" /\ pst' = [pst EXCEPT !.cancelled = TRUE] /\ UNCHANGED <<psent, pgot>> /\ KeepTrav
TPRClosed == /\ Ev.e = "prclosed" /\ pst' = [pst EXCEPT !.rclosed = TRUE] /\ UNCHANGED <<psent, pgot>> /\ KeepTrav
             /\ (pst.closed \/ pst.cancelled)                          \* the reader side closes only after close or cancel
             /\ ~pst.cancelled => pgot = psent                         \* and after everything was flushed
TPDone == /\ Ev.e = "pdone" /\ UNCHANGED <<psent, pgot, pst>> /\ KeepTrav
          /\ Ev.allsent                                                \* the writer was never blocked by the reader
          /\ Len(psent) = pst.n
\* ---- segment filters and cycle detection (sequential helpers' building blocks)
\*   iscycle{nodes, got}   PathSegment.IsCycle on the walk through nodes: the last node occurs earlier in the walk
\*   paths{mode, n, edges, root, visited}   the segments (as edge id sequences) a breadth-first traversal from root expands when a
\*        driver follows the edges and the real filter decides: "acyclic" = AcyclicNodeFilter, "unique" = UniquePathSegmentFilter
NodesOf(edges, root, p) == <<root>> \o [i \in 1..Len(p) |-> edges[p[i]].t]
IsWalk(edges, root, p) == /\ \A i \in 1..Len(p) : p[i] \in 1..Len(edges)
                          /\ \A i \in 1..Len(p) : edges[p[i]].s = NodesOf(edges, root, p)[i]
Simple(ns) == \A i, j \in 1..Len(ns) : i # j => ns[i] # ns[j]
Prefix(p) == SubSeq(p, 1, Len(p) - 1)
TIsCycle == /\ Ev.e = "iscycle" /\ KeepPipe /\ KeepTrav
            /\ Ev.got = (\E i \in 1..(Len(Ev.nodes) - 1) : Ev.nodes[i] = Ev.nodes[Len(Ev.nodes)])
TPaths == /\ Ev.e = "paths" /\ KeepPipe /\ KeepTrav /\ ~Ev.err
          /\ LET V == {Ev.visited[i] : i \in 1..Len(Ev.visited)}
                 Out(v) == {k \in 1..Len(Ev.edges) : Ev.edges[k].s = v}
                 End(p) == NodesOf(Ev.edges, Ev.root, p)[Len(p) + 1] IN
             /\ Cardinality(V) = Len(Ev.visited)                                        \* none twice
             /\ <<>> \in V                                                               \* the root is expanded
             /\ \A p \in V : IsWalk(Ev.edges, Ev.root, p) /\ Simple(NodesOf(Ev.edges, Ev.root, p))   \* only simple paths from the root
             /\ \A p \in V : p # <<>> => Prefix(p) \in V                                \* a segment only after its trunk
             /\ IF Ev.mode = "acyclic"
                THEN \* every simple extension of an expanded segment is expanded
                     \A p \in V : \A k \in Out(End(p)) : Simple(NodesOf(Ev.edges, Ev.root, Append(p, k))) => Append(p, k) \in V
                ELSE \* unique: an edge ends at most one expanded segment, and an edge that could extend an expanded segment without
                     \* closing a cycle ends some expanded segment
                     /\ \A p, q \in V : (p # <<>> /\ q # <<>> /\ p[Len(p)] = q[Len(q)]) => p = q
                     /\ \A p \in V : \A k \in Out(End(p)) : Simple(NodesOf(Ev.edges, Ev.root, Append(p, k))) => \E q \in V : q # <<>> /\ q[Len(q)] = k
\* ---- the sequential traversal helpers of package ops
\*   seq{helper, n, edges, root, skip, limit, paths, nodes}   edges = the edges the plan admits, oriented the way the traversal
\*        walks them; paths as sequences of edge positions.  What a plan defines is stated on simple walks:
\*        TraversePaths                = the maximal simple walks of >= 1 edge (no edge leads on to a node not yet on the walk);
\*                                       with skip / limit any that many of them, none twice
\*        TraverseIntermediaryPaths    = every simple walk of >= 1 edge (descent filter = no cycle, every node selected)
\*        AcyclicTraverseNodes         = every node a walk from the root ends at, the root included
\*        AcyclicTraverseTerminals     : every reachable node without a way on is among them, and only nodes reached by >= 1 edge
SeqOut(E, v) == {k \in 1..Len(E) : E[k].s = v}
SeqEnd(E, root, p) == NodesOf(E, root, p)[Len(p) + 1]
SeqExt(E, root, p) == {k \in SeqOut(E, SeqEnd(E, root, p)) : Simple(NodesOf(E, root, Append(p, k)))}
RECURSIVE SimpleWalks(_, _, _)
SimpleWalks(E, root, p) == {p} \cup UNION {SimpleWalks(E, root, Append(p, k)) : k \in SeqExt(E, root, p)}
NoDupSeq(s) == \A i, j \in 1..Len(s) : i # j => s[i] # s[j]
SeqSet(s) == {s[i] : i \in 1..Len(s)}
TSeq == /\ Ev.e = "seq" /\ KeepPipe /\ KeepTrav /\ ~Ev.err /\ ~Ev.panic
        /\ LET E == Ev.edges
               W == SimpleWalks(E, Ev.root, <<>>)
               Max == {p \in W : p # <<>> /\ SeqExt(E, Ev.root, p) = {}}
               Reached == {SeqEnd(E, Ev.root, p) : p \in W}
               ByEdge == {E[k].t : k \in {j \in 1..Len(E) : E[j].s \in Reached}}
               Want == IF Cardinality(Max) > Ev.skip THEN Cardinality(Max) - Ev.skip ELSE 0 IN
          CASE Ev.helper = "TraversePaths" ->
                 /\ NoDupSeq(Ev.paths) /\ SeqSet(Ev.paths) \subseteq Max
                 /\ Len(Ev.paths) = (IF Ev.limit > 0 /\ Ev.limit < Want THEN Ev.limit ELSE Want)
            [] Ev.helper = "TraverseIntermediaryPaths" -> NoDupSeq(Ev.paths) /\ SeqSet(Ev.paths) = W \ {<<>>}
            [] Ev.helper = "AcyclicTraverseNodes" -> SeqSet(Ev.nodes) = Reached
            [] Ev.helper = "AcyclicTraverseTerminals" ->
                 /\ {v \in Reached \ {Ev.root} : SeqOut(E, v) = {}} \subseteq SeqSet(Ev.nodes)
                 /\ SeqSet(Ev.nodes) \subseteq ByEdge
            [] OTHER -> FALSE
\* ---- the bounded counter (util/atomics) and the skip / limit filter the BreadthFirst workers share
\*   counter{width, max, threads, calls, falses, late_false}: of calls made by several goroutines exactly min(max, calls) are told
\*        "not yet at the maximum", and nobody is told so after having been told "at the maximum"
\*   skiplimit{skip, limit, calls, offered, visited}: every call offers a collectable segment; the first skip of them are skipped,
\*        then up to limit (0: no limit) are handed to the visitor - whatever the interleaving
\* collected{n, nodes, paths}: after a complete free-running traversal the library's shared collectors hold every segment's node
\* once and one path per expansion
TCollected == /\ Ev.e = "collected" /\ KeepPipe /\ KeepTrav /\ Ev.nodes = Ev.n /\ Ev.paths = Ev.n
TCounter == /\ Ev.e = "counter" /\ KeepPipe /\ KeepTrav
            /\ Ev.falses = (IF Ev.max < Ev.calls THEN Ev.max ELSE Ev.calls) /\ ~Ev.late_false
TSkipLimit == /\ Ev.e = "skiplimit" /\ KeepPipe /\ KeepTrav /\ Ev.offered = Ev.calls
              /\ LET rest == IF Ev.calls > Ev.skip THEN Ev.calls - Ev.skip ELSE 0 IN
                 Ev.visited = (IF Ev.limit > 0 /\ Ev.limit < rest THEN Ev.limit ELSE rest)
TNext == /\ l <= Len(TraceLog) /\ l' = l + 1
         /\ (TPlan \/ TDStart \/ TDEnd \/ TCancel \/ TRet \/ TPipe \/ TPSend \/ TPRecv \/ TPClose \/ TPCancel \/ TPRClosed \/ TPDone \/ TIsCycle \/ TPaths \/ TSeq \/ TCounter \/ TSkipLimit \/ TCollected)
TSpec == TInit /\ [][TNext]_tvars
HW == TLCSet(1, IF l > TLCGet(1) THEN l ELSE TLCGet(1))
Accepted == IF TLCGet(1) = Len(TraceLog) + 1 THEN TRUE ELSE PrintT(<<"STUCK_AT_LINE", TLCGet(1)>>) /\ FALSE
=============================================================================

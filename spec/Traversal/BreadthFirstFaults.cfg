SPECIFICATION Spec
CONSTANTS
  N = 3
  Kids <- McKids5
  Root = 0
  FailSegs = {3}
  AllowCancel = TRUE
  IncFirst = TRUE
INVARIANTS AtMostOnce Complete ErrReported NoLateExpansion CountNonNeg
PROPERTIES Terminates
CHECK_DEADLOCK FALSE

-------------------------------- MODULE Pipe --------------------------------
(* M-spec of channels.BufferedPipe (util/channels/pipe.go): an unbuffered writer channel, a goroutine with an      *)
(* unbounded deque, an unbuffered reader channel.  The goroutine selects over {context done, receive from writer,   *)
(* send the front of the buffer to the reader (case disabled when the buffer is empty)}; after the writer closed    *)
(* it flushes the buffer and then closes the reader channel.                                                        *)
(*   Values = the values the writer wants to send, in order.  ReaderMode: "eager" | "never" (absent reader).        *)
EXTENDS Integers, Sequences, FiniteSets, TLC
CONSTANTS NVals, ReaderMode, AllowCancel
VARIABLES tosend, buffer, got, pst, wclosed, rclosed, cancelled
vars == <<tosend, buffer, got, pst, wclosed, rclosed, cancelled>>
Sent == [i \in 1..(NVals - Len(tosend)) |-> i]
Init == tosend = [i \in 1..NVals |-> i] /\ buffer = <<>> /\ got = <<>> /\ pst = "loop" /\ wclosed = FALSE /\ rclosed = FALSE /\ cancelled = FALSE
\* writer's send completes exactly when the pipe goroutine takes it (unbuffered channel)
PipeRecv == /\ pst = "loop" /\ tosend # <<>> /\ ~cancelled
            /\ buffer' = Append(buffer, Head(tosend)) /\ tosend' = Tail(tosend)
            /\ UNCHANGED <<got, pst, wclosed, rclosed, cancelled>>
WriterClose == /\ tosend = <<>> /\ ~wclosed /\ wclosed' = TRUE /\ UNCHANGED <<tosend, buffer, got, pst, rclosed, cancelled>>
PipeSeesClose == /\ pst = "loop" /\ wclosed /\ pst' = "flush" /\ UNCHANGED <<tosend, buffer, got, wclosed, rclosed, cancelled>>
PipeSend == /\ pst \in {"loop", "flush"} /\ buffer # <<>> /\ ReaderMode = "eager"
            /\ got' = Append(got, Head(buffer)) /\ buffer' = Tail(buffer)
            /\ UNCHANGED <<tosend, pst, wclosed, rclosed, cancelled>>
PipeFlushed == /\ pst = "flush" /\ buffer = <<>> /\ pst' = "done" /\ rclosed' = TRUE
               /\ UNCHANGED <<tosend, buffer, got, wclosed, cancelled>>
Cancel == /\ AllowCancel /\ ~cancelled /\ cancelled' = TRUE /\ UNCHANGED <<tosend, buffer, got, pst, wclosed, rclosed>>
PipeCancelExit == /\ cancelled /\ pst \in {"loop", "flush"} /\ pst' = "done" /\ rclosed' = TRUE
                  /\ UNCHANGED <<tosend, buffer, got, wclosed, cancelled>>
Done == pst = "done" /\ UNCHANGED vars
PNext == PipeRecv \/ PipeSeesClose \/ PipeSend \/ PipeFlushed \/ PipeCancelExit
Next == PNext \/ WriterClose \/ Cancel \/ Done
Spec == Init /\ [][Next]_vars /\ WF_vars(PNext) /\ WF_vars(WriterClose)
IsPrefix(a, b) == Len(a) <= Len(b) /\ \A i \in 1..Len(a) : a[i] = b[i]
\* every delivered value was submitted, exactly once, in submission order
Fifo == IsPrefix(got, Sent)
\* conservation: submitted = delivered ++ buffered
Conserved == Sent = got \o buffer
\* after a clean close everything is delivered before the reader channel closes
FlushedAll == (rclosed /\ ~cancelled) => (got = [i \in 1..NVals |-> i])
\* the writer is never blocked by a slow or absent reader: all its sends complete (unless cancelled)
WriterNeverBlocked == <>(tosend = <<>> \/ cancelled)
Terminates == <>(pst = "done") \/ ReaderMode = "never"
=============================================================================

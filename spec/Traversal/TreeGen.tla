------------------------------- MODULE TreeGen -------------------------------
(* Every rooted tree on NSeg segments (segment i > 0 hangs under a smaller-numbered parent), with   *)
(* one optional failing segment and an optional external cancellation: the plans replayed on the     *)
(* real traversal.                                                                                   *)
EXTENDS Integers, Sequences, FiniteSets, TLC, Json
CONSTANTS MaxSeg
VARIABLES plan, emitted
Parents(n) == [1..(n-1) -> 0..(n-2)]
GInit == /\ emitted = FALSE
         /\ \E n \in 1..MaxSeg : \E par \in {f \in Parents(n) : \A i \in 1..(n-1) : f[i] < i} :
              \E fail \in -1..(n-1), cancel \in BOOLEAN :
                 plan = [n |-> n, parents |-> par, fail |-> fail, cancel |-> cancel]
GEmit == ~emitted /\ PrintT(ToJson(plan)) /\ emitted' = TRUE /\ UNCHANGED plan
GSpec == GInit /\ [][GEmit]_<<plan, emitted>>
=============================================================================

SPECIFICATION Spec
CONSTANTS
  NVals = 4
  ReaderMode = "never"
  AllowCancel = FALSE
INVARIANTS Fifo Conserved FlushedAll
PROPERTIES WriterNeverBlocked
CHECK_DEADLOCK FALSE

SPECIFICATION Spec
CONSTANTS
  N = 2
  Kids <- McKids5
  Root = 0
  FailSegs = {}
  AllowCancel = FALSE
  IncFirst = FALSE
INVARIANTS AtMostOnce Complete ErrReported NoLateExpansion CountNonNeg

CHECK_DEADLOCK FALSE

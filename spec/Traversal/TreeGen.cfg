SPECIFICATION GSpec
CONSTANTS MaxSeg = 4
CHECK_DEADLOCK FALSE

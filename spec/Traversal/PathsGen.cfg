SPECIFICATION Spec
CONSTANTS
  MinN = 1
  MaxN = 3
  MaxEdges = 4

---------------------------- MODULE BreadthFirst ----------------------------
(* M-spec of traversal.Traversal.BreadthFirst (traversal/traversal.go): a coordinator, N workers, *)
(* the buffered segment pipe (abstracted to a FIFO: Pipe.tla discharges the pipe itself), the     *)
(* atomic descent counter, the completion channel of capacity 2N and the traversal context.       *)
(* Each worker: receive -> drive -> for each child {increment; submit} -> decrement -> signal.    *)
(* Kids is the segment tree the driver yields (segment -> sequence of children); FailSegs are the *)
(* segments whose expansion returns an error; AllowCancel lets the caller cancel at any moment.   *)
(* IncFirst = TRUE is the code as written; FALSE (submit before increment) is the negative        *)
(* control: the coordinator can then see the counter at 0 while a child is queued.                *)
EXTENDS Integers, Sequences, FiniteSets, TLC
CONSTANTS N, Kids, Root, FailSegs, AllowCancel, IncFirst
McKids5 == [s \in 0..4 |-> IF s = 0 THEN <<1, 2>> ELSE IF s = 1 THEN <<3, 4>> ELSE <<>>]
Segs == DOMAIN Kids
W == 1..N
VARIABLES pipe, compQ, count, cancelled, extCancel, wpc, wseg, wkids, cpc, expanded, errs, ret
vars == <<pipe, compQ, count, cancelled, extCancel, wpc, wseg, wkids, cpc, expanded, errs, ret>>
Cap == 2 * N
Init == /\ pipe = <<>> /\ compQ = 0 /\ count = 0 /\ cancelled = FALSE /\ extCancel = FALSE
        /\ wpc = [w \in W |-> "recv"] /\ wseg = [w \in W |-> Root] /\ wkids = [w \in W |-> <<>>]
        /\ cpc = "inc" /\ expanded = [s \in Segs |-> 0] /\ errs = {} /\ ret = "none"
\* ---- workers
WRecvGet(w) == /\ wpc[w] = "recv" /\ pipe # <<>>
               /\ wseg' = [wseg EXCEPT ![w] = Head(pipe)] /\ pipe' = Tail(pipe)
               /\ wpc' = [wpc EXCEPT ![w] = "drive"]
               /\ UNCHANGED <<compQ, count, cancelled, extCancel, wkids, cpc, expanded, errs, ret>>
WRecvCancel(w) == /\ wpc[w] = "recv" /\ cancelled
                  /\ wpc' = [wpc EXCEPT ![w] = "exited"]
                  /\ UNCHANGED <<pipe, compQ, count, cancelled, extCancel, wseg, wkids, cpc, expanded, errs, ret>>
WDrive(w) == /\ wpc[w] = "drive"
             /\ expanded' = [expanded EXCEPT ![wseg[w]] = @ + 1]
             /\ IF wseg[w] \in FailSegs
                  THEN /\ cancelled' = TRUE /\ errs' = errs \cup {w}
                       /\ wpc' = [wpc EXCEPT ![w] = "exited"] /\ UNCHANGED wkids
                  ELSE /\ wkids' = [wkids EXCEPT ![w] = Kids[wseg[w]]]
                       /\ wpc' = [wpc EXCEPT ![w] = IF IncFirst THEN "cinc" ELSE "csub"]
                       /\ UNCHANGED <<cancelled, errs>>
             /\ UNCHANGED <<pipe, compQ, count, extCancel, wseg, cpc, ret>>
\* child loop: (inc ; submit) per child when IncFirst, (submit ; inc) otherwise
WChildInc(w) == /\ wpc[w] = "cinc"
                /\ IF wkids[w] = <<>> /\ IncFirst
                     THEN wpc' = [wpc EXCEPT ![w] = "dec"] /\ UNCHANGED <<count, wkids>>
                     ELSE /\ count' = count + 1
                          /\ IF IncFirst THEN wpc' = [wpc EXCEPT ![w] = "csub"] /\ UNCHANGED wkids
                             ELSE wpc' = [wpc EXCEPT ![w] = "csub"] /\ wkids' = [wkids EXCEPT ![w] = Tail(@)]
                /\ UNCHANGED <<pipe, compQ, cancelled, extCancel, wseg, cpc, expanded, errs, ret>>
WChildSub(w) == /\ wpc[w] = "csub"
                /\ IF wkids[w] = <<>> /\ ~IncFirst
                     THEN wpc' = [wpc EXCEPT ![w] = "dec"] /\ UNCHANGED <<pipe, wkids>>
                     ELSE /\ \/ pipe' = Append(pipe, Head(wkids[w]))        \* send succeeds
                             \/ cancelled /\ UNCHANGED pipe                  \* ctx done chosen; value dropped
                          /\ IF IncFirst THEN wpc' = [wpc EXCEPT ![w] = "cinc"] /\ wkids' = [wkids EXCEPT ![w] = Tail(@)]
                             ELSE wpc' = [wpc EXCEPT ![w] = "cinc"] /\ UNCHANGED wkids
                /\ UNCHANGED <<compQ, count, cancelled, extCancel, wseg, cpc, expanded, errs, ret>>
WDec(w) == /\ wpc[w] = "dec" /\ count' = count - 1 /\ wpc' = [wpc EXCEPT ![w] = "signal"]
           /\ UNCHANGED <<pipe, compQ, cancelled, extCancel, wseg, wkids, cpc, expanded, errs, ret>>
WSignal(w) == /\ wpc[w] = "signal"
              /\ \/ compQ < Cap /\ compQ' = compQ + 1 /\ wpc' = [wpc EXCEPT ![w] = "recv"]
                 \/ cancelled /\ UNCHANGED compQ /\ wpc' = [wpc EXCEPT ![w] = "exited"]
              /\ UNCHANGED <<pipe, count, cancelled, extCancel, wseg, wkids, cpc, expanded, errs, ret>>
\* ---- coordinator
CInc == /\ cpc = "inc" /\ count' = count + 1 /\ cpc' = "root"
        /\ UNCHANGED <<pipe, compQ, cancelled, extCancel, wpc, wseg, wkids, expanded, errs, ret>>
CRoot == /\ cpc = "root"
         /\ \/ pipe' = Append(pipe, Root) /\ cpc' = "loop"
            \/ cancelled /\ UNCHANGED pipe /\ cpc' = "cancel"
         /\ UNCHANGED <<compQ, count, cancelled, extCancel, wpc, wseg, wkids, expanded, errs, ret>>
CLoopRecv == /\ cpc = "loop"
             /\ \/ compQ > 0 /\ compQ' = compQ - 1 /\ cpc' = "check"
                \/ cancelled /\ UNCHANGED compQ /\ cpc' = "cancel"
             /\ UNCHANGED <<pipe, count, cancelled, extCancel, wpc, wseg, wkids, expanded, errs, ret>>
CCheck == /\ cpc = "check" /\ cpc' = IF count = 0 THEN "cancel" ELSE "loop"
          /\ UNCHANGED <<pipe, compQ, count, cancelled, extCancel, wpc, wseg, wkids, expanded, errs, ret>>
CCancel == /\ cpc = "cancel" /\ cancelled' = TRUE /\ cpc' = "wait"
           /\ UNCHANGED <<pipe, compQ, count, extCancel, wpc, wseg, wkids, expanded, errs, ret>>
CWait == /\ cpc = "wait" /\ \A w \in W : wpc[w] = "exited"
         /\ cpc' = "done" /\ ret' = IF errs = {} THEN "nil" ELSE "err"
         /\ UNCHANGED <<pipe, compQ, count, cancelled, extCancel, wpc, wseg, wkids, expanded, errs>>
ExtCancel == /\ AllowCancel /\ ~extCancel /\ cpc # "done" /\ cancelled' = TRUE /\ extCancel' = TRUE
             /\ UNCHANGED <<pipe, compQ, count, wpc, wseg, wkids, cpc, expanded, errs, ret>>
WNext(w) == WRecvGet(w) \/ WRecvCancel(w) \/ WDrive(w) \/ WChildInc(w) \/ WChildSub(w) \/ WDec(w) \/ WSignal(w)
CNext == CInc \/ CRoot \/ CLoopRecv \/ CCheck \/ CCancel \/ CWait
Done == cpc = "done" /\ UNCHANGED vars
Next == Done \/ CNext \/ ExtCancel \/ \E w \in W : WNext(w)
Spec == Init /\ [][Next]_vars /\ WF_vars(CNext) /\ \A w \in W : WF_vars(WNext(w))
\* ---- properties
AtMostOnce == \A s \in Segs : expanded[s] <= 1
RECURSIVE Desc(_)
Desc(s) == {s} \cup UNION {Desc(Kids[s][i]) : i \in 1..Len(Kids[s])}
Complete == (cpc = "done" /\ ret = "nil" /\ ~extCancel) => \A s \in Desc(Root) : expanded[s] = 1
ErrReported == (cpc = "done" /\ \E s \in FailSegs : expanded[s] > 0) => ret = "err"
NoLateExpansion == cpc = "done" => \A w \in W : wpc[w] = "exited"
CountNonNeg == count >= 0
Terminates == <>(cpc = "done")
=============================================================================

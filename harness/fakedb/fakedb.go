// Package fakedb is an in-memory graph.Database with just enough behaviour for the retriever (keyset scans, counts,
// correlated bulk node creation, relationship creation by id, schema assertion) and for the traversal helpers.  It
// keeps a mutation log (how many nodes / relationships were ever written) and can inject read errors.
package fakedb

import (
	"context"
	"errors"
	"fmt"
	"sort"
	"sync"

	cypherModel "github.com/specterops/dawgs/cypher/models/cypher"
	"github.com/specterops/dawgs/graph"
	"github.com/specterops/dawgs/util/size"
)

type Graph struct {
	Nodes []*graph.Node         // sorted by ID
	Rels  []*graph.Relationship // sorted by ID
}

type DB struct {
	graph.Database // nil: any method not implemented below panics, which the harness reports as a harness failure

	mu        sync.Mutex
	Graphs    map[string]*Graph
	nextID    uint64
	NodeWrite int // nodes ever created through the write API
	RelWrite  int // relationships ever created through the write API
	Asserted  []string
	Fetches   int
	// FailFetch > 0: the FailFetch-th Fetch returns an error (once)
	FailFetch int
	// OnFetch, when set, is called before each Fetch with its ordinal
	OnFetch func(n int)
	// MemLimit is what transactions report as GraphQueryMemoryLimit (0 = unlimited)
	MemLimit size.Size
}

func New() *DB {
	return &DB{Graphs: map[string]*Graph{}, nextID: 5000}
}

func (s *DB) G(name string) *Graph {
	g, ok := s.Graphs[name]
	if !ok {
		g = &Graph{}
		s.Graphs[name] = g
	}
	return g
}

func (s *DB) AddNode(graphName string, id uint64, props map[string]any, kinds ...string) {
	g := s.G(graphName)
	g.Nodes = append(g.Nodes, graph.NewNode(graph.ID(id), graph.AsProperties(props), graph.StringsToKinds(kinds)...))
	sort.Slice(g.Nodes, func(i, j int) bool { return g.Nodes[i].ID < g.Nodes[j].ID })
}

func (s *DB) AddRel(graphName string, id, start, end uint64, kind string, props map[string]any) {
	g := s.G(graphName)
	g.Rels = append(g.Rels, graph.NewRelationship(graph.ID(id), graph.ID(start), graph.ID(end), graph.AsProperties(props), graph.StringKind(kind)))
	sort.Slice(g.Rels, func(i, j int) bool { return g.Rels[i].ID < g.Rels[j].ID })
}

func (s *DB) SetWriteFlushSize(int) {}
func (s *DB) SetBatchWriteSize(int) {}

func (s *DB) ReadTransaction(_ context.Context, d graph.TransactionDelegate, _ ...graph.TransactionOption) error {
	return d(&tx{db: s, graphName: "default"})
}

func (s *DB) WriteTransaction(ctx context.Context, d graph.TransactionDelegate, o ...graph.TransactionOption) error {
	return s.ReadTransaction(ctx, d, o...)
}

func (s *DB) BatchOperation(_ context.Context, d graph.BatchDelegate, _ ...graph.BatchOption) error {
	return d(&batch{db: s, graphName: "default"})
}

func (s *DB) AssertSchema(_ context.Context, schema graph.Schema) error {
	s.mu.Lock()
	defer s.mu.Unlock()
	for _, g := range schema.Graphs {
		s.G(g.Name)
		s.Asserted = append(s.Asserted, g.Name)
	}
	return nil
}

func (s *DB) Close(context.Context) error { return nil }

type tx struct {
	graph.Transaction
	db        *DB
	graphName string
}

func (s *tx) WithGraph(g graph.Graph) graph.Transaction {
	return &tx{db: s.db, graphName: g.Name}
}
func (s *tx) Nodes() graph.NodeQuery { return &nodeQuery{db: s.db, g: s.db.G(s.graphName), limit: -1} }
func (s *tx) Relationships() graph.RelationshipQuery {
	return &relQuery{db: s.db, g: s.db.G(s.graphName), limit: -1}
}
func (s *tx) Commit() error                    { return nil }
func (s *tx) GraphQueryMemoryLimit() size.Size { return s.db.MemLimit }

type cursor[T any] struct{ c chan T }

func newCursor[T any](vs []T) *cursor[T] {
	c := make(chan T, len(vs))
	for _, v := range vs {
		c <- v
	}
	close(c)
	return &cursor[T]{c}
}
func (s *cursor[T]) Error() error { return nil }
func (s *cursor[T]) Close()       {}
func (s *cursor[T]) Chan() chan T { return s.c }

func afterID(criteria graph.Criteria) (graph.ID, error) {
	cmp, ok := criteria.(*cypherModel.Comparison)
	if !ok || len(cmp.Partials) != 1 || cmp.Partials[0].Operator != cypherModel.OperatorGreaterThan {
		return 0, fmt.Errorf("fakedb: unsupported filter %T", criteria)
	}
	p, ok := cmp.Partials[0].Right.(*cypherModel.Parameter)
	if !ok {
		return 0, fmt.Errorf("fakedb: unsupported filter operand %T", cmp.Partials[0].Right)
	}
	switch v := p.Value.(type) {
	case graph.ID:
		return v, nil
	case uint64:
		return graph.ID(v), nil
	case int64:
		return graph.ID(v), nil
	}
	return 0, fmt.Errorf("fakedb: unsupported filter value %T", p.Value)
}

func (s *DB) fetchGate() error {
	s.mu.Lock()
	s.Fetches++
	n := s.Fetches
	fail := s.FailFetch > 0 && n == s.FailFetch
	if fail {
		s.FailFetch = 0
	}
	cb := s.OnFetch
	s.mu.Unlock()
	if cb != nil {
		cb(n)
	}
	if fail {
		return errors.New("fakedb: injected read failure")
	}
	return nil
}

type nodeQuery struct {
	graph.NodeQuery
	db       *DB
	g        *Graph
	after    graph.ID
	hasAfter bool
	limit    int
	err      error
}

func (s *nodeQuery) Filter(c graph.Criteria) graph.NodeQuery {
	s.after, s.err = afterID(c)
	s.hasAfter = true
	return s
}
func (s *nodeQuery) OrderBy(...graph.Criteria) graph.NodeQuery { return s }
func (s *nodeQuery) Limit(n int) graph.NodeQuery               { s.limit = n; return s }
func (s *nodeQuery) Count() (int64, error)                     { return int64(len(s.g.Nodes)), s.err }
func (s *nodeQuery) Fetch(d func(graph.Cursor[*graph.Node]) error, _ ...graph.Criteria) error {
	if s.err != nil {
		return s.err
	}
	if err := s.db.fetchGate(); err != nil {
		return err
	}
	var vs []*graph.Node
	for _, n := range s.g.Nodes {
		if (!s.hasAfter || n.ID > s.after) && (s.limit < 0 || len(vs) < s.limit) {
			vs = append(vs, n)
		}
	}
	return d(newCursor(vs))
}

type relQuery struct {
	graph.RelationshipQuery
	db       *DB
	g        *Graph
	after    graph.ID
	hasAfter bool
	limit    int
	err      error
}

func (s *relQuery) Filter(c graph.Criteria) graph.RelationshipQuery {
	s.after, s.err = afterID(c)
	s.hasAfter = true
	return s
}
func (s *relQuery) OrderBy(...graph.Criteria) graph.RelationshipQuery { return s }
func (s *relQuery) Limit(n int) graph.RelationshipQuery               { s.limit = n; return s }
func (s *relQuery) Count() (int64, error)                             { return int64(len(s.g.Rels)), s.err }
func (s *relQuery) Fetch(d func(graph.Cursor[*graph.Relationship]) error) error {
	if s.err != nil {
		return s.err
	}
	if err := s.db.fetchGate(); err != nil {
		return err
	}
	var vs []*graph.Relationship
	for _, r := range s.g.Rels {
		if (!s.hasAfter || r.ID > s.after) && (s.limit < 0 || len(vs) < s.limit) {
			vs = append(vs, r)
		}
	}
	return d(newCursor(vs))
}

type batch struct {
	graph.Batch
	db        *DB
	graphName string
}

func (s *batch) WithGraph(g graph.Graph) graph.Batch { return &batch{db: s.db, graphName: g.Name} }
func (s *batch) Commit() error                       { return nil }

// CreateNodes implements graph.NodeBatchCreator: ids are returned in input order.
func (s *batch) CreateNodes(nodes []*graph.Node) ([]graph.ID, error) {
	s.db.mu.Lock()
	defer s.db.mu.Unlock()
	g := s.db.G(s.graphName)
	ids := make([]graph.ID, len(nodes))
	for i, n := range nodes {
		s.db.nextID += 3
		id := graph.ID(s.db.nextID)
		g.Nodes = append(g.Nodes, graph.NewNode(id, n.Properties, n.Kinds...))
		ids[i] = id
		s.db.NodeWrite++
	}
	return ids, nil
}

func (s *batch) CreateNode(n *graph.Node) error {
	_, err := s.CreateNodes([]*graph.Node{n})
	return err
}

func (s *batch) CreateRelationshipByIDs(start, end graph.ID, kind graph.Kind, props *graph.Properties) error {
	s.db.mu.Lock()
	defer s.db.mu.Unlock()
	g := s.db.G(s.graphName)
	s.db.nextID += 3
	g.Rels = append(g.Rels, graph.NewRelationship(graph.ID(s.db.nextID), start, end, props, kind))
	s.db.RelWrite++
	return nil
}

// Package tr writes ndjson traces and reads ndjson inputs.
package tr

import (
	"bufio"
	"encoding/json"
	"fmt"
	"os"
)

type Ev map[string]any

type Writer struct {
	f *os.File
	w *bufio.Writer
	N int
}

func Create(path string) *Writer {
	f, err := os.Create(path)
	if err != nil {
		Fatal("create %s: %v", path, err)
	}
	return &Writer{f: f, w: bufio.NewWriterSize(f, 1<<20)}
}

func (s *Writer) Emit(ev any) {
	b, err := json.Marshal(ev)
	if err != nil {
		Fatal("marshal: %v", err)
	}
	s.w.Write(b)
	s.w.WriteByte('\n')
	s.N++
}

func (s *Writer) Close() {
	s.w.Flush()
	s.f.Close()
}

// ReadLines decodes each line of an ndjson file into a fresh T.
func ReadLines[T any](path string) []T {
	f, err := os.Open(path)
	if err != nil {
		Fatal("open %s: %v", path, err)
	}
	defer f.Close()
	var out []T
	sc := bufio.NewScanner(f)
	sc.Buffer(make([]byte, 1<<20), 1<<28)
	for sc.Scan() {
		line := sc.Bytes()
		if len(line) == 0 {
			continue
		}
		var v T
		if err := json.Unmarshal(line, &v); err != nil {
			Fatal("decode %s: %v: %s", path, err, line)
		}
		out = append(out, v)
	}
	return out
}

// Fatal is a harness failure (exit 3): never a verdict.
func Fatal(format string, a ...any) {
	fmt.Fprintf(os.Stderr, "vh: "+format+"\n", a...)
	os.Exit(3)
}

// tx translates the Cypher texts given as arguments and prints the SQL (a development aid; not used by any check).
package main

import (
	"context"
	"fmt"
	"os"

	"dawgsverif/areas/frontarea"

	"github.com/specterops/dawgs/cypher/frontend"
	"github.com/specterops/dawgs/cypher/models/pgsql/translate"
)

func main() {
	for _, text := range os.Args[1:] {
		func() {
			defer func() {
				if r := recover(); r != nil {
					fmt.Printf("%s\n  PANIC %v\n", text, r)
				}
			}()
			q, err := frontend.ParseCypher(frontend.NewContext(), text)
			if err != nil {
				fmt.Printf("%s\n  PARSE ERROR %v\n", text, err)
				return
			}
			res, err := translate.Translate(context.Background(), q, frontarea.NewMapper(), nil, 1)
			if err != nil {
				fmt.Printf("%s\n  TRANSLATE ERROR %v\n", text, err)
				return
			}
			sql, err := translate.Translated(res)
			fmt.Printf("%s\n  %s %v\n", text, sql, err)
		}()
	}
}

// vh: the Go side of /verif — replays TLC-generated histories on the real DAWGS code and records traces.
package main

import (
	"fmt"
	"io"
	"log/slog"
	"os"

	"dawgsverif/areas/cachearea"
	"dawgsverif/areas/digrapharea"
	"dawgsverif/areas/dumparea"
	"dawgsverif/areas/entityarea"
	"dawgsverif/areas/frontarea"
	"dawgsverif/areas/idsetarea"
	"dawgsverif/areas/optarea"
	"dawgsverif/areas/reacharea"
	"dawgsverif/areas/scopearea"
	"dawgsverif/areas/sqlarea"
	"dawgsverif/areas/transarea"
	"dawgsverif/areas/travarea"
	"dawgsverif/areas/walkarea"
)

type cmd func(args []string)

var areas = map[string]map[string]cmd{
	"cache":   {"replay": cachearea.Replay, "conc": cachearea.Conc},
	"entity":  {"replay": entityarea.Replay},
	"digraph": {"replay": digrapharea.Replay},
	"dump":    {"child": dumparea.Child, "explore": dumparea.Explore, "roundtrip": dumparea.Roundtrip, "attack": dumparea.Attack},
	"trav":    {"run": travarea.Run, "pipe": travarea.Pipe, "filters": travarea.Filters, "seq": travarea.Seq, "counter": travarea.Counter},
	"front":   {"gate": frontarea.Gate, "build": frontarea.Build, "fuzz": frontarea.Fuzz, "faithful": frontarea.Faithful, "shapes": frontarea.Shapes, "createshapes": frontarea.CreateShapes, "literals": frontarea.Literals, "rewrite": frontarea.Rewrite},
	"opt":     {"export": optarea.Export},
	"reach":   {"replay": reacharea.Replay},
	"scope":   {"run": scopearea.Scope},
	"sql":     {"inject": sqlarea.Inject},
	"trans":   {"hygiene": transarea.Hygiene, "total": transarea.Total},
	"walk":    {"generic": walkarea.Generic, "models": walkarea.Models, "copy": walkarea.Copy},
	"idset":   {"replay": idsetarea.Replay, "conc": idsetarea.Conc, "abba": idsetarea.Abba, "toggle": idsetarea.Toggle, "family": idsetarea.Family},
}

func main() {
	// DAWGS logs measurements through slog; keep the harness output to what the driver parses
	slog.SetDefault(slog.New(slog.NewTextHandler(io.Discard, nil)))
	if len(os.Args) < 3 {
		fmt.Fprintln(os.Stderr, "usage: vh <area> <cmd> [flags]")
		os.Exit(3)
	}
	a, ok := areas[os.Args[1]]
	if !ok {
		fmt.Fprintln(os.Stderr, "unknown area", os.Args[1])
		os.Exit(3)
	}
	c, ok := a[os.Args[2]]
	if !ok {
		fmt.Fprintln(os.Stderr, "unknown command", os.Args[2])
		os.Exit(3)
	}
	c(os.Args[3:])
}

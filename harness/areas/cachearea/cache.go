// Package cachearea binds spec/Cache to the real github.com/specterops/dawgs/cache.
package cachearea

import (
	"flag"
	"fmt"
	"math/rand"
	"os"
	"sync"
	"sync/atomic"
	"time"

	"dawgsverif/internal/tr"

	"github.com/specterops/dawgs/cache"
)

type Op struct {
	Op string `json:"op"`
	K  string `json:"k"`
	V  int    `json:"v"`
}

type Hist struct {
	RawCap int  `json:"rawcap"`
	Ops    []Op `json:"ops"`
	Full   bool `json:"full"`
	Hand   bool `json:"hand"`
}

func newCache(variant string, rawcap int) cache.Cache[string, int] {
	if variant == "sieve" {
		return cache.NewSieve[string, int](rawcap)
	}
	return cache.NewNonExpiringMapCache[string, int](rawcap)
}

type ev struct {
	E       string `json:"e"`
	Hid     int    `json:"hid"`
	Variant string `json:"variant,omitempty"`
	RawCap  int    `json:"rawcap"`
	K       string `json:"k,omitempty"`
	V       int    `json:"v"`
	Hit     bool   `json:"hit"`
	Size    int    `json:"size"`
	Panic   bool   `json:"panic"`
}

func apply(c cache.Cache[string, int], o Op, hid int) (e ev) {
	e = ev{E: o.Op, Hid: hid, K: o.K, V: o.V}
	defer func() {
		if r := recover(); r != nil {
			e.Panic = true
		}
	}()
	switch o.Op {
	case "put":
		c.Put(o.K, o.V)
	case "get":
		v, ok := c.Get(o.K)
		e.Hit, e.V = ok, v
		if !ok {
			e.V = 0
		}
	case "del":
		c.Delete(o.K)
	default:
		tr.Fatal("bad op %q", o.Op)
	}
	e.Size = int(c.Stats().Size())
	return e
}

var keys = []string{"k1", "k2", "k3", "k4", "k5", "k6"}

// keys no generated history uses: the pressure tail fills the cache with them
var freshKeys = []string{"f1", "f2", "f3", "f4", "f5", "f6", "f7"}

// Replay runs every history on a fresh cache of each variant and logs one event per call, followed by a
// probe sweep (Get of every key) that makes the stored set observable through the public API.
func Replay(args []string) {
	fs := flag.NewFlagSet("cache replay", flag.ExitOnError)
	in := fs.String("in", "hist.ndjson", "")
	out := fs.String("out", "trace.ndjson", "")
	variant := fs.String("variant", "sieve", "sieve|nemap")
	nkeys := fs.Int("keys", 3, "keys probed in the sweep")
	fs.Parse(args)
	hs := tr.ReadLines[Hist](*in)
	w := tr.Create(*out)
	for hid, h := range hs {
		c := newCache(*variant, h.RawCap)
		w.Emit(ev{E: "reset", Hid: hid, Variant: *variant, RawCap: h.RawCap})
		for _, o := range h.Ops {
			w.Emit(apply(c, o, hid))
		}
		for _, k := range keys[:*nkeys] {
			w.Emit(apply(c, Op{Op: "get", K: k}, hid))
		}
		// pressure tail: more fresh keys than the cache holds, so that whatever the history left behind (hand, visited
		// bits, queue order) has to carry the cache through eviction sweeps, then the stored set is read back
		n := h.RawCap + 2
		if n < 3 {
			n = 3
		}
		if n > len(freshKeys) {
			n = len(freshKeys)
		}
		for i, k := range freshKeys[:n] {
			w.Emit(apply(c, Op{Op: "put", K: k, V: 1 + i%2}, hid))
		}
		for _, k := range append(append([]string{}, keys[:*nkeys]...), freshKeys[:n]...) {
			w.Emit(apply(c, Op{Op: "get", K: k}, hid))
		}
	}
	w.Close()
	fmt.Printf("{\"histories\":%d,\"events\":%d}\n", len(hs), w.N)
}

type cev struct {
	E       string `json:"e"`
	Hid     int    `json:"hid"`
	T       int    `json:"t"`
	Variant string `json:"variant,omitempty"`
	RawCap  int    `json:"rawcap"`
	Op      string `json:"op,omitempty"`
	K       string `json:"k,omitempty"`
	V       int    `json:"v"`
	Hit     bool   `json:"hit"`
	Size    int    `json:"size"`
	Panic   bool   `json:"panic"`
}

// Conc runs short concurrent histories (threads x ops) against one shared cache and records invocation
// and response events in real-time order: the event slot is reserved under one mutex, so an inv that is
// logged before a resp really happened before it (overlaps only weaken the constraint).
func Conc(args []string) {
	fs := flag.NewFlagSet("cache conc", flag.ExitOnError)
	out := fs.String("out", "trace.ndjson", "")
	variant := fs.String("variant", "sieve", "")
	n := fs.Int("n", 1000, "histories")
	threads := fs.Int("threads", 3, "")
	ops := fs.Int("ops", 3, "ops per thread")
	nkeys := fs.Int("keys", 3, "")
	seed := fs.Int64("seed", 1, "")
	hid0 := fs.Int("hid0", 0, "")
	fs.Parse(args)
	rng := rand.New(rand.NewSource(*seed))
	w := tr.Create(*out)
	caps := []int{0, 1, 2, 3}
	for h := 0; h < *n; h++ {
		hid := *hid0 + h
		rawcap := caps[rng.Intn(len(caps))]
		c := newCache(*variant, rawcap)
		var mu sync.Mutex
		var log []cev
		emit := func(e cev) {
			mu.Lock()
			log = append(log, e)
			mu.Unlock()
		}
		scripts := make([][]Op, *threads)
		for t := range scripts {
			for i := 0; i < *ops; i++ {
				k := keys[rng.Intn(*nkeys)]
				switch rng.Intn(5) {
				case 0, 1:
					scripts[t] = append(scripts[t], Op{"put", k, 1 + rng.Intn(2)})
				case 2, 3:
					scripts[t] = append(scripts[t], Op{"get", k, 0})
				default:
					scripts[t] = append(scripts[t], Op{"del", k, 0})
				}
			}
		}
		var wg sync.WaitGroup
		var start sync.WaitGroup
		start.Add(1)
		var finished atomic.Int32
		for t := range scripts {
			wg.Add(1)
			go func(t int) {
				defer wg.Done()
				defer finished.Add(1)
				start.Wait()
				for _, o := range scripts[t] {
					emit(cev{E: "inv", Hid: hid, T: t, Op: o.Op, K: o.K, V: o.V})
					r := apply(c, o, hid)
					emit(cev{E: "resp", Hid: hid, T: t, Hit: r.Hit, V: r.V, Panic: r.Panic})
				}
			}(t)
		}
		start.Done()
		done := make(chan struct{})
		go func() { wg.Wait(); close(done) }()
		select {
		case <-done:
		case <-time.After(20 * time.Second):
			// every client blocked for 20 s on operations that take microseconds: deadlock witness
			w.Emit(cev{E: "reset", Hid: hid, Variant: *variant, RawCap: rawcap})
			mu.Lock()
			for _, e := range log {
				w.Emit(e)
			}
			mu.Unlock()
			w.Emit(cev{E: "deadlock", Hid: hid})
			w.Close()
			fmt.Printf("{\"histories\":%d,\"events\":%d,\"deadlock\":true}\n", h+1, w.N)
			os.Exit(0)
		}
		w.Emit(cev{E: "reset", Hid: hid, Variant: *variant, RawCap: rawcap})
		for _, e := range log {
			w.Emit(e)
		}
		w.Emit(cev{E: "quiesce", Hid: hid, Size: int(c.Stats().Size())})
		for i, k := range keys[:*nkeys] {
			r := apply(c, Op{Op: "get", K: k}, hid)
			w.Emit(cev{E: "inv", Hid: hid, T: 100 + i, Op: "get", K: k})
			w.Emit(cev{E: "resp", Hid: hid, T: 100 + i, Hit: r.Hit, V: r.V, Panic: r.Panic})
		}
	}
	w.Close()
	fmt.Printf("{\"histories\":%d,\"events\":%d}\n", *n, w.N)
}

package dumparea

import (
	"context"
	"encoding/json"
	"flag"
	"fmt"
	"os"
	"os/exec"
	"path/filepath"
	"runtime"
	"strings"
	"sync"
	"syscall"

	"dawgsverif/internal/tr"

	"github.com/specterops/dawgs/retriever"
	"github.com/specterops/dawgs/util/verifhook"
)

// Child runs one real retriever.Dump in this process.  Every hook point (file-system step of the dump protocol) and
// every database fetch is numbered; with -crash-at k the process kills itself (SIGKILL: no deferred clean-up runs)
// right after step k.  The step log is written unbuffered so that it survives the kill.
func Child(args []string) {
	fs := flag.NewFlagSet("dump child", flag.ExitOnError)
	cfgJSON := fs.String("cfg", "", "configuration (json)")
	dir := fs.String("dir", "", "output directory")
	resume := fs.Bool("resume", false, "")
	crashAt := fs.Int("crash-at", 0, "kill the process after this step (0 = never)")
	failFetch := fs.Int("fail-fetch", 0, "the n-th database fetch returns an error")
	shard := fs.Int("shard", 0, "shard size override (an option change)")
	extra := fs.Bool("extra-node", false, "source has one more node (a count-changing source change)")
	override := fs.String("override", "", "identity option overrides: comma separated key=value (batch, codec, level, scrub, salt)")
	stepLog := fs.String("steps", "", "step log file")
	fs.Parse(args)
	var cfg Config
	if err := json.Unmarshal([]byte(*cfgJSON), &cfg); err != nil {
		tr.Fatal("bad cfg: %v", err)
	}
	var logf *os.File
	if *stepLog != "" {
		f, err := os.OpenFile(*stepLog, os.O_WRONLY|os.O_CREATE|os.O_TRUNC, 0o644)
		if err != nil {
			tr.Fatal("steps: %v", err)
		}
		logf = f
	}
	var mu sync.Mutex
	step := 0
	at := func(point string, a ...any) {
		mu.Lock()
		defer mu.Unlock()
		step++
		if logf != nil {
			arg := ""
			if len(a) > 0 {
				if s, ok := a[0].(string); ok {
					if rel, err := filepath.Rel(*dir, s); err == nil {
						arg = filepath.ToSlash(rel)
					}
				}
			}
			fmt.Fprintf(logf, "%d %s %s\n", step, point, arg)
		}
		if *crashAt > 0 && step == *crashAt {
			syscall.Kill(os.Getpid(), syscall.SIGKILL)
			select {} // never reached
		}
	}
	verifhook.Install(at)
	db := cfg.BuildDB(*extra)
	db.FailFetch = *failFetch
	db.OnFetch = func(n int) { at("db.fetch") }
	opts := cfg.dumpOptions(*dir, *shard)
	opts.Resume = *resume
	for _, kv := range strings.Split(*override, ",") {
		k, v, _ := strings.Cut(kv, "=")
		switch k {
		case "batch":
			fmt.Sscan(v, &opts.BatchSize)
		case "codec":
			opts.Compression = retriever.CompressionCodec(v)
		case "level":
			fmt.Sscan(v, &opts.ZstdLevel)
		case "scrub":
			opts.Scrub = retriever.ScrubMode(v)
		case "salt":
			opts.Salt = v
		}
	}
	res, err := retriever.Dump(context.Background(), db, "fake", cfg.targets(), opts)
	out := map[string]any{"ok": err == nil, "steps": step}
	if err != nil {
		out["err"] = err.Error()
	} else {
		out["nodes"], out["edges"] = res.NodeCount, res.EdgeCount
	}
	fmt.Println(mustJSON(out))
}

type childResult struct {
	Killed bool
	OK     bool
	Err    string
	Steps  int
	Point  string // the step the process was killed at
	Labels []string
}

func runChild(cfg Config, dir string, resume bool, crashAt, failFetch, shard int, extra bool, override ...string) childResult {
	exe, err := os.Executable()
	if err != nil {
		tr.Fatal("executable: %v", err)
	}
	steps := dir + ".steps"
	args := []string{"dump", "child", "-cfg", mustJSON(cfg), "-dir", dir, "-steps", steps}
	if resume {
		args = append(args, "-resume")
	}
	if crashAt > 0 {
		args = append(args, "-crash-at", fmt.Sprint(crashAt))
	}
	if failFetch > 0 {
		args = append(args, "-fail-fetch", fmt.Sprint(failFetch))
	}
	if shard > 0 {
		args = append(args, "-shard", fmt.Sprint(shard))
	}
	if extra {
		args = append(args, "-extra-node")
	}
	if len(override) > 0 && override[0] != "" {
		args = append(args, "-override", override[0])
	}
	cmd := exec.Command(exe, args...)
	out, err := cmd.Output()
	res := childResult{}
	if raw, e := os.ReadFile(steps); e == nil {
		lines := strings.Split(strings.TrimSpace(string(raw)), "\n")
		if len(lines) > 0 && lines[0] != "" {
			res.Steps = len(lines)
			for _, ln := range lines {
				if f := strings.Fields(ln); len(f) >= 2 {
					res.Labels = append(res.Labels, f[1])
				}
			}
			f := strings.Fields(lines[len(lines)-1])
			if len(f) >= 2 {
				res.Point = f[1]
			}
		}
	}
	os.Remove(steps)
	if err != nil {
		if ee, ok := err.(*exec.ExitError); ok {
			if ws, ok := ee.Sys().(syscall.WaitStatus); ok && ws.Signaled() && ws.Signal() == syscall.SIGKILL {
				res.Killed = true
				return res
			}
		}
		tr.Fatal("child failed: %v: %s", err, out)
	}
	var r struct {
		OK    bool   `json:"ok"`
		Err   string `json:"err"`
		Steps int    `json:"steps"`
	}
	if e := json.Unmarshal(out, &r); e != nil {
		tr.Fatal("child output: %v: %s", e, out)
	}
	res.OK, res.Err = r.OK, r.Err
	return res
}

// ---- scenarios ---------------------------------------------------------------------------------------------

type runEv struct {
	E       string  `json:"e"`
	Hid     int     `json:"hid"`
	Kind    string  `json:"kind"`    // dump | resume
	How     string  `json:"how"`     // crash | returned
	OK      bool    `json:"ok"`      // returned without error
	Err     string  `json:"err"`     //
	CrashAt int     `json:"crashat"` //
	Point   string  `json:"point"`   // hook point of the crash
	Changed string  `json:"changed"` // none | options | source | stray  (what changed before this run)
	Dir     DirProj `json:"dir"`
	// Src is the source this run saw (differs from the scenario's source after a source change)
	Src []srcGraph `json:"src"`
	// ManifestSame: the manifest (generation time aside) equals that of an uninterrupted dump of the same source with
	// the same options; true when there is no manifest or the scenario changed the source or the options
	ManifestSame bool `json:"manifest_same"`
}

type srcGraph struct {
	Name  string `json:"name"`
	Nodes []int  `json:"nodes"`
	Edges []int  `json:"edges"`
}

type srcEv struct {
	E      string         `json:"e"`
	Hid    int            `json:"hid"`
	Scen   string         `json:"scen"`
	Cfg    Config         `json:"cfg"`
	Graphs []srcGraph     `json:"graphs"`
	Plan   map[string]any `json:"plan"` // K1, F1, K2, change: enough to re-run exactly this scenario
}

type scenario struct {
	name string
	cfg  Config
	// plan: first run crashes at K1 (0 = runs to completion) or suffers a db error at fetch F1; then optional change;
	// then resume, crashing at K2 (0 = none); then a final resume when K2 > 0.
	K1, F1, K2 int
	change     string
}

var (
	refMu      sync.Mutex
	refDigests = map[string]string{}
)

// referenceDigest: the manifest digest of an uninterrupted dump of the configuration with the given option override
// ("" when that dump fails: then there is nothing to compare with).
func referenceDigest(root string, cfg Config, override string) string {
	key := mustJSON(cfg) + "|" + override
	refMu.Lock()
	defer refMu.Unlock()
	if d, ok := refDigests[key]; ok {
		return d
	}
	dir := filepath.Join(root, fmt.Sprintf("ref%d", len(refDigests)), "out")
	os.MkdirAll(filepath.Dir(dir), 0o755)
	defer os.RemoveAll(filepath.Dir(dir))
	d := ""
	if r := runChild(cfg, dir, false, 0, 0, 0, false, override); !r.Killed && r.OK {
		d = Project(dir).ManifestDigest
	}
	refDigests[key] = d
	return d
}

func (s scenario) run(root string, id int) []any {
	dir := filepath.Join(root, fmt.Sprintf("s%d", id), "out")
	os.MkdirAll(filepath.Dir(dir), 0o755)
	defer os.RemoveAll(filepath.Dir(dir))
	src := srcEv{E: "src", Hid: id, Scen: s.name, Cfg: s.cfg, Plan: map[string]any{"cfg": s.cfg, "K1": s.K1, "F1": s.F1, "K2": s.K2, "change": s.change}}
	for gi, g := range s.cfg.Graphs {
		src.Graphs = append(src.Graphs, srcGraph{Name: g.Name, Nodes: s.cfg.nodeIDs(gi), Edges: s.cfg.edgeIDs(gi)})
	}
	evs := []any{src}
	// identity options: which one the resume changes ("options:<kind>"); scrubbing needs a salt from the first run on
	optKind := strings.TrimPrefix(s.change, "options:")
	firstOverride, resumeOverride := "", ""
	if strings.HasPrefix(s.change, "options") {
		switch optKind {
		case "batch":
			resumeOverride = fmt.Sprintf("batch=%d", s.cfg.Batch+1)
		case "codec":
			resumeOverride = "codec=" + map[string]string{"none": "gzip", "gzip": "zstd", "zstd": "none"}[s.cfg.Codec]
		case "level":
			firstOverride, resumeOverride = "codec=zstd,level=3", "codec=zstd,level=5"
		case "salt":
			firstOverride, resumeOverride = "scrub=full,salt=first-salt", "scrub=full,salt=other-salt"
		case "scrub":
			firstOverride, resumeOverride = "scrub=full,salt=first-salt", "scrub=none"
		}
	}
	// a configuration that scrubs does so in every run of the scenario, with one salt (unless the scenario is about
	// changing exactly that)
	base := ""
	if s.cfg.Scrub == "full" && optKind != "salt" && optKind != "scrub" {
		base = "scrub=full,salt=cfg-salt"
		join := func(a, b string) string {
			if b == "" {
				return a
			}
			return a + "," + b
		}
		firstOverride, resumeOverride = join(base, firstOverride), join(base, resumeOverride)
	}
	ref := referenceDigest(root, s.cfg, base)
	same := func(p DirProj, changed string) bool {
		return !p.HasManifest || changed != "none" || ref == "" || p.ManifestDigest == ref
	}
	r := runChild(s.cfg, dir, false, s.K1, s.F1, 0, false, firstOverride)
	ev := runEv{E: "run", Hid: id, Kind: "dump", Changed: "none", CrashAt: s.K1, Point: r.Point, OK: r.OK, Err: r.Err, Dir: Project(dir), Src: src.Graphs}
	ev.ManifestSame = same(ev.Dir, "none")
	if r.Killed {
		ev.How = "crash"
	} else {
		ev.How = "returned"
	}
	evs = append(evs, ev)
	if ev.How == "returned" && ev.OK {
		return evs // nothing to resume
	}
	shard, extra := 0, false
	switch {
	case s.change == "options" || s.change == "options:shard":
		shard = s.cfg.Shard + 1
	case strings.HasPrefix(s.change, "options"):
	case s.change == "source":
		extra = true
	case s.change == "stray":
		os.MkdirAll(filepath.Join(dir, "graphs"), 0o755)
		os.WriteFile(filepath.Join(dir, "graphs", "stray.jsonl"), []byte("{}\n"), 0o644)
	case strings.HasPrefix(s.change, "stray:"):
		// a file no checkpoint names, spelled like the protocol's own files: a temporary of a shard far beyond the next one
		// (the next shard's own temporary is legitimately removed by a resume), a fragment far beyond the committed ones, a
		// second manifest temporary - placed in the deepest graph directory the interrupted run created
		where := filepath.Join(dir, "graphs")
		os.MkdirAll(where, 0o755)
		if ents, _ := os.ReadDir(where); len(ents) > 0 {
			for _, en := range ents {
				if en.IsDir() {
					where = filepath.Join(where, en.Name())
					break
				}
			}
		}
		name := map[string]string{"stray:tmp": "nodes-000099.jsonl.tmp", "stray:edgetmp": "edges-000099.jsonl.tmp",
			"stray:shard": "nodes-000099.jsonl", "stray:roottmp": "manifest.json.bak.tmp"}[s.change]
		if s.change == "stray:roottmp" {
			where = dir
		}
		os.WriteFile(filepath.Join(where, name), []byte("{}\n"), 0o644)
	}
	changed := s.change
	if changed == "" {
		changed = "none"
	}
	if strings.HasPrefix(changed, "options") {
		changed = "options"
	}
	if strings.HasPrefix(changed, "stray") {
		changed = "stray"
	}
	r = runChild(s.cfg, dir, true, s.K2, 0, shard, extra, resumeOverride)
	ev = runEv{E: "run", Hid: id, Kind: "resume", Changed: changed, CrashAt: s.K2, Point: r.Point, OK: r.OK, Err: r.Err, Dir: Project(dir), Src: src.Graphs}
	ev.ManifestSame = same(ev.Dir, changed)
	if extra && r.OK {
		// the resume completed against the changed source: what it wrote is a dump of the source it read
		g2 := append([]srcGraph{}, src.Graphs...)
		g2[0].Nodes = append(append([]int{}, g2[0].Nodes...), 99)
		ev.Src = g2
	}
	if r.Killed {
		ev.How = "crash"
	} else {
		ev.How = "returned"
	}
	evs = append(evs, ev)
	if r.Killed {
		r = runChild(s.cfg, dir, true, 0, 0, 0, false, base)
		last := runEv{E: "run", Hid: id, Kind: "resume", Changed: "none", How: "returned", OK: r.OK, Err: r.Err, Dir: Project(dir), Src: src.Graphs}
		// after a changed source or changed options the final resume is judged like the one before it
		last.ManifestSame = same(last.Dir, changed)
		evs = append(evs, last)
	}
	return evs
}

// Explore enumerates crash plans for every configuration of the input file: every crash point of the first run,
// (thorough) every crash point of the resume as well, every failing fetch, and the refusal scenarios.
func Explore(args []string) {
	fs := flag.NewFlagSet("dump explore", flag.ExitOnError)
	in := fs.String("in", "cfgs.ndjson", "configurations")
	outp := fs.String("out", "trace.ndjson", "")
	depth2 := fs.String("depth2", "sample", "second-level crashes: none|sample|all")
	seed := fs.Int("seed", 1, "")
	only := fs.String("only", "", "run a single scenario given as json {cfg,K1,F1,K2,change}")
	stepsOut := fs.String("steps-out", "", "write the step labels of each uninterrupted run here (drift check against the M-spec)")
	fs.Parse(args)
	root, err := os.MkdirTemp("", "vh-dump")
	if err != nil {
		tr.Fatal("mkdtemp: %v", err)
	}
	defer os.RemoveAll(root)
	var scens []scenario
	var stepEvents []any
	var unavailable []string
	if *only != "" {
		var o struct {
			Cfg        Config `json:"cfg"`
			K1, F1, K2 int
			Change     string `json:"change"`
		}
		if err := json.Unmarshal([]byte(*only), &o); err != nil {
			tr.Fatal("only: %v", err)
		}
		scens = append(scens, scenario{"only", o.Cfg, o.K1, o.F1, o.K2, o.Change})
	} else {
		for ci, cfg := range tr.ReadLines[Config](*in) {
			// uninterrupted run: number of steps and fetches
			d := filepath.Join(root, fmt.Sprintf("base%d", ci))
			base := runChild(cfg, d, false, 0, 0, 0, false)
			os.RemoveAll(d)
			if !base.OK {
				// the configuration cannot be dumped at all: nothing to interrupt.  Reported to the driver, which fails
				// only if no configuration is left
				unavailable = append(unavailable, fmt.Sprintf("%s: %s", mustJSON(cfg), base.Err))
				continue
			}
			n := base.Steps
			stepEvents = append(stepEvents, map[string]any{"e": "steps", "hid": -1 - ci, "cfg": cfg, "labels": base.Labels})
			scens = append(scens, scenario{"baseline", cfg, 0, 0, 0, ""})
			for k := 1; k <= n; k++ {
				scens = append(scens, scenario{"crash", cfg, k, 0, 0, ""})
				switch *depth2 {
				case "all":
					for j := 1; j <= n; j++ {
						scens = append(scens, scenario{"crash2", cfg, k, 0, j, ""})
					}
				case "sample":
					for j := 1 + (k+*seed+ci)%3; j <= n; j += 3 {
						scens = append(scens, scenario{"crash2", cfg, k, 0, j, ""})
					}
				}
				optKinds := []string{"options:shard", "options:batch", "options:codec", "options:salt", "options:scrub", "options:level"}
				strayKinds := []string{"stray:tmp", "stray:edgetmp", "stray:shard", "stray:roottmp"}
				for _, ch := range []string{optKinds[(k+ci+*seed)%len(optKinds)], "source", "stray", strayKinds[(k+ci+*seed)%len(strayKinds)]} {
					if *depth2 == "all" || (k+ci+*seed)%4 == 0 {
						scens = append(scens, scenario{"refuse-" + strings.SplitN(ch, ":", 2)[0], cfg, k, 0, 0, ch})
					}
				}
				if *depth2 == "all" {
					for _, ch := range optKinds[1:] {
						if ch != optKinds[(k+ci+*seed)%len(optKinds)] {
							scens = append(scens, scenario{"refuse-options", cfg, k, 0, 0, ch})
						}
					}
				}
			}
			// every identity option is changed at a few crash points of every configuration (early, middle, late)
			for _, ch := range []string{"options:shard", "options:batch", "options:codec", "options:salt", "options:scrub", "options:level",
				"stray:tmp", "stray:edgetmp", "stray:shard", "stray:roottmp"} {
				for _, k := range []int{1 + n/4, 1 + n/2, n - 1} {
					if k >= 1 && k <= n {
						scens = append(scens, scenario{"refuse-" + strings.SplitN(ch, ":", 2)[0], cfg, k, 0, 0, ch})
					}
				}
			}
			for f := 1; f <= n; f++ { // more than the number of fetches: later ones simply never fire
				scens = append(scens, scenario{"dberror", cfg, 0, f, 0, ""})
			}
		}
	}
	results := make([][]any, len(scens))
	var wg sync.WaitGroup
	sem := make(chan struct{}, runtime.NumCPU())
	for i := range scens {
		wg.Add(1)
		sem <- struct{}{}
		go func(i int) {
			defer wg.Done()
			defer func() { <-sem }()
			results[i] = scens[i].run(root, i)
		}(i)
	}
	wg.Wait()
	w := tr.Create(*outp)
	if *stepsOut != "" {
		sw := tr.Create(*stepsOut)
		for _, e := range stepEvents {
			sw.Emit(e)
		}
		sw.Close()
	}
	for _, evs := range results {
		for _, e := range evs {
			w.Emit(e)
		}
	}
	w.Close()
	if len(scens) == 0 {
		tr.Fatal("no configuration could be dumped: %v", unavailable)
	}
	if unavailable == nil {
		unavailable = []string{}
	}
	fmt.Println(mustJSON(map[string]any{"scenarios": len(scens), "events": w.N, "undumpable_configurations": unavailable}))
}

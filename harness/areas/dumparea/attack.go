package dumparea

import (
	"archive/tar"
	"bytes"
	"context"
	"crypto/hpke"
	"crypto/sha256"
	"encoding/binary"
	"encoding/hex"
	"encoding/json"
	"flag"
	"fmt"
	"io"
	"os"
	"path/filepath"
	"reflect"
	"sort"
	"strings"

	"dawgsverif/fakedb"
	"dawgsverif/internal/tr"

	"github.com/specterops/dawgs/retriever"
)

// consumed is the part of a manifest the loader's decisions depend on.  A manifest whose consumed projection equals
// the original's differs only in bytes nothing authenticates and nothing reads (lenient class); any other change is
// a change of protected content (strict class).
type consumedFile struct {
	Phase, Path, SHA string
	Count            int
	Bytes            int64
	UncompressedNeg  bool
}
type consumedGraph struct {
	Name         string
	Nodes, Edges int64
	Files        []consumedFile
}
type consumed struct {
	Format, IDStrategy, Compression, ScrubMode string
	GraphCount                                 int
	Graphs                                     []consumedGraph
	SchemaGraphs                               []string
}

func consumedOf(raw []byte) (consumed, bool) {
	var m retriever.Manifest
	if err := json.Unmarshal(raw, &m); err != nil {
		return consumed{}, false
	}
	c := consumed{Format: m.Format, IDStrategy: m.IDStrategy, Compression: string(m.Compression), ScrubMode: string(m.Scrub.Mode),
		GraphCount: m.Source.GraphCount}
	for _, g := range m.Graphs {
		cg := consumedGraph{Name: g.Name, Nodes: g.NodeCount, Edges: g.EdgeCount}
		for _, f := range g.Files {
			cg.Files = append(cg.Files, consumedFile{string(f.Phase), f.Path, f.SHA256, f.Count, f.CompressedBytes, f.UncompressedBytes < 0})
		}
		// the order of the file entries within a phase is protected by nothing and does not change the loaded graph
		// (node-before-edge ordering is enforced by the manifest's own validation): compare them as a set
		sort.Slice(cg.Files, func(i, j int) bool { return cg.Files[i].Phase+cg.Files[i].Path < cg.Files[j].Phase+cg.Files[j].Path })
		c.Graphs = append(c.Graphs, cg)
	}
	for _, sg := range m.Schema.Graphs {
		c.SchemaGraphs = append(c.SchemaGraphs, sg.Name)
	}
	return c, true
}

type attackEnv struct {
	cfg      Config
	w        *tr.Writer
	hid      int
	root     string
	dump     string            // pristine dump directory
	dump2    string            // a different dump of the same shape (substitution material)
	files    map[string][]byte // relative path -> content of the pristine dump
	order    []string
	tarBytes []byte
	enc      []byte
	priv     hpke.PrivateKey
	otherKey hpke.PrivateKey
	base     []graphRecs
	baseMan  consumed
	n        int
}

func (e *attackEnv) emit(api, class, what string, ok bool, errText string, db *fakedb.DB, staged bool, newfiles, outside int, same bool) {
	nw, rw := 0, 0
	if db != nil {
		nw, rw = db.NodeWrite, db.RelWrite
	}
	if len(errText) > 160 {
		errText = errText[:160]
	}
	e.w.Emit(map[string]any{"e": "attack", "hid": e.hid, "api": api, "class": class, "what": what, "ok": ok, "err": errText, "nodewrites": nw,
		"relwrites": rw, "staged": staged, "newfiles": newfiles, "outside": outside, "same": same, "codec": e.cfg.Codec})
	e.n++
}

func (e *attackEnv) loadedRecs(db *fakedb.DB) []graphRecs {
	var recs []graphRecs
	for _, g := range e.cfg.Graphs {
		dn, de := records(db.G(g.Name))
		recs = append(recs, graphRecs{Name: g.Name, DstNodes: dn, DstEdges: de})
	}
	return recs
}

func sameLoaded(a, b []graphRecs) bool {
	if len(a) != len(b) {
		return false
	}
	for i := range a {
		if !reflect.DeepEqual(a[i].DstNodes, b[i].DstNodes) || !reflect.DeepEqual(a[i].DstEdges, b[i].DstEdges) {
			return false
		}
	}
	return true
}

// attackDir: Load from a directory whose files were replaced according to changed (nil content = file removed).
func (e *attackEnv) attackDir(what string, changed map[string][]byte, classHint string) {
	dir := filepath.Join(e.root, "ad")
	os.RemoveAll(dir)
	for rel, content := range e.files {
		if c, ok := changed[rel]; ok {
			if c == nil {
				continue
			}
			content = c
		}
		p := filepath.Join(dir, filepath.FromSlash(rel))
		os.MkdirAll(filepath.Dir(p), 0o755)
		os.WriteFile(p, content, 0o644)
	}
	for rel, c := range changed { // additional files
		if _, ok := e.files[rel]; !ok && c != nil {
			p := filepath.Join(dir, filepath.FromSlash(rel))
			os.MkdirAll(filepath.Dir(p), 0o755)
			os.WriteFile(p, c, 0o644)
		}
	}
	class := classHint
	if class == "" {
		class = "strict"
		if mc, ok := changed["manifest.json"]; ok && len(changed) == 1 && mc != nil {
			if c, parsed := consumedOf(mc); parsed && reflect.DeepEqual(c, e.baseMan) {
				class = "lenient"
			}
		}
	}
	db := fakedb.New()
	lo := retriever.DefaultLoadOptions(dir)
	lo.BatchSize = 2
	_, err := retriever.Load(context.Background(), db, "fake", lo)
	same := false
	if err == nil {
		same = sameLoaded(e.loadedRecs(db), e.base)
	}
	e.emit("load-dir", class, what, err == nil, fmt.Sprint(err), db, false, 0, 0, same)
}

// countFiles counts files under dir (excluding the subtree skip) plus the well-known absolute escape target.
func countFiles(dir string, skip string) int {
	n := 0
	if _, err := os.Stat("/tmp/vh-evil-abs"); err == nil {
		os.Remove("/tmp/vh-evil-abs")
		n++
	}
	filepath.WalkDir(dir, func(p string, d os.DirEntry, err error) error {
		if err != nil {
			return nil
		}
		if skip != "" && (p == skip || strings.HasPrefix(p, skip+string(os.PathSeparator))) {
			if d.IsDir() {
				return filepath.SkipDir
			}
			return nil
		}
		if !d.IsDir() || p != dir {
			if p != dir {
				n++
			}
		}
		return nil
	})
	return n
}

func sameTree(dir string, files map[string][]byte) bool {
	seen := 0
	ok := true
	filepath.WalkDir(dir, func(p string, d os.DirEntry, err error) error {
		if err != nil || d.IsDir() {
			return nil
		}
		rel, _ := filepath.Rel(dir, p)
		want, found := files[filepath.ToSlash(rel)]
		got, _ := os.ReadFile(p)
		if !found || !bytes.Equal(want, got) {
			ok = false
		}
		seen++
		return nil
	})
	return ok && seen == len(files)
}

// attackArchive feeds a (tampered) archive to the three archive consumers.
func (e *attackEnv) attackArchive(what string, data []byte, key hpke.PrivateKey, class string) {
	// in-place unpack: partial output in the requested directory is not demanded away, escaping it is
	parent := filepath.Join(e.root, "ap")
	os.RemoveAll(parent)
	os.MkdirAll(parent, 0o755)
	out := filepath.Join(parent, "out")
	err := retriever.UnpackEncryptedCollectionArchive(bytes.NewReader(data), out, key)
	e.emit("unpack-enc", class, what, err == nil, fmt.Sprint(err), nil, false, 0, countFiles(parent, out), err == nil && sameTree(out, e.files))
	// staged unpack: on error the destination holds nothing new and no staging directory is left next to it
	os.RemoveAll(parent)
	os.MkdirAll(parent, 0o755)
	err = retriever.Unpack(retriever.UnpackOptions{ArchiveReader: bytes.NewReader(data), ArchiveIdentity: key, OutputDir: out})
	newfiles := 0
	if _, serr := os.Stat(out); serr == nil {
		newfiles = countFiles(out, "")
	}
	e.emit("unpack", class, what, err == nil, fmt.Sprint(err), nil, true, newfiles, countFiles(parent, out), err == nil && sameTree(out, e.files))
	// staged unpack into a destination that already exists and is empty (what mktemp -d or a mounted volume gives): the same
	// demand - an error leaves nothing in it
	os.RemoveAll(parent)
	os.MkdirAll(out, 0o755)
	err = retriever.Unpack(retriever.UnpackOptions{ArchiveReader: bytes.NewReader(data), ArchiveIdentity: key, OutputDir: out})
	e.emit("unpack", class, what+" (destination exists, empty)", err == nil, fmt.Sprint(err), nil, true, countFiles(out, ""), countFiles(parent, out), err == nil && sameTree(out, e.files))
	// load straight from the archive
	db := fakedb.New()
	lo := retriever.LoadOptions{ArchiveReader: bytes.NewReader(data), ArchiveIdentity: key, BatchSize: 2}
	_, err = retriever.Load(context.Background(), db, "fake", lo)
	same := false
	if err == nil {
		same = sameLoaded(e.loadedRecs(db), e.base)
	}
	e.emit("load-archive", class, what, err == nil, fmt.Sprint(err), db, false, 0, 0, same)
}

type tarEntry struct {
	name     string
	typeflag byte
	body     []byte
	size     int64 // header size (may lie)
	link     string
}

func buildTar(entries []tarEntry) []byte {
	var buf bytes.Buffer
	tw := tar.NewWriter(&buf)
	for _, en := range entries {
		h := &tar.Header{Name: en.name, Typeflag: en.typeflag, Mode: 0o644, Size: int64(len(en.body)), Linkname: en.link, Format: tar.FormatPAX}
		if en.typeflag != tar.TypeReg {
			h.Size = 0
		}
		if err := tw.WriteHeader(h); err != nil {
			// names the tar writer itself refuses are written as raw USTAR headers below
			continue
		}
		if en.typeflag == tar.TypeReg {
			tw.Write(en.body)
		}
	}
	tw.Close()
	return buf.Bytes()
}

// attackTar: hostile tar streams for the plain extractor and, wrapped in a correctly encrypted envelope, for the
// archive consumers.
func (e *attackEnv) attackTar(what string, tarData []byte, pub hpke.PublicKey) {
	parent := filepath.Join(e.root, "at")
	os.RemoveAll(parent)
	os.MkdirAll(parent, 0o755)
	out := filepath.Join(parent, "out")
	err := retriever.UnpackTar(bytes.NewReader(tarData), out, false)
	e.emit("unpack-tar", "hostile", what, err == nil, fmt.Sprint(err), nil, false, 0, countFiles(parent, out), false)
	var enc bytes.Buffer
	ew, werr := retriever.NewEncryptedArchiveWriter(&enc, pub)
	if werr != nil {
		tr.Fatal("envelope: %v", werr)
	}
	ew.Write(tarData)
	ew.Close()
	e.attackArchive("enveloped:"+what, enc.Bytes(), e.priv, "strict")
}

type frame struct{ start, end int }

func parseFrames(data []byte) (int, []frame) {
	const magic = 18
	if len(data) < magic+4 {
		return 0, nil
	}
	hl := int(binary.BigEndian.Uint32(data[magic : magic+4]))
	pos := magic + 4 + hl
	body := pos
	var fr []frame
	for pos+5 <= len(data) {
		l := int(binary.BigEndian.Uint32(data[pos+1 : pos+5]))
		if pos+5+l > len(data) {
			break
		}
		fr = append(fr, frame{pos, pos + 5 + l})
		pos += 5 + l
	}
	return body, fr
}

func flip(b []byte, off int, mask byte) []byte {
	c := append([]byte{}, b...)
	c[off] ^= mask
	return c
}

// Attack builds real artefacts (dump directory, tar, encrypted archive) for each codec and feeds tampered or hostile
// variants to every consumer.  stride thins the byte-offset sweeps (1 = every byte).
func Attack(args []string) {
	fs := flag.NewFlagSet("dump attack", flag.ExitOnError)
	outp := fs.String("out", "trace.ndjson", "")
	stride := fs.Int("stride", 7, "")
	seed := fs.Int("seed", 1, "")
	codecs := fs.String("codecs", "none,gzip,zstd", "")
	fs.Parse(args)
	root, err := os.MkdirTemp("", "vh-attack")
	if err != nil {
		tr.Fatal("mkdtemp: %v", err)
	}
	defer os.RemoveAll(root)
	w := tr.Create(*outp)
	total := 0
	for hid, codec := range strings.Split(*codecs, ",") {
		cfg := Config{Graphs: []GraphCfg{{"g0", 3, 2}}, Shard: 2, Batch: 2, Codec: codec}
		e := &attackEnv{cfg: cfg, w: w, hid: hid, root: filepath.Join(root, codec), files: map[string][]byte{}}
		os.MkdirAll(e.root, 0o755)
		e.dump = filepath.Join(e.root, "dump")
		if _, err := retriever.Dump(context.Background(), cfg.BuildRichDB(false), "fake", cfg.targets(), cfg.dumpOptions(e.dump, 0)); err != nil {
			tr.Fatal("dump: %v", err)
		}
		e.dump2 = filepath.Join(e.root, "dump2")
		cfg2 := cfg
		cfg2.Graphs = []GraphCfg{{"g0", 3, 2}}
		db2 := cfg2.BuildDB(false) // same ids, different property values
		if _, err := retriever.Dump(context.Background(), db2, "fake", cfg2.targets(), cfg2.dumpOptions(e.dump2, 0)); err != nil {
			tr.Fatal("dump2: %v", err)
		}
		filepath.WalkDir(e.dump, func(p string, d os.DirEntry, err error) error {
			if err == nil && !d.IsDir() {
				rel, _ := filepath.Rel(e.dump, p)
				b, _ := os.ReadFile(p)
				e.files[filepath.ToSlash(rel)] = b
				e.order = append(e.order, filepath.ToSlash(rel))
			}
			return nil
		})
		var tb bytes.Buffer
		if err := retriever.WriteCollectionTar(&tb, e.dump); err != nil {
			tr.Fatal("tar: %v", err)
		}
		e.tarBytes = tb.Bytes()
		priv, pub, err := retriever.GenerateArchiveKeyPair()
		if err != nil {
			tr.Fatal("keygen: %v", err)
		}
		e.priv = priv
		e.otherKey, _, _ = retriever.GenerateArchiveKeyPair()
		var eb bytes.Buffer
		if err := retriever.WriteEncryptedCollectionArchive(&eb, e.dump, pub); err != nil {
			tr.Fatal("archive: %v", err)
		}
		e.enc = eb.Bytes()
		bm, _ := consumedOf(e.files["manifest.json"])
		e.baseMan = bm
		// baseline load
		db := fakedb.New()
		lo := retriever.DefaultLoadOptions(e.dump)
		lo.BatchSize = 2
		if _, err := retriever.Load(context.Background(), db, "fake", lo); err != nil {
			tr.Fatal("baseline load: %v", err)
		}
		e.base = e.loadedRecs(db)
		w.Emit(map[string]any{"e": "src", "hid": hid, "cfg": cfg, "graphs": cfg.srcGraphs(), "sizes": map[string]int{"manifest": len(e.files["manifest.json"]), "tar": len(e.tarBytes), "enc": len(e.enc)}})
		// controls: the untampered artefacts are accepted
		e.attackDir("control", map[string][]byte{}, "lenient")
		e.attackArchive("control", e.enc, e.priv, "lenient")
		// ---- directory attacks
		for fi, rel := range e.order {
			content := e.files[rel]
			// fragments are small: every offset; the manifest: every stride-th offset.  Each chosen offset is flipped with a
			// rotating single-bit mask and, where the byte is a letter, with the ASCII case bit as well (JSON keys are matched
			// case-insensitively by the decoder, string values are not)
			step := *stride
			if rel != "manifest.json" {
				step = 1
			}
			for off := (*seed + fi) % step; off < len(content); off += step {
				masks := []byte{1 << uint((off+*seed)%8)}
				if c := content[off] | 0x20; c >= 'a' && c <= 'z' && masks[0] != 0x20 {
					masks = append(masks, 0x20)
				}
				for _, mask := range masks {
					what := fmt.Sprintf("flip %s@%d^%02x", rel, off, mask)
					if rel == "manifest.json" {
						lo, hi := off-24, off+8
						if lo < 0 {
							lo = 0
						}
						if hi > len(content) {
							hi = len(content)
						}
						what += " near " + strings.Join(strings.Fields(string(content[lo:hi])), " ")
					}
					e.attackDir(what, map[string][]byte{rel: flip(content, off, mask)}, "")
				}
			}
			for l := (*seed * 3) % (*stride * 3); l < len(content); l += *stride * 3 {
				// (a manifest cut right before its final newline still decodes to the same manifest: no class hint there)
				hint := "strict"
				if rel == "manifest.json" {
					hint = ""
				}
				e.attackDir(fmt.Sprintf("truncate %s to %d", rel, l), map[string][]byte{rel: content[:l]}, hint)
			}
			e.attackDir("append garbage to "+rel, map[string][]byte{rel: append(append([]byte{}, content...), []byte("\n{\"x\":1}\n")...)}, "strict")
			// trailing bytes of every lexical class a decoder might stop at: one byte alone, and the byte followed by more
			// (a manifest that still decodes to the same content - trailing white space - may be accepted: no class hint there)
			hint := "strict"
			if rel == "manifest.json" {
				hint = ""
			}
			for _, b := range []byte{'}', ']', '{', '[', ',', ':', '"', '0', 'x', ' ', '\n', 0} {
				e.attackDir(fmt.Sprintf("append byte %q to %s", b, rel), map[string][]byte{rel: append(append([]byte{}, content...), b)}, hint)
				e.attackDir(fmt.Sprintf("append byte %q and more to %s", b, rel), map[string][]byte{rel: append(append(append([]byte{}, content...), b), []byte(" trailing")...)}, hint)
				if n := len(content); n > 0 && content[n-1] == '\n' && b != '\n' {
					e.attackDir(fmt.Sprintf("replace the final newline of %s by %q", rel, b), map[string][]byte{rel: append(append([]byte{}, content[:n-1]...), b)}, "")
				}
			}
			if rel != "manifest.json" {
				e.attackDir("remove "+rel, map[string][]byte{rel: nil}, "strict")
				other, _ := os.ReadFile(filepath.Join(e.dump2, filepath.FromSlash(rel)))
				if len(other) > 0 && !bytes.Equal(other, content) {
					e.attackDir("substitute "+rel+" from another dump", map[string][]byte{rel: other}, "strict")
				}
			}
		}
		var frags []string
		for _, rel := range e.order {
			if rel != "manifest.json" {
				frags = append(frags, rel)
			}
		}
		for i := 0; i+1 < len(frags); i++ {
			e.attackDir("swap "+frags[i]+" and "+frags[i+1], map[string][]byte{frags[i]: e.files[frags[i+1]], frags[i+1]: e.files[frags[i]]}, "strict")
		}
		// manifest field edits through the JSON structure
		var man map[string]any
		json.Unmarshal(e.files["manifest.json"], &man)
		edit := func(what string, f func(m map[string]any)) {
			var m map[string]any
			json.Unmarshal(e.files["manifest.json"], &m)
			f(m)
			b, _ := json.MarshalIndent(m, "", "  ")
			e.attackDir("manifest edit: "+what, map[string][]byte{"manifest.json": b}, "")
		}
		g0 := func(m map[string]any) map[string]any { return m["graphs"].([]any)[0].(map[string]any) }
		f0 := func(m map[string]any, i int) map[string]any { return g0(m)["files"].([]any)[i].(map[string]any) }
		edit("file count +1", func(m map[string]any) { f0(m, 0)["count"] = f0(m, 0)["count"].(float64) + 1 })
		edit("file count and node_count +1", func(m map[string]any) {
			f0(m, 0)["count"] = f0(m, 0)["count"].(float64) + 1
			g0(m)["node_count"] = g0(m)["node_count"].(float64) + 1
		})
		edit("sha256 of another file", func(m map[string]any) { f0(m, 0)["sha256"] = f0(m, 1)["sha256"] })
		lastFile := func(m map[string]any) map[string]any {
			fsl := g0(m)["files"].([]any)
			return fsl[len(fsl)-1].(map[string]any)
		}
		edit("sha256 of the edge file", func(m map[string]any) { lastFile(m)["sha256"] = f0(m, 0)["sha256"] })
		edit("compressed_bytes of the edge file", func(m map[string]any) {
			lastFile(m)["compressed_bytes"] = lastFile(m)["compressed_bytes"].(float64) + 1
		})
		edit("path of another file", func(m map[string]any) { f0(m, 0)["path"] = f0(m, 1)["path"] })
		edit("path escapes the directory", func(m map[string]any) { f0(m, 0)["path"] = "../dump2/" + f0(m, 0)["path"].(string) })
		edit("codec", func(m map[string]any) {
			if m["compression"] == "gzip" {
				m["compression"] = "none"
			} else {
				m["compression"] = "gzip"
			}
		})
		edit("compressed_bytes +1", func(m map[string]any) { f0(m, 0)["compressed_bytes"] = f0(m, 0)["compressed_bytes"].(float64) + 1 })
		edit("drop last file entry", func(m map[string]any) {
			fsl := g0(m)["files"].([]any)
			g0(m)["files"] = fsl[:len(fsl)-1]
		})
		edit("duplicate a file entry", func(m map[string]any) {
			fsl := g0(m)["files"].([]any)
			g0(m)["files"] = append([]any{fsl[0]}, fsl...)
			g0(m)["node_count"] = g0(m)["node_count"].(float64) + fsl[0].(map[string]any)["count"].(float64)
		})
		edit("reorder node files", func(m map[string]any) {
			fsl := g0(m)["files"].([]any)
			fsl[0], fsl[1] = fsl[1], fsl[0]
		})
		edit("generated_at (not consumed)", func(m map[string]any) { m["generated_at"] = "2001-01-01T00:00:00Z" })
		edit("driver (not consumed)", func(m map[string]any) { m["driver"] = "other" })
		edit("id_strategy", func(m map[string]any) { m["id_strategy"] = "other" })
		edit("graph name", func(m map[string]any) { g0(m)["name"] = "gX" })
		// ---- archive attacks
		// the clear-text header (magic, length, JSON header) is small and hashed into every frame's additional data: every
		// offset, rotating mask plus the case bit on letters; the frames: every stride-th offset
		headerEnd, _ := parseFrames(e.enc)
		for off := 0; off < len(e.enc); off++ {
			inHeader := off < headerEnd
			if !inHeader && (off-*seed)%*stride != 0 {
				continue
			}
			masks := []byte{1 << uint((off+*seed)%8)}
			if c := e.enc[off] | 0x20; inHeader && c >= 'a' && c <= 'z' && masks[0] != 0x20 {
				masks = append(masks, 0x20)
			}
			for _, mask := range masks {
				part := "frames"
				if inHeader {
					part = "header"
				}
				e.attackArchive(fmt.Sprintf("flip archive-%s@%d^%02x", part, off, mask), flip(e.enc, off, mask), e.priv, "strict")
			}
		}
		for l := (*seed * 5) % (*stride * 8); l < len(e.enc); l += *stride * 8 {
			e.attackArchive(fmt.Sprintf("truncate archive to %d", l), e.enc[:l], e.priv, "strict")
		}
		e.attackArchive("append a byte", append(append([]byte{}, e.enc...), 0), e.priv, "strict")
		e.attackArchive("append a copy of the archive", append(append([]byte{}, e.enc...), e.enc...), e.priv, "strict")
		e.attackArchive("wrong private key", e.enc, e.otherKey, "strict")
		body, frames := parseFrames(e.enc)
		if len(frames) >= 3 {
			join := func(idx []int) []byte {
				out := append([]byte{}, e.enc[:body]...)
				for _, i := range idx {
					out = append(out, e.enc[frames[i].start:frames[i].end]...)
				}
				return out
			}
			all := func() []int {
				ix := make([]int, len(frames))
				for i := range ix {
					ix[i] = i
				}
				return ix
			}
			for i := 0; i < len(frames); i += 1 + len(frames)/12 {
				ix := all()
				e.attackArchive(fmt.Sprintf("drop frame %d of %d", i, len(frames)), join(append(ix[:i:i], ix[i+1:]...)), e.priv, "strict")
				ix = all()
				dup := append(append(append([]int{}, ix[:i+1]...), i), ix[i+1:]...)
				e.attackArchive(fmt.Sprintf("duplicate frame %d", i), join(dup), e.priv, "strict")
				if i+1 < len(frames) {
					ix = all()
					ix[i], ix[i+1] = ix[i+1], ix[i]
					e.attackArchive(fmt.Sprintf("swap frames %d and %d", i, i+1), join(ix), e.priv, "strict")
				}
			}
			// frames of another archive of the same collection (different encapsulated key)
			var eb2 bytes.Buffer
			retriever.WriteEncryptedCollectionArchive(&eb2, e.dump, pub)
			b2, fr2 := parseFrames(eb2.Bytes())
			if len(fr2) == len(frames) {
				out := append([]byte{}, e.enc[:body]...)
				out = append(out, eb2.Bytes()[b2:]...)
				e.attackArchive("frames of another archive under this header", out, e.priv, "strict")
			}
		}
		// malformed key material
		var kb bytes.Buffer
		retriever.WriteArchivePrivateKey(&kb, e.priv)
		kraw := kb.Bytes()
		for off := *seed % 11; off < len(kraw); off += 11 {
			mk, kerr := retriever.ReadArchivePrivateKey(bytes.NewReader(flip(kraw, off, 1<<uint(off%8))))
			if kerr != nil {
				e.emit("read-key", "strict", fmt.Sprintf("flip key@%d", off), false, kerr.Error(), nil, false, 0, 0, false)
				continue
			}
			// the envelope still parsed: the key it yields must either be the right key or fail to open the archive
			db := fakedb.New()
			_, lerr := retriever.Load(context.Background(), db, "fake", retriever.LoadOptions{ArchiveReader: bytes.NewReader(e.enc), ArchiveIdentity: mk, BatchSize: 2})
			same := lerr == nil && sameLoaded(e.loadedRecs(db), e.base)
			e.emit("read-key+load", "lenient", fmt.Sprintf("flip key@%d", off), lerr == nil, fmt.Sprint(lerr), db, false, 0, 0, same)
		}
		// ---- hostile tar entries
		man0 := e.files["manifest.json"]
		hostile := []struct {
			what    string
			entries []tarEntry
		}{
			{"absolute path", []tarEntry{{name: "/tmp/vh-evil-abs", typeflag: tar.TypeReg, body: []byte("x")}}},
			{"parent traversal", []tarEntry{{name: "../vh-evil-up", typeflag: tar.TypeReg, body: []byte("x")}}},
			{"embedded traversal", []tarEntry{{name: "graphs/../../vh-evil-mid", typeflag: tar.TypeReg, body: []byte("x")}}},
			{"windows volume", []tarEntry{{name: "C:evil", typeflag: tar.TypeReg, body: []byte("x")}}},
			{"backslash path", []tarEntry{{name: "graphs\\..\\..\\vh-evil-bs", typeflag: tar.TypeReg, body: []byte("x")}}},
			{"symlink entry", []tarEntry{{name: "link", typeflag: tar.TypeSymlink, link: "/etc/passwd"}}},
			{"symlink then write through it", []tarEntry{{name: "graphs", typeflag: tar.TypeSymlink, link: ".."}, {name: "graphs/vh-evil-through", typeflag: tar.TypeReg, body: []byte("x")}}},
			{"hardlink entry", []tarEntry{{name: "hl", typeflag: tar.TypeLink, link: "manifest.json"}}},
			{"directory entry", []tarEntry{{name: "graphs/", typeflag: tar.TypeDir}}},
			{"character device", []tarEntry{{name: "dev", typeflag: tar.TypeChar}}},
			{"fifo", []tarEntry{{name: "fifo", typeflag: tar.TypeFifo}}},
			{"duplicate entry", []tarEntry{{name: "manifest.json", typeflag: tar.TypeReg, body: man0}, {name: "manifest.json", typeflag: tar.TypeReg, body: man0}}},
			{"duplicate after cleaning", []tarEntry{{name: "manifest.json", typeflag: tar.TypeReg, body: man0}, {name: "./manifest.json", typeflag: tar.TypeReg, body: man0}}},
			{"unexpected extra file", []tarEntry{{name: "extra.txt", typeflag: tar.TypeReg, body: []byte("x")}}},
			{"empty name", []tarEntry{{name: " ", typeflag: tar.TypeReg, body: []byte("x")}}},
		}
		for _, h := range hostile {
			e.attackTar(h.what, buildTar(h.entries), pub)
		}
		// oversize: header promises more bytes than the stream holds
		if len(e.tarBytes) > 1024 {
			e.attackTar("truncated tar (entry larger than the stream)", e.tarBytes[:len(e.tarBytes)/2], pub)
		}
		// good collection tar plus one hostile entry appended
		good := e.tarBytes
		if idx := bytes.LastIndex(good, make([]byte, 1024)); idx > 0 {
			extra := buildTar([]tarEntry{{name: "../vh-evil-tail", typeflag: tar.TypeReg, body: []byte("x")}})
			e.attackTar("valid collection followed by a traversal entry", append(append([]byte{}, good[:idx]...), extra...), pub)
		}
		total += e.n
		total += crossGraphAttacks(w, 100+hid, codec, filepath.Join(root, codec+"-2g"))
	}
	w.Close()
	// anything that escaped to well-known places
	for _, p := range []string{"/tmp/vh-evil-abs"} {
		if _, err := os.Stat(p); err == nil {
			os.Remove(p)
			fmt.Printf("{\"escaped\":%q}\n", p)
		}
	}
	_ = io.Discard
	fmt.Printf("{\"attacks\":%d}\n", total)
}

// crossGraphAttacks: a dump of two graphs in which one graph's relationship fragment is replaced by the other graph's,
// with the manifest entry (hash, sizes, counts) rewritten to match - a consistent forgery that only the semantic
// preflight (do the endpoints exist in that graph?) can refuse, and it has to refuse before anything is written.
func crossGraphAttacks(w *tr.Writer, hid int, codec, root string) int {
	n := crossGraphAttacksWith(w, hid, codec, root, false)
	if codec == "none" {
		// the same forgeries on a dump whose source ids are not decimal numbers (an archive written by a producer with
		// another id strategy): uncompressed fragments only, rewritten with their manifest entries
		n += crossGraphAttacksWith(w, hid+50, codec, root+"-opaque", true)
	}
	return n
}

// opaqueIDs rewrites every id of an uncompressed fragment ("12" -> "4:src:12") and returns the new content.
func opaqueIDs(content []byte) []byte {
	var out bytes.Buffer
	for _, line := range bytes.Split(content, []byte("\n")) {
		if len(bytes.TrimSpace(line)) == 0 {
			continue
		}
		var rec map[string]any
		if json.Unmarshal(line, &rec) != nil {
			out.Write(line)
			out.WriteByte('\n')
			continue
		}
		for _, k := range []string{"id", "start_id", "end_id"} {
			if v, ok := rec[k].(string); ok {
				rec[k] = "4:src:" + v
			}
		}
		b, _ := json.Marshal(rec)
		out.Write(b)
		out.WriteByte('\n')
	}
	return out.Bytes()
}

func crossGraphAttacksWith(w *tr.Writer, hid int, codec, root string, opaque bool) int {
	cfg := Config{Graphs: []GraphCfg{{"g0", 3, 2}, {"g1", 2, 1}}, Shard: 2, Batch: 2, Codec: codec}
	e := &attackEnv{cfg: cfg, w: w, hid: hid, root: root, files: map[string][]byte{}}
	os.MkdirAll(e.root, 0o755)
	e.dump = filepath.Join(e.root, "dump")
	if _, err := retriever.Dump(context.Background(), cfg.BuildRichDB(false), "fake", cfg.targets(), cfg.dumpOptions(e.dump, 0)); err != nil {
		tr.Fatal("two-graph dump: %v", err)
	}
	filepath.WalkDir(e.dump, func(p string, d os.DirEntry, err error) error {
		if err == nil && !d.IsDir() {
			rel, _ := filepath.Rel(e.dump, p)
			b, _ := os.ReadFile(p)
			e.files[filepath.ToSlash(rel)] = b
			e.order = append(e.order, filepath.ToSlash(rel))
		}
		return nil
	})
	if opaque {
		// rewrite the fragments and their manifest entries (hash, sizes), drop the metrics (they name no ids but the
		// loader recomputes them against what it reads), write the rewritten dump back so that the baseline load reads it
		var m map[string]any
		if json.Unmarshal(e.files["manifest.json"], &m) != nil {
			tr.Fatal("two-graph manifest")
		}
		for _, g := range m["graphs"].([]any) {
			for _, f := range g.(map[string]any)["files"].([]any) {
				fm := f.(map[string]any)
				rel := fm["path"].(string)
				nc := opaqueIDs(e.files[rel])
				e.files[rel] = nc
				sum := sha256.Sum256(nc)
				fm["sha256"] = hex.EncodeToString(sum[:])
				fm["compressed_bytes"], fm["uncompressed_bytes"] = len(nc), len(nc)
			}
		}
		b, _ := json.MarshalIndent(m, "", "  ")
		e.files["manifest.json"] = b
		for rel, content := range e.files {
			os.WriteFile(filepath.Join(e.dump, filepath.FromSlash(rel)), content, 0o644)
		}
	}
	bm, _ := consumedOf(e.files["manifest.json"])
	e.baseMan = bm
	db := fakedb.New()
	lo := retriever.DefaultLoadOptions(e.dump)
	lo.BatchSize = 2
	if _, err := retriever.Load(context.Background(), db, "fake", lo); err != nil {
		if opaque {
			// this loader does not take such a dump at all: nothing to forge
			return 0
		}
		tr.Fatal("two-graph baseline load: %v", err)
	}
	e.base = e.loadedRecs(db)
	w.Emit(map[string]any{"e": "src", "hid": hid, "cfg": cfg, "graphs": cfg.srcGraphs(), "sizes": map[string]int{"manifest": len(e.files["manifest.json"]), "tar": 0, "enc": 0}})
	tag := ""
	if opaque {
		tag = "non-decimal ids: "
	}
	e.attackDir(tag+"control", map[string][]byte{}, "lenient")
	var man map[string]any
	if json.Unmarshal(e.files["manifest.json"], &man) != nil {
		tr.Fatal("two-graph manifest")
	}
	graphs := man["graphs"].([]any)
	edgeFile := func(g map[string]any) map[string]any {
		for _, f := range g["files"].([]any) {
			fm := f.(map[string]any)
			if ph, _ := fm["phase"].(string); strings.Contains(ph, "edge") || strings.Contains(ph, "relationship") {
				return fm
			}
		}
		return nil
	}
	for from := range graphs {
		for to := range graphs {
			src, dst := edgeFile(graphs[from].(map[string]any)), edgeFile(graphs[to].(map[string]any))
			if from == to || src == nil || dst == nil {
				continue
			}
			var m map[string]any
			json.Unmarshal(e.files["manifest.json"], &m)
			tg := m["graphs"].([]any)[to].(map[string]any)
			tf := edgeFile(tg)
			oldCount, _ := tf["count"].(float64)
			for _, k := range []string{"count", "compressed_bytes", "uncompressed_bytes", "sha256", "action_counts"} {
				tf[k] = src[k]
			}
			newCount, _ := tf["count"].(float64)
			if ec, ok := tg["edge_count"].(float64); ok {
				tg["edge_count"] = ec - oldCount + newCount
			}
			delete(m, "metrics")
			b, _ := json.MarshalIndent(m, "", "  ")
			what := tag + fmt.Sprintf("relationship fragment of %s replaced by that of %s, manifest entry rewritten to match", tg["name"], graphs[from].(map[string]any)["name"])
			e.attackDir(what, map[string][]byte{dst["path"].(string): e.files[src["path"].(string)], "manifest.json": b}, "strict")
		}
	}
	return e.n
}

package dumparea

import (
	"context"
	"encoding/json"
	"flag"
	"fmt"
	"os"
	"path/filepath"
	"sort"
	"strconv"

	"dawgsverif/fakedb"
	"dawgsverif/internal/tr"

	"github.com/specterops/dawgs/graph"
	"github.com/specterops/dawgs/retriever"
)

// value catalogue for property fidelity: what JSON can carry and a graph database typically holds
// catalogue: every entity carries two of the eight value groups (i and i+4), so that three nodes and two relationships
// already cover all of them.
func catalogue(i int, id int) map[string]any {
	base := catalogueOne(i, id)
	for k, v := range catalogueOne(i+4, id) {
		base[k] = v
	}
	return base
}

func catalogueOne(i int, id int) map[string]any {
	base := map[string]any{"v": id}
	switch i % 8 {
	case 0:
		base["name"] = "plain"
	case 1:
		base["name"] = "unicøde 世界 \U0001F600 \"quoted\" \\ /  "
		base["tags"] = []any{"a", "b", ""}
	case 2:
		base["nested"] = map[string]any{"k": []any{1, 2.5, "x", true, nil}, "m": map[string]any{"deep": []any{}}}
	case 3:
		base["f"] = 0.1
		base["neg"] = -7
		base["flag"] = false
	case 4:
		base["empty"] = ""
		base["list"] = []any{}
	case 5:
		base["big"] = 9007199254740991 // largest integer a float64 holds exactly
	case 6:
		base["html"] = "<a href='x'>&amp;</a>"
		base["ctl"] = "tab\tnl\n"
	case 7:
		base["f2"] = 1e21
		base["zero"] = 0
		base["negbig"] = -3e19
		base["wholes"] = []any{1e20, 2.0, map[string]any{"w": 9.3e18}}
	}
	return base
}

// BuildRichDB is BuildDB with the value catalogue, nodes without kinds, multi-kind nodes and parallel edges.
func (c Config) BuildRichDB(bigInts bool) *fakedb.DB {
	db := fakedb.New()
	for gi, g := range c.Graphs {
		db.G(g.Name)
		nodes := c.nodeIDs(gi)
		for i, id := range nodes {
			var kinds []string
			switch i % 3 {
			case 0:
				kinds = []string{"K0"}
			case 1:
				kinds = []string{"K1", "K0"}
			}
			props := catalogue(i+gi, id)
			if bigInts && i == 0 {
				props["filetime"] = int64(133497924000000001) // beyond 2^53
			}
			db.AddNode(g.Name, uint64(id), props, kinds...)
		}
		for j, id := range c.edgeIDs(gi) {
			// j%len and (j*2+1)%len give parallel edges and self loops on tiny graphs
			props := catalogue(j+3, id)
			delete(props, "v")
			props["eid"] = id
			db.AddRel(g.Name, uint64(id), uint64(nodes[j%len(nodes)]), uint64(nodes[(j*2+1)%len(nodes)]), "E"+strconv.Itoa(j%2), props)
		}
	}
	return db
}

func canon(v any) string {
	b, err := json.Marshal(v) // map keys sorted; values in JSON form, which is what "JSON-equal" compares
	if err != nil {
		return "!" + err.Error()
	}
	return string(b)
}

func num(v any) int {
	switch t := v.(type) {
	case int:
		return t
	case int64:
		return int(t)
	case float64:
		return int(t)
	case json.Number:
		n, _ := t.Int64()
		return int(n)
	}
	return -1
}

type graphRecs struct {
	Name     string   `json:"name"`
	SrcNodes []string `json:"src_nodes"`
	DstNodes []string `json:"dst_nodes"`
	SrcEdges []string `json:"src_edges"`
	DstEdges []string `json:"dst_edges"`
}

// records renders a graph as canonical strings: nodes "v|kinds|props", edges "eid|start v|end v|kind|props"; node
// identity is the marker property v, so the loader's id correspondence is checked through the data itself.
func records(g *fakedb.Graph) ([]string, []string) {
	vOf := map[graph.ID]int{}
	nodes, edges := []string{}, []string{}
	for _, n := range g.Nodes {
		v := num(n.Properties.MapOrEmpty()["v"])
		vOf[n.ID] = v
		ks := n.Kinds.Strings()
		sort.Strings(ks)
		nodes = append(nodes, fmt.Sprintf("%d|%s|%s", v, canon(ks), canon(n.Properties.MapOrEmpty())))
	}
	for _, r := range g.Rels {
		kind := ""
		if r.Kind != nil {
			kind = r.Kind.String()
		}
		sv, ok1 := vOf[r.StartID]
		ev, ok2 := vOf[r.EndID]
		if !ok1 {
			sv = -1
		}
		if !ok2 {
			ev = -1
		}
		edges = append(edges, fmt.Sprintf("%d|%d|%d|%s|%s", num(r.Properties.MapOrEmpty()["eid"]), sv, ev, kind, canon(r.Properties.MapOrEmpty())))
	}
	sort.Strings(nodes)
	sort.Strings(edges)
	return nodes, edges
}

func (c Config) srcGraphs() []srcGraph {
	var out []srcGraph
	for gi, g := range c.Graphs {
		out = append(out, srcGraph{Name: g.Name, Nodes: c.nodeIDs(gi), Edges: c.edgeIDs(gi)})
	}
	return out
}

// Roundtrip: real Dump of the rich source, real Load into an empty database, real Verify of the loaded database and
// of edited copies of it.
func Roundtrip(args []string) {
	fs := flag.NewFlagSet("dump roundtrip", flag.ExitOnError)
	in := fs.String("in", "cfgs.ndjson", "")
	outp := fs.String("out", "trace.ndjson", "")
	big := fs.Bool("bigints", false, "include an integer property beyond 2^53")
	loadBatch := fs.Int("load-batch", 0, "load batch size (0 = the configuration's batch size)")
	zero := fs.Bool("zero-ids", false, "the first node and relationship of the first graph have database id 0")
	reverse := fs.Bool("reverse-targets", false, "name the dump targets in reverse order")
	fs.Parse(args)
	if *zero {
		UseZeroIDs()
	}
	_ = reverse
	root, err := os.MkdirTemp("", "vh-rt")
	if err != nil {
		tr.Fatal("mkdtemp: %v", err)
	}
	defer os.RemoveAll(root)
	w := tr.Create(*outp)
	for hid, cfg := range tr.ReadLines[Config](*in) {
		asGiven := cfg
		if *reverse {
			// the graphs of the configuration, and with them the dump targets, in reverse order: names no longer sorted
			gs := append([]GraphCfg{}, cfg.Graphs...)
			for i, j := 0, len(gs)-1; i < j; i, j = i+1, j-1 {
				gs[i], gs[j] = gs[j], gs[i]
			}
			cfg.Graphs = gs
		}
		dir := filepath.Join(root, fmt.Sprintf("d%d", hid))
		src := cfg.BuildRichDB(*big)
		w.Emit(map[string]any{"e": "src", "hid": hid, "cfg": asGiven, "graphs": cfg.srcGraphs(), "bigints": *big, "ends": edgeEnds(cfg, src)})
		_, derr := retriever.Dump(context.Background(), src, "fake", cfg.targets(), cfg.dumpOptions(dir, 0))
		ev := map[string]any{"e": "dumped", "hid": hid, "ok": derr == nil, "err": fmt.Sprint(derr), "dir": Project(dir), "metrics": manifestMetrics(dir)}
		w.Emit(ev)
		if derr != nil {
			continue
		}
		dst := fakedb.New()
		lo := retriever.DefaultLoadOptions(dir)
		lo.BatchSize = cfg.Batch
		if *loadBatch > 0 {
			lo.BatchSize = *loadBatch
		}
		_, lerr := retriever.Load(context.Background(), dst, "fake", lo)
		var recs []graphRecs
		for _, g := range cfg.Graphs {
			sn, se := records(src.G(g.Name))
			dn, de := records(dst.G(g.Name))
			recs = append(recs, graphRecs{g.Name, sn, dn, se, de})
		}
		w.Emit(map[string]any{"e": "loaded", "hid": hid, "ok": lerr == nil, "err": fmt.Sprint(lerr), "nodewrites": dst.NodeWrite,
			"relwrites": dst.RelWrite, "graphs": recs})
		if lerr != nil {
			continue
		}
		vo := retriever.DefaultVerifyOptions(dir)
		vo.BatchSize = cfg.Batch
		verify := func(mutation string, db *fakedb.DB) {
			_, verr := retriever.Verify(context.Background(), db, "fake", vo)
			w.Emit(map[string]any{"e": "verify", "hid": hid, "mutation": mutation, "ok": verr == nil, "err": fmt.Sprint(verr)})
		}
		verify("none", dst)
		// metric-changing edits of the loaded database, one at a time (each undone afterwards)
		g0 := dst.G(cfg.Graphs[0].Name)
		dst.AddNode(cfg.Graphs[0].Name, 900001, map[string]any{"v": -5}, "K0")
		verify("add-node", dst)
		g0.Nodes = g0.Nodes[:len(g0.Nodes)-1]
		if len(g0.Nodes) > 0 {
			saved := g0.Nodes[0].Kinds
			g0.Nodes[0].Kinds = graph.StringsToKinds([]string{"Other"})
			verify("change-kind", dst)
			g0.Nodes[0].Kinds = saved
		}
		if len(g0.Rels) > 0 {
			saved := g0.Rels
			g0.Rels = g0.Rels[1:]
			verify("remove-edge", dst)
			g0.Rels = saved
			// move one endpoint of a relationship to another node, if that changes the out- (in-) degree distribution
			for _, end := range []string{"start", "end"} {
				if ri, ni, ok := rewire(g0, end); ok {
					r := g0.Rels[ri]
					old := r.StartID
					if end == "end" {
						old = r.EndID
						r.EndID = g0.Nodes[ni].ID
					} else {
						r.StartID = g0.Nodes[ni].ID
					}
					verify("rewire-"+end, dst)
					if end == "end" {
						r.EndID = old
					} else {
						r.StartID = old
					}
				}
			}
		}
		verify("none", dst)
	}
	w.Close()
	fmt.Printf("{\"events\":%d}\n", w.N)
}

// edgeEnds: per graph, the endpoints of every relationship as marker values <<start v, end v>>, in id order.
func edgeEnds(cfg Config, db *fakedb.DB) [][][2]int {
	out := [][][2]int{}
	for _, g := range cfg.Graphs {
		vOf := map[graph.ID]int{}
		for _, n := range db.G(g.Name).Nodes {
			vOf[n.ID] = num(n.Properties.MapOrEmpty()["v"])
		}
		ends := [][2]int{}
		for _, r := range db.G(g.Name).Rels {
			ends = append(ends, [2]int{vOf[r.StartID], vOf[r.EndID]})
		}
		out = append(out, ends)
	}
	return out
}

type metricsProj struct {
	Name  string   `json:"name"`
	Nodes int      `json:"nodes"`
	Edges int      `json:"edges"`
	In    [][2]int `json:"in"` // <<degree, number of nodes>>
	Out   [][2]int `json:"out"`
	Total [][2]int `json:"total"`
}

func histPairs(h map[string]int64) [][2]int {
	out := [][2]int{}
	for k, v := range h {
		d, err := strconv.Atoi(k)
		if err != nil {
			d = -1
		}
		out = append(out, [2]int{d, int(v)})
	}
	sort.Slice(out, func(i, j int) bool { return out[i][0] < out[j][0] })
	return out
}

func manifestMetrics(dir string) []metricsProj {
	out := []metricsProj{}
	raw, err := os.ReadFile(filepath.Join(dir, "manifest.json"))
	if err != nil {
		return out
	}
	var m retriever.Manifest
	if json.Unmarshal(raw, &m) != nil || m.Metrics == nil {
		return out
	}
	for _, g := range m.Metrics.Graphs {
		out = append(out, metricsProj{g.Name, int(g.NodeCount), int(g.EdgeCount), histPairs(g.InDegreeHistogram), histPairs(g.OutDegreeHistogram), histPairs(g.TotalDegreeHistogram)})
	}
	return out
}

func degreeMultiset(g *fakedb.Graph, out bool) string {
	deg := map[graph.ID]int{}
	for _, n := range g.Nodes {
		deg[n.ID] = 0
	}
	for _, r := range g.Rels {
		if out {
			deg[r.StartID]++
		} else {
			deg[r.EndID]++
		}
	}
	var ds []int
	for _, d := range deg {
		ds = append(ds, d)
	}
	sort.Ints(ds)
	return fmt.Sprint(ds)
}

// rewire looks for a relationship and a node with the same kinds as its current start (end) such that moving the
// endpoint there changes the out- (in-) degree distribution: an edit the manifest's metrics can see.
func rewire(g *fakedb.Graph, end string) (int, int, bool) {
	before := degreeMultiset(g, end == "start")
	for ri, r := range g.Rels {
		cur := r.StartID
		if end == "end" {
			cur = r.EndID
		}
		for ni, n := range g.Nodes {
			if n.ID == cur {
				continue
			}
			if end == "start" {
				r.StartID = n.ID
			} else {
				r.EndID = n.ID
			}
			after := degreeMultiset(g, end == "start")
			if end == "start" {
				r.StartID = cur
			} else {
				r.EndID = cur
			}
			if after != before {
				return ri, ni, true
			}
		}
	}
	return 0, 0, false
}

// Package dumparea binds spec/Retriever to retriever.Dump / Load / Verify running on the in-memory fake database.
package dumparea

import (
	"bufio"
	"compress/gzip"
	"crypto/sha256"
	"encoding/hex"
	"encoding/json"
	"fmt"
	"io"
	"os"
	"path/filepath"
	"sort"
	"strconv"
	"strings"
	"time"

	"dawgsverif/fakedb"

	"github.com/klauspost/compress/zstd"
	"github.com/specterops/dawgs/retriever"
)

type GraphCfg struct {
	Name  string `json:"name"`
	Nodes int    `json:"nodes"`
	Edges int    `json:"edges"`
}

type Config struct {
	Graphs []GraphCfg `json:"graphs"`
	Shard  int        `json:"shard"`
	Batch  int        `json:"batch"`
	Codec  string     `json:"codec"`
	// ZeroIDs: the first node and the first relationship of the first graph have database id 0 (Neo4j numbers from 0)
	ZeroIDs bool `json:"zero_ids,omitempty"`
	// Scrub "full": every run of the scenario scrubs with the same salt (the manifest then carries action counts)
	Scrub string `json:"scrub,omitempty"`
}

var nodeOffsets = []int{5, 9, 14, 20, 21, 33, 47, 48}
var edgeOffsets = []int{503, 508, 509, 515, 530, 531}

func (c Config) nodeIDs(gi int) []int {
	out := []int{}
	for i := 0; i < c.Graphs[gi].Nodes; i++ {
		if c.ZeroIDs && gi == 0 && i == 0 {
			out = append(out, 0)
			continue
		}
		out = append(out, gi*1000+nodeOffsets[i])
	}
	return out
}

func (c Config) edgeIDs(gi int) []int {
	out := []int{}
	if c.Graphs[gi].Nodes == 0 {
		return out
	}
	for i := 0; i < c.Graphs[gi].Edges; i++ {
		if c.ZeroIDs && gi == 0 && i == 0 {
			out = append(out, 0)
			continue
		}
		out = append(out, gi*1000+edgeOffsets[i])
	}
	return out
}

// BuildDB materialises the source database of a configuration; extraNode adds one node to the first graph (a
// count-changing source change).
func (c Config) BuildDB(extraNode bool) *fakedb.DB {
	db := fakedb.New()
	for gi, g := range c.Graphs {
		db.G(g.Name)
		nodes := c.nodeIDs(gi)
		for i, id := range nodes {
			kinds := []string{"K" + strconv.Itoa(i%2)}
			if i%3 == 2 {
				kinds = nil
			}
			db.AddNode(g.Name, uint64(id), map[string]any{"name": "n" + strconv.Itoa(id), "v": id}, kinds...)
		}
		for j, id := range c.edgeIDs(gi) {
			db.AddRel(g.Name, uint64(id), uint64(nodes[j%len(nodes)]), uint64(nodes[(j*2+1)%len(nodes)]), "E"+strconv.Itoa(j%2), map[string]any{"eid": id})
		}
		if extraNode && gi == 0 {
			db.AddNode(g.Name, uint64(gi*1000+99), map[string]any{"name": "extra"}, "K0")
		}
	}
	return db
}

// ReverseTargets makes targets() name the graphs in reverse (not name-sorted) order.
var ReverseTargets bool

// UseZeroIDs gives the first node and the first relationship of the first graph the database id 0.
func UseZeroIDs() {
	nodeOffsets[0], edgeOffsets[0] = 0, 0
}

func (c Config) targets() []retriever.GraphTarget {
	var ts []retriever.GraphTarget
	for _, g := range c.Graphs {
		ts = append(ts, retriever.GraphTarget{Name: g.Name})
	}
	if ReverseTargets {
		for i, j := 0, len(ts)-1; i < j; i, j = i+1, j-1 {
			ts[i], ts[j] = ts[j], ts[i]
		}
	}
	return ts
}

func (c Config) dumpOptions(dir string, shardOverride int) retriever.DumpOptions {
	o := retriever.DefaultDumpOptions(dir)
	o.Compression = retriever.CompressionCodec(c.Codec)
	o.ShardSize, o.BatchSize = c.Shard, c.Batch
	if shardOverride > 0 {
		o.ShardSize = shardOverride
	}
	return o
}

// ---- projection of an output directory -------------------------------------------------------------------------

type FileProj struct {
	Path   string `json:"path"`
	Phase  string `json:"phase"`
	Count  int    `json:"count"`
	Exists bool   `json:"exists"`
	ShaOK  bool   `json:"sha_ok"`
	SizeOK bool   `json:"size_ok"`
}

type GraphProj struct {
	Name      string     `json:"name"`
	NodeCount int        `json:"node_count"`
	EdgeCount int        `json:"edge_count"`
	Files     []FileProj `json:"files"`
}

type FragProj struct {
	Path     string `json:"path"`
	Readable bool   `json:"readable"`
	IDs      []int  `json:"ids"`
	Sha      string `json:"sha"`
}

type DirProj struct {
	HasManifest   bool `json:"has_manifest"`
	ManifestValid bool `json:"manifest_valid"`
	// ManifestDigest: hash of the manifest with its generation time blanked - everything else in it is a function of
	// the source and the options
	ManifestDigest string      `json:"manifest_digest"`
	Graphs         []GraphProj `json:"graphs"`
	HasCkpt        bool        `json:"has_ckpt"`
	CkptParsed     bool        `json:"ckpt_parsed"`
	CkptFiles      []string    `json:"ckpt_files"`    // fragments the checkpoint records as committed
	CkptSnapshot   bool        `json:"ckpt_snapshot"` // the checkpoint holds entity counts of the source (of a completed or the current graph)
	Frags          []FragProj  `json:"frags"`
	Temps          []string    `json:"temps"`
	Other          []string    `json:"other"`
}

func sha256File(p string) (string, int64) {
	f, err := os.Open(p)
	if err != nil {
		return "", -1
	}
	defer f.Close()
	h := sha256.New()
	n, _ := io.Copy(h, f)
	return hex.EncodeToString(h.Sum(nil)), n
}

func decodeFragment(p string) ([]int, bool) {
	f, err := os.Open(p)
	if err != nil {
		return []int{}, false
	}
	defer f.Close()
	var r io.Reader = f
	switch {
	case strings.HasSuffix(p, ".gz"):
		gz, err := gzip.NewReader(f)
		if err != nil {
			return []int{}, false
		}
		r = gz
	case strings.HasSuffix(p, ".zst"):
		zr, err := zstd.NewReader(f)
		if err != nil {
			return []int{}, false
		}
		defer zr.Close()
		r = zr
	}
	ids := []int{}
	sc := bufio.NewScanner(r)
	sc.Buffer(make([]byte, 1<<16), 1<<24)
	for sc.Scan() {
		var rec struct {
			ID         string         `json:"id"`
			Properties map[string]any `json:"properties"`
		}
		if err := json.Unmarshal(sc.Bytes(), &rec); err != nil {
			return ids, false
		}
		if rec.ID != "" {
			n, err := strconv.Atoi(rec.ID)
			if err != nil {
				return ids, false
			}
			ids = append(ids, n)
		} else if v, ok := rec.Properties["eid"].(float64); ok {
			ids = append(ids, int(v))
		} else {
			return ids, false
		}
	}
	if sc.Err() != nil {
		return ids, false
	}
	return ids, true
}

// Project reads a dump directory the way an outside observer would: no retriever code involved except the JSON
// shapes of manifest and checkpoint.
func Project(dir string) DirProj {
	p := DirProj{Graphs: []GraphProj{}, CkptFiles: []string{}, Frags: []FragProj{}, Temps: []string{}, Other: []string{}}
	if raw, err := os.ReadFile(filepath.Join(dir, "manifest.json")); err == nil {
		p.HasManifest = true
		var m retriever.Manifest
		if json.Unmarshal(raw, &m) == nil {
			p.ManifestValid = true
			m2 := m
			m2.GeneratedAt = time.Time{}
			if canon, err := json.Marshal(m2); err == nil {
				sum := sha256.Sum256(canon)
				p.ManifestDigest = hex.EncodeToString(sum[:8])
			}
			for _, g := range m.Graphs {
				gp := GraphProj{Name: g.Name, NodeCount: int(g.NodeCount), EdgeCount: int(g.EdgeCount), Files: []FileProj{}}
				for _, f := range g.Files {
					fp := FileProj{Path: f.Path, Phase: string(f.Phase), Count: f.Count}
					sha, n := sha256File(filepath.Join(dir, filepath.FromSlash(f.Path)))
					fp.Exists = n >= 0
					fp.ShaOK = sha == f.SHA256
					fp.SizeOK = n == f.CompressedBytes
					gp.Files = append(gp.Files, fp)
				}
				p.Graphs = append(p.Graphs, gp)
			}
		}
	}
	if raw, err := os.ReadFile(filepath.Join(dir, ".retriever-checkpoint.json")); err == nil {
		p.HasCkpt = true
		var c struct {
			Manifest retriever.Manifest `json:"manifest"`
			Current  *struct {
				Files       []retriever.FileManifest `json:"files"`
				HasSnapshot bool                     `json:"has_snapshot"`
			} `json:"current_graph"`
		}
		if json.Unmarshal(raw, &c) == nil {
			p.CkptParsed = true
			for _, g := range c.Manifest.Graphs {
				for _, f := range g.Files {
					p.CkptFiles = append(p.CkptFiles, f.Path)
				}
			}
			p.CkptSnapshot = len(c.Manifest.Graphs) > 0 || (c.Current != nil && c.Current.HasSnapshot)
			if c.Current != nil {
				for _, f := range c.Current.Files {
					p.CkptFiles = append(p.CkptFiles, f.Path)
				}
			}
		}
	}
	filepath.WalkDir(dir, func(fp string, d os.DirEntry, err error) error {
		if err != nil || d.IsDir() {
			return nil
		}
		rel, _ := filepath.Rel(dir, fp)
		rel = filepath.ToSlash(rel)
		switch {
		case rel == "manifest.json" || rel == ".retriever-checkpoint.json":
		case strings.HasSuffix(rel, ".tmp"):
			p.Temps = append(p.Temps, rel)
		case strings.HasPrefix(rel, "graphs/"):
			ids, ok := decodeFragment(fp)
			sha, _ := sha256File(fp)
			p.Frags = append(p.Frags, FragProj{Path: rel, Readable: ok, IDs: ids, Sha: sha})
		default:
			p.Other = append(p.Other, rel)
		}
		return nil
	})
	sort.Slice(p.Frags, func(i, j int) bool { return p.Frags[i].Path < p.Frags[j].Path })
	sort.Strings(p.Temps)
	sort.Strings(p.Other)
	return p
}

func mustJSON(v any) string {
	b, err := json.Marshal(v)
	if err != nil {
		panic(fmt.Sprint("marshal: ", err))
	}
	return string(b)
}

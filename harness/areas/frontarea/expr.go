package frontarea

import (
	"bytes"
	"encoding/json"
	"flag"
	"fmt"
	"strings"

	"dawgsverif/internal/tr"

	"github.com/specterops/dawgs/cypher/frontend"
	"github.com/specterops/dawgs/cypher/models/cypher"
	cypherFormat "github.com/specterops/dawgs/cypher/models/cypher/format"
	"github.com/specterops/dawgs/cypher/models/walk"
	"github.com/specterops/dawgs/graph"
	"github.com/specterops/dawgs/query"
	queryNeo4j "github.com/specterops/dawgs/query/neo4j"
)

// Term is a builder term as printed by CypherExprGen.tla.
type Term struct {
	B  string `json:"b"`
	V  string `json:"v,omitempty"`
	X  *Term  `json:"x,omitempty"`
	Xs []Term `json:"xs,omitempty"`
}

// atoms: each atom name stands for one concrete criterion whose identity can be read back from the parsed model
// (property name or kind name), so that it survives literal-to-parameter rewriting.
func atomCriteria(set int, name string) graph.Criteria {
	switch set % 3 {
	case 0:
		switch name {
		case "a":
			return query.Equals(query.NodeProperty("a"), 1)
		case "b":
			return query.LessThan(query.NodeProperty("b"), 7)
		default:
			return query.Kind(query.Node(), graph.StringKind("Kc"))
		}
	case 1:
		switch name {
		case "a":
			return query.IsNull(query.NodeProperty("a"))
		case "b":
			return query.In(query.NodeProperty("b"), []string{"x", "y"})
		default:
			return query.GreaterThan(query.NodeProperty("c"), 3)
		}
	default:
		switch name {
		case "a":
			return query.Kind(query.Node(), graph.StringKind("Ka"))
		case "b":
			return query.StringContains(query.NodeProperty("b"), "z")
		default:
			return query.IsNotNull(query.NodeProperty("c"))
		}
	}
}

// relAtomCriteria: atoms over a relationship pattern (s)-[r]->(e); the relationship kind tests are what the Neo4j query
// builder moves from the WHERE clause into the pattern.
func relAtomCriteria(set int, name string) graph.Criteria {
	if set%2 == 0 {
		switch name {
		case "a":
			return query.Equals(query.StartProperty("a"), 1)
		case "b":
			return query.Kind(query.Start(), graph.StringKind("Kb"))
		default:
			return query.Kind(query.Relationship(), graph.StringKind("Kc"))
		}
	}
	switch name {
	case "a":
		return query.Kind(query.Relationship(), graph.StringKind("Ka"))
	case "b":
		return query.Equals(query.EndProperty("b"), 2)
	default:
		return query.Kind(query.Relationship(), graph.StringKind("Kc"))
	}
}

// buildWith builds a term from atoms given by atom; bare = with the cypher model constructors directly (no
// Parenthetical anywhere) instead of the package query combinators.
func buildWith(t Term, bare bool, atom func(name string) graph.Criteria) graph.Criteria {
	switch t.B {
	case "atom":
		return atom(t.V)
	case "not":
		if bare {
			return cypher.NewNegation(buildWith(*t.X, bare, atom))
		}
		return query.Not(buildWith(*t.X, bare, atom))
	}
	var xs []graph.Criteria
	var es []cypher.Expression
	for _, x := range t.Xs {
		c := buildWith(x, bare, atom)
		xs = append(xs, c)
		es = append(es, c)
	}
	switch t.B {
	case "and":
		if bare {
			return cypher.NewConjunction(es...)
		}
		return query.And(xs...)
	case "or":
		if bare {
			return cypher.NewDisjunction(es...)
		}
		return query.Or(xs...)
	case "xor":
		if bare {
			return cypher.NewExclusiveDisjunction(es...)
		}
		return query.Xor(xs...)
	}
	tr.Fatal("bad term %q", t.B)
	return nil
}

// parsedMeaning: the question a parsed single-match query asks - the kinds written into its first relationship
// pattern (any-of) conjoined with its WHERE expression.
func parsedMeaning(q *cypher.RegularQuery) (Tree, bool) {
	if q == nil || q.SingleQuery == nil || q.SingleQuery.SinglePartQuery == nil {
		return Tree{}, false
	}
	for _, rc := range q.SingleQuery.SinglePartQuery.ReadingClauses {
		if rc.Match == nil {
			continue
		}
		var parts []Tree
		if rel := rc.Match.FirstRelationshipPattern(); rel != nil && len(rel.Kinds) > 0 {
			var ks []Tree
			for _, k := range rel.Kinds {
				ks = append(ks, Tree{K: "atom", V: strings.ToLower(strings.TrimPrefix(k.String(), "K"))})
			}
			if len(ks) == 1 {
				parts = append(parts, ks[0])
			} else {
				parts = append(parts, Tree{K: "or", Xs: ks})
			}
		}
		if rc.Match.Where != nil {
			for _, e := range rc.Match.Where.Expressions {
				parts = append(parts, treeOf(e))
			}
		}
		switch len(parts) {
		case 0:
			return Tree{}, false
		case 1:
			return parts[0], true
		}
		return Tree{K: "and", Xs: parts}, true
	}
	return Tree{}, false
}

func buildTerm(set int, t Term) graph.Criteria {
	switch t.B {
	case "atom":
		return atomCriteria(set, t.V)
	case "not":
		return query.Not(buildTerm(set, *t.X))
	}
	var xs []graph.Criteria
	for _, x := range t.Xs {
		xs = append(xs, buildTerm(set, x))
	}
	switch t.B {
	case "and":
		return query.And(xs...)
	case "or":
		return query.Or(xs...)
	case "xor":
		return query.Xor(xs...)
	}
	tr.Fatal("bad term %q", t.B)
	return nil
}

// Tree is the abstract form of a parsed boolean expression (the shape CypherExpr.tla uses).
type Tree struct {
	K  string `json:"k"`
	V  string `json:"v,omitempty"`
	X  *Tree  `json:"x,omitempty"`
	Xs []Tree `json:"xs,omitempty"`
}

func atomID(e cypher.Expression) string {
	switch t := e.(type) {
	case *cypher.Comparison:
		if pl, ok := t.Left.(*cypher.PropertyLookup); ok {
			return pl.Symbol
		}
	case *cypher.KindMatcher:
		if len(t.Kinds) == 1 {
			return strings.ToLower(strings.TrimPrefix(t.Kinds[0].String(), "K"))
		}
	}
	return fmt.Sprintf("?%T", e)
}

func treeOf(e cypher.Expression) Tree {
	list := func(k string, xs []cypher.Expression) Tree {
		if len(xs) == 1 {
			return treeOf(xs[0])
		}
		t := Tree{K: k}
		for _, x := range xs {
			t.Xs = append(t.Xs, treeOf(x))
		}
		return t
	}
	switch t := e.(type) {
	case *cypher.Conjunction:
		return list("and", t.Expressions)
	case *cypher.Disjunction:
		return list("or", t.Expressions)
	case *cypher.ExclusiveDisjunction:
		return list("xor", t.Expressions)
	case *cypher.Negation:
		x := treeOf(t.Expression)
		return Tree{K: "not", X: &x}
	case *cypher.Parenthetical:
		x := treeOf(t.Expression)
		return Tree{K: "paren", X: &x}
	}
	return Tree{K: "atom", V: atomID(e)}
}

func whereOf(q *cypher.RegularQuery) (cypher.Expression, bool) {
	if q == nil || q.SingleQuery == nil || q.SingleQuery.SinglePartQuery == nil {
		return nil, false
	}
	for _, rc := range q.SingleQuery.SinglePartQuery.ReadingClauses {
		if rc.Match != nil && rc.Match.Where != nil && len(rc.Match.Where.Expressions) == 1 {
			return rc.Match.Where.Expressions[0], true
		}
	}
	return nil, false
}

func emitText(q *cypher.RegularQuery) (string, error) {
	var buf bytes.Buffer
	err := cypherFormat.NewCypherEmitter(false).Write(q, &buf)
	return buf.String(), err
}

// Build runs every builder term through the real chain: package query constructors -> query model -> Cypher text
// (plain emitter, and the Neo4j query builder's Render) -> real parser -> abstract tree.
func Build(args []string) {
	fs := flag.NewFlagSet("front build", flag.ExitOnError)
	in := fs.String("in", "terms.ndjson", "")
	outp := fs.String("out", "trace.ndjson", "")
	seed := fs.Int("seed", 1, "")
	fs.Parse(args)
	w := tr.Create(*outp)
	paths := []string{"emitter", "neo4j", "bare", "neo4j-reuse", "neo4j-rel", "neo4j-rel-reuse"}
	for hid, t := range tr.ReadLines[Term](*in) {
		for pi, path := range paths {
			set := hid + *seed
			rel := strings.HasPrefix(path, "neo4j-rel")
			if strings.HasPrefix(path, "neo4j") && !rel {
				// the Neo4j builder deliberately rewrites negated string predicates (adds "or x is null"); that rewrite is
				// not under test here, so this path uses the atom sets without string predicates
				set = (set % 2) + 3*(set/3)
				if set%3 == 2 {
					set--
				}
			}
			atom := func(name string) graph.Criteria { return atomCriteria(set, name) }
			if rel {
				atom = func(name string) graph.Criteria { return relAtomCriteria(set, name) }
			}
			id := func(name string) string { return atomID(atom(name).(cypher.Expression)) }
			// sem_only: the builder moved relationship kind tests into the pattern, so the operator tree is compared by
			// what it means (truth table over the atoms), not by shape
			ev := map[string]any{"e": "c10", "hid": hid*8 + pi, "path": path, "term": t, "sem_only": rel,
				"atoms": map[string]string{"a": id("a"), "b": id("b"), "c": id("c")}, "panic": false, "reparse_ok": false,
				"parsed": Tree{K: "atom", V: "?"}, "text": ""}
			func() {
				defer func() {
					if r := recover(); r != nil {
						ev["panic"] = true
						ev["panicmsg"] = fmt.Sprint(r)
					}
				}()
				crit := buildWith(t, path == "bare", atom)
				var text string
				var err error
				if path == "emitter" || path == "bare" {
					// a model with a match pattern, as any backend prepares it, whose WHERE is the built criteria
					base, berr := frontend.ParseCypher(frontend.NewContext(), "match (n) where n.z = 0 return n")
					if berr != nil {
						tr.Fatal("base query: %v", berr)
					}
					base.SingleQuery.SinglePartQuery.ReadingClauses[0].Match.Where.Expressions[0] = crit.(cypher.Expression)
					// builder criteria carry their literals as unnamed parameters; every backend names them first
					if err = walk.Cypher(base, query.NewParameterRewriter()); err == nil {
						text, err = emitText(base)
					}
				} else {
					render := func() (string, error) {
						qb := queryNeo4j.NewEmptyQueryBuilder()
						qb.Apply(query.Where(crit))
						if rel {
							qb.Apply(query.Returning(query.Relationship()))
						} else {
							qb.Apply(query.Returning(query.Node()))
						}
						if err := qb.Prepare(); err != nil {
							return "", err
						}
						return qb.Render()
					}
					text, err = render()
					if err == nil && strings.HasSuffix(path, "-reuse") {
						// the same criteria value given to a second builder (a count query, then the fetch query)
						text, err = render()
					}
				}
				ev["text"] = text
				if err != nil {
					ev["err"] = err.Error()
					return
				}
				parsed, perr := frontend.ParseCypher(frontend.NewContext(), text)
				if perr != nil {
					ev["err"] = perr.Error()
					return
				}
				if rel {
					if m, ok := parsedMeaning(parsed); ok {
						ev["reparse_ok"] = true
						ev["parsed"] = m
					}
				} else if wexpr, ok := whereOf(parsed); ok {
					ev["reparse_ok"] = true
					ev["parsed"] = treeOf(wexpr)
				}
			}()
			w.Emit(ev)
		}
	}
	// kind matchers built through the model constructors: any-of (IsExclusive = false, what query.Kind / KindIn
	// build) and all-of (IsExclusive = true, what the parser builds for n:A:B), alone and under a negation / conjunction
	hid := 10000000
	for _, exclusive := range []bool{false, true} {
		for _, nk := range []int{1, 2, 3} {
			for _, wrap := range []string{"plain", "not", "and"} {
				var ks graph.Kinds
				for i := 0; i < nk; i++ {
					ks = append(ks, graph.StringKind(fmt.Sprintf("K%d", i)))
				}
				var expr cypher.Expression = cypher.NewKindMatcher(query.Node(), ks, exclusive)
				switch wrap {
				case "not":
					expr = query.Not(expr)
				case "and":
					expr = query.And(expr, query.Equals(query.NodeProperty("a"), 1))
				}
				ev := map[string]any{"e": "kind", "hid": hid, "exclusive": exclusive, "n": nk, "wrap": wrap, "panic": false, "reparse_ok": false,
					"meaning": "?", "kinds": []string{}, "text": ""}
				hid++
				func() {
					defer func() {
						if r := recover(); r != nil {
							ev["panic"] = true
						}
					}()
					base, _ := frontend.ParseCypher(frontend.NewContext(), "match (n) where n.z = 0 return n")
					base.SingleQuery.SinglePartQuery.ReadingClauses[0].Match.Where.Expressions[0] = expr
					if err := walk.Cypher(base, query.NewParameterRewriter()); err != nil {
						return
					}
					text, err := emitText(base)
					ev["text"] = text
					if err != nil {
						return
					}
					parsed, perr := frontend.ParseCypher(frontend.NewContext(), text)
					if perr != nil {
						return
					}
					wexpr, ok := whereOf(parsed)
					if !ok {
						return
					}
					ev["reparse_ok"] = true
					ev["meaning"], ev["kinds"] = kindMeaning(wexpr)
				}()
				w.Emit(ev)
			}
		}
	}
	w.Close()
	fmt.Printf("{\"events\":%d}\n", w.N)
}

// kindMeaning finds the kind test inside a parsed expression and says what it demands: "allof" (one exclusive matcher
// with several kinds, or several matchers joined by and), "anyof" (matchers joined by or, or a non-exclusive matcher),
// "single".
func kindMeaning(e cypher.Expression) (string, []string) {
	var collect func(e cypher.Expression) (string, []string, bool)
	collect = func(e cypher.Expression) (string, []string, bool) {
		switch t := e.(type) {
		case *cypher.Parenthetical:
			return collect(t.Expression)
		case *cypher.Negation:
			return collect(t.Expression)
		case *cypher.KindMatcher:
			var ks []string
			for _, k := range t.Kinds {
				ks = append(ks, k.String())
			}
			if len(ks) == 1 {
				return "single", ks, true
			}
			if t.IsExclusive {
				return "allof", ks, true
			}
			return "anyof", ks, true
		case *cypher.Disjunction, *cypher.Conjunction:
			var xs []cypher.Expression
			join := "anyof"
			if c, ok := t.(*cypher.Conjunction); ok {
				xs, join = c.Expressions, "allof"
			} else {
				xs = t.(*cypher.Disjunction).Expressions
			}
			var all []string
			kindOnly := true
			for _, x := range xs {
				m, ks, ok := collect(x)
				if !ok {
					kindOnly = false
					continue
				}
				if m != "single" {
					return m, ks, true // a nested multi-kind test decides
				}
				all = append(all, ks...)
			}
			if len(all) == 0 {
				return "", nil, false
			}
			if len(all) == 1 {
				return "single", all, true
			}
			_ = kindOnly
			return join, all, true
		}
		return "", nil, false
	}
	m, ks, ok := collect(e)
	if !ok {
		return "none", []string{}
	}
	return m, ks
}

// idOf: what atomID reads back for the concrete criterion standing for an atom name.
func idOf(set int, name string) string {
	return atomID(atomCriteria(set, name).(cypher.Expression))
}

var _ = json.Marshal

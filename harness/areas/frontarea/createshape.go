package frontarea

import (
	"flag"
	"fmt"
	"sort"

	"dawgsverif/internal/tr"

	"github.com/specterops/dawgs/cypher/frontend"
	"github.com/specterops/dawgs/cypher/models/cypher"
	"github.com/specterops/dawgs/cypher/models/walk"
	"github.com/specterops/dawgs/graph"
	"github.com/specterops/dawgs/query"
	queryNeo4j "github.com/specterops/dawgs/query/neo4j"
)

// CreateShape is a create-query descriptor as printed by QueryShape.tla: which endpoints the WHERE clause reads, what
// the CREATE clause names and what is returned.
type CreateShape struct {
	Where  string `json:"where"`  // none | start | end | both
	Create string `json:"create"` // edge-between-bound | edge-new | edge-from-bound-start | edge-to-bound-end | node-new
	Ret    string `json:"ret"`    // none | rel | startid | endid
}

func buildCreateShape(s CreateShape) []graph.Criteria {
	var parts []graph.Criteria
	switch s.Where {
	case "start":
		parts = append(parts, query.Where(query.Equals(query.StartProperty("x"), 1)))
	case "end":
		parts = append(parts, query.Where(query.Equals(query.EndProperty("x"), 1)))
	case "both":
		parts = append(parts, query.Where(query.And(query.Equals(query.StartProperty("x"), 1), query.Equals(query.EndProperty("y"), 2))))
	}
	rel := query.RelationshipPattern(graph.StringKind("E"), query.Parameter(map[string]any{"w": 1}), graph.DirectionOutbound)
	newStart := query.StartNodePattern(graph.Kinds{graph.StringKind("K")}, query.Parameter(map[string]any{"a": 1}))
	newEnd := query.EndNodePattern(graph.Kinds{graph.StringKind("K")}, query.Parameter(map[string]any{"b": 2}))
	switch s.Create {
	case "edge-between-bound":
		parts = append(parts, query.Create(query.Start(), rel, query.End()))
	case "edge-new":
		parts = append(parts, query.Create(newStart, rel, newEnd))
	case "edge-from-bound-start":
		parts = append(parts, query.Create(query.Start(), rel, newEnd))
	case "edge-to-bound-end":
		parts = append(parts, query.Create(newStart, rel, query.End()))
	case "node-new":
		parts = append(parts, query.Create(query.NodePattern(graph.Kinds{graph.StringKind("K")}, query.Parameter(map[string]any{"c": 3}))))
	}
	switch s.Ret {
	case "rel":
		parts = append(parts, query.Returning(query.Relationship()))
	case "startid":
		parts = append(parts, query.Returning(query.StartID()))
	case "endid":
		parts = append(parts, query.Returning(query.EndID()))
	}
	return parts
}

type createFacts struct {
	Refs    []string `json:"refs"`    // variables read by WHERE / RETURN / SET / DELETE
	Bound   []string `json:"bound"`   // variables bound by MATCH patterns
	Created []string `json:"created"` // variables a CREATE pattern introduces (not bound by a MATCH)
	Creates int      `json:"creates"` // number of CREATE clauses
	Ret     string   `json:"ret"`
}

func sortedSet(m map[string]bool) []string {
	out := []string{}
	for k := range m {
		out = append(out, k)
	}
	sort.Strings(out)
	return out
}

// patternVars: the variables a pattern part names (path, nodes, relationships)
func patternVars(pp *cypher.PatternPart, into map[string]bool) {
	if pp == nil {
		return
	}
	if pp.Variable != nil && pp.Variable.Symbol != "" {
		into[pp.Variable.Symbol] = true
	}
	for _, el := range pp.PatternElements {
		if np, ok := el.AsNodePattern(); ok && np.Variable != nil && np.Variable.Symbol != "" {
			into[np.Variable.Symbol] = true
		}
		if rp, ok := el.AsRelationshipPattern(); ok && rp.Variable != nil && rp.Variable.Symbol != "" {
			into[rp.Variable.Symbol] = true
		}
	}
}

func varsOf(n cypher.SyntaxNode, into map[string]bool) {
	_ = walk.Cypher(n, walk.NewSimpleVisitor[cypher.SyntaxNode](func(node cypher.SyntaxNode, _ walk.VisitorHandler) {
		if v, ok := node.(*cypher.Variable); ok && v != nil && v.Symbol != "" {
			into[v.Symbol] = true
		}
	}))
}

// createFactsOf reads a parsed single-part query: what its MATCH binds, what its CREATE introduces, what it reads.
func createFactsOf(q *cypher.RegularQuery) (createFacts, string) {
	f := createFacts{Ret: "none"}
	if q == nil || q.SingleQuery == nil || q.SingleQuery.SinglePartQuery == nil {
		return f, "not a single-part query"
	}
	sp := q.SingleQuery.SinglePartQuery
	bound, refs, created := map[string]bool{}, map[string]bool{}, map[string]bool{}
	for _, rc := range sp.ReadingClauses {
		if rc.Match == nil {
			continue
		}
		for _, pp := range rc.Match.Pattern {
			patternVars(pp, bound)
		}
		if rc.Match.Where != nil {
			varsOf(rc.Match.Where, refs)
		}
	}
	for _, ue := range sp.UpdatingClauses {
		uc, isClause := ue.(*cypher.UpdatingClause)
		if !isClause {
			return f, fmt.Sprintf("updating clause %T", ue)
		}
		switch c := uc.Clause.(type) {
		case *cypher.Create:
			f.Creates++
			in := map[string]bool{}
			for _, pp := range c.Pattern {
				patternVars(pp, in)
			}
			for v := range in {
				if !bound[v] {
					created[v] = true
				}
			}
		default:
			varsOf(uc, refs)
		}
	}
	if sp.Return != nil && sp.Return.Projection != nil {
		varsOf(sp.Return.Projection, refs)
		if items := sp.Return.Projection.Items; len(items) == 1 {
			e := items[0]
			if pi, isItem := e.(*cypher.ProjectionItem); isItem {
				e = pi.Expression
			}
			f.Ret = itemOf(e)
		}
	}
	f.Refs, f.Bound, f.Created = sortedSet(refs), sortedSet(bound), sortedSet(created)
	return f, ""
}

// CreateShapes builds every create-query descriptor with both query builders of the repository - query/neo4j's
// QueryBuilder (text for Neo4j) and query.Builder (the model the PostgreSQL driver translates; written out with the
// Cypher emitter) - parses the text and records what the parsed query binds, creates and reads.
func CreateShapes(args []string) {
	fs := flag.NewFlagSet("front createshapes", flag.ExitOnError)
	in := fs.String("in", "createshapes.ndjson", "")
	outp := fs.String("out", "trace.ndjson", "")
	fs.Parse(args)
	w := tr.Create(*outp)
	hid := 0
	for _, s := range tr.ReadLines[CreateShape](*in) {
		var evs []map[string]any
		for _, builder := range []string{"neo4j", "model"} {
			ev := map[string]any{"e": "c10c", "hid": hid, "builder": builder, "expected": s, "built": false, "panic": false, "reparse_ok": false, "text": "", "note": "",
				"facts": createFacts{Refs: []string{}, Bound: []string{}, Created: []string{}, Ret: "none"}}
			hid++
			func() {
				defer func() {
					if r := recover(); r != nil {
						ev["panic"] = true
						ev["note"] = fmt.Sprint(r)
					}
				}()
				var text string
				if builder == "neo4j" {
					qb := queryNeo4j.NewQueryBuilder(query.SinglePartQuery(buildCreateShape(s)...))
					if err := qb.Prepare(); err != nil {
						ev["note"] = "prepare: " + err.Error()
						return
					}
					t, err := qb.Render()
					if err != nil {
						ev["note"] = "render: " + err.Error()
						return
					}
					text = t
				} else {
					b := query.NewBuilderWithCriteria(buildCreateShape(s)...)
					model, err := b.Build(false)
					if err != nil {
						ev["note"] = "build: " + err.Error()
						return
					}
					// parameters get their names from the rewriter the drivers run before emitting
					if err := walk.Cypher(model, query.NewParameterRewriter()); err != nil {
						ev["note"] = "parameters: " + err.Error()
						return
					}
					t, err := emitText(model)
					if err != nil {
						ev["note"] = "emit: " + err.Error()
						return
					}
					text = t
				}
				ev["built"], ev["text"] = true, text
				parsed, perr := frontend.ParseCypher(frontend.NewContext(), text)
				if perr != nil {
					ev["note"] = "parse: " + perr.Error()
					return
				}
				facts, note := createFactsOf(parsed)
				ev["reparse_ok"], ev["facts"], ev["note"] = true, facts, note
			}()
			evs = append(evs, ev)
		}
		// each builder's event also carries what the other builder's query binds and creates
		for i, ev := range evs {
			peer := evs[1-i]
			pf := peer["facts"].(createFacts)
			ev["peer_ok"] = peer["built"].(bool) && peer["reparse_ok"].(bool)
			ev["peer_bound"], ev["peer_created"] = pf.Bound, pf.Created
			w.Emit(ev)
		}
	}
	w.Close()
	fmt.Printf("{\"events\":%d}\n", w.N)
}

package frontarea

import (
	"flag"
	"fmt"
	"strings"

	"dawgsverif/internal/tr"

	"github.com/specterops/dawgs/cypher/frontend"
	"github.com/specterops/dawgs/cypher/models/cypher"
	"github.com/specterops/dawgs/graph"
	"github.com/specterops/dawgs/query"
	queryNeo4j "github.com/specterops/dawgs/query/neo4j"
)

type orderKey struct {
	K   string `json:"k"`
	Asc bool   `json:"asc"`
}

// Shape is a whole-query descriptor as printed by QueryShape.tla.
type Shape struct {
	Rel      bool       `json:"rel"`
	Ret      []string   `json:"ret"`
	Distinct bool       `json:"distinct"`
	Order    []orderKey `json:"order"`
	Skip     int        `json:"skip"`
	Limit    int        `json:"limit"`
	Upd      []string   `json:"upd"`
}

func shapeItem(item string) graph.Criteria {
	switch item {
	case "node":
		return query.Node()
	case "id":
		return query.NodeID()
	case "kinds":
		return query.KindsOf(query.Node())
	case "count":
		return query.Count(query.Node())
	case "rel":
		return query.Relationship()
	case "relid":
		return query.RelationshipID()
	case "startid":
		return query.StartID()
	}
	if name, ok := strings.CutPrefix(item, "prop:"); ok {
		return query.NodeProperty(name)
	}
	if name, ok := strings.CutPrefix(item, "size:"); ok {
		return query.Size(query.NodeProperty(name))
	}
	if name, ok := strings.CutPrefix(item, "endprop:"); ok {
		return query.EndProperty(name)
	}
	if name, ok := strings.CutPrefix(item, "relprop:"); ok {
		return query.RelationshipProperty(name)
	}
	tr.Fatal("unknown item %q", item)
	return nil
}

// buildShape assembles the query the descriptor stands for with the package query constructors.
func buildShape(s Shape) []graph.Criteria {
	var parts []graph.Criteria
	target := query.Node()
	prop := query.NodeProperty
	if s.Rel {
		parts = append(parts, query.Where(query.Equals(query.RelationshipProperty("x"), 1)))
		target, prop = query.Relationship(), query.RelationshipProperty
	} else {
		parts = append(parts, query.Where(query.Equals(query.NodeProperty("x"), 1)))
	}
	var updates []*cypher.UpdatingClause
	for _, u := range s.Upd {
		kind, arg, _ := strings.Cut(u, ":")
		switch kind {
		case "set":
			updates = append(updates, query.SetProperty(prop(arg), "v-"+arg))
		case "remove":
			updates = append(updates, query.DeleteProperty(prop(arg)))
		case "addkind":
			updates = append(updates, query.AddKind(target, graph.StringKind(arg)))
		case "removekind":
			updates = append(updates, query.DeleteKind(target, graph.StringKind(arg)))
		case "delete":
			parts = append(parts, query.Delete(target))
		}
	}
	if len(updates) > 0 {
		parts = append(parts, query.Update(updates...))
	}
	if len(s.Ret) > 0 {
		var items []graph.Criteria
		for _, it := range s.Ret {
			items = append(items, shapeItem(it))
		}
		if s.Distinct {
			parts = append(parts, query.ReturningDistinct(items...))
		} else {
			parts = append(parts, query.Returning(items...))
		}
	}
	if len(s.Order) > 0 {
		var keys []graph.Criteria
		for _, o := range s.Order {
			dir := query.Descending()
			if o.Asc {
				dir = query.Ascending()
			}
			keys = append(keys, query.Order(shapeItem(o.K), dir))
		}
		parts = append(parts, query.OrderBy(keys...))
	}
	if s.Skip > 0 {
		parts = append(parts, query.Offset(s.Skip))
	}
	if s.Limit > 0 {
		parts = append(parts, query.Limit(s.Limit))
	}
	return parts
}

// itemOf names a parsed expression in the descriptor vocabulary.
func itemOf(e cypher.Expression) string {
	switch t := e.(type) {
	case *cypher.Variable:
		switch t.Symbol {
		case query.NodeSymbol:
			return "node"
		case query.EdgeSymbol:
			return "rel"
		}
		return "var:" + t.Symbol
	case *cypher.PropertyLookup:
		owner := "?"
		if v, ok := t.Atom.(*cypher.Variable); ok {
			owner = v.Symbol
		}
		switch owner {
		case query.NodeSymbol:
			return "prop:" + t.Symbol
		case query.EdgeSymbol:
			return "relprop:" + t.Symbol
		case query.EdgeEndSymbol:
			return "endprop:" + t.Symbol
		case query.EdgeStartSymbol:
			return "startprop:" + t.Symbol
		}
		return owner + "." + t.Symbol
	case *cypher.FunctionInvocation:
		arg := "?"
		if len(t.Arguments) == 1 {
			arg = itemOf(t.Arguments[0])
		}
		switch strings.ToLower(t.Name) {
		case "id":
			return map[string]string{"node": "id", "rel": "relid", "var:" + query.EdgeStartSymbol: "startid", "var:" + query.EdgeEndSymbol: "endid"}[arg]
		case "labels", "type":
			return "kinds"
		case "count":
			return "count"
		case "size":
			return "size:" + strings.TrimPrefix(arg, "prop:")
		}
		return t.Name + "(" + arg + ")"
	case *cypher.Parameter:
		return "$" + t.Symbol
	case *cypher.Literal:
		return fmt.Sprint(t.Value)
	}
	return fmt.Sprintf("%T", e)
}

func intOf(e cypher.Expression, params map[string]any) int {
	switch t := e.(type) {
	case *cypher.Literal:
		if v, ok := t.Value.(int64); ok {
			return int(v)
		}
	case *cypher.Parameter:
		switch v := params[t.Symbol].(type) {
		case int:
			return v
		case int64:
			return int(v)
		}
	}
	return -1
}

// describe reads a parsed single-part query back into a descriptor.
func describe(q *cypher.RegularQuery, params map[string]any) (Shape, string) {
	out := Shape{Ret: []string{}, Order: []orderKey{}, Upd: []string{}}
	if q == nil || q.SingleQuery == nil || q.SingleQuery.SinglePartQuery == nil {
		return out, "not a single-part query"
	}
	sp := q.SingleQuery.SinglePartQuery
	for _, rc := range sp.ReadingClauses {
		if rc.Match != nil && rc.Match.FirstRelationshipPattern() != nil {
			out.Rel = true
		}
	}
	for _, ue := range sp.UpdatingClauses {
		uc, isClause := ue.(*cypher.UpdatingClause)
		if !isClause {
			return out, fmt.Sprintf("updating clause %T", ue)
		}
		switch c := uc.Clause.(type) {
		case *cypher.Set:
			for _, it := range c.Items {
				switch left := it.Left.(type) {
				case *cypher.PropertyLookup:
					val := itemOf(it.Right)
					if p, ok := it.Right.(*cypher.Parameter); ok {
						val = fmt.Sprint(params[p.Symbol])
					}
					if val != "v-"+left.Symbol {
						return out, "set value changed: " + val
					}
					out.Upd = append(out.Upd, "set:"+left.Symbol)
				case *cypher.Variable:
					if ks, ok := it.Right.(graph.Kinds); ok {
						for _, k := range ks {
							out.Upd = append(out.Upd, "addkind:"+k.String())
						}
					} else {
						return out, fmt.Sprintf("set on variable with %T", it.Right)
					}
				default:
					return out, fmt.Sprintf("set item %T", it.Left)
				}
			}
		case *cypher.Remove:
			for _, it := range c.Items {
				if pl, isLookup := it.Property.(*cypher.PropertyLookup); isLookup {
					out.Upd = append(out.Upd, "remove:"+pl.Symbol)
				} else if it.KindMatcher != nil {
					for _, k := range it.KindMatcher.Kinds {
						out.Upd = append(out.Upd, "removekind:"+k.String())
					}
				}
			}
		case *cypher.Delete:
			out.Upd = append(out.Upd, "delete")
		default:
			return out, fmt.Sprintf("updating clause %T", uc.Clause)
		}
	}
	if sp.Return != nil && sp.Return.Projection != nil {
		pr := sp.Return.Projection
		out.Distinct = pr.Distinct
		for _, it := range pr.Items {
			if pi, isItem := it.(*cypher.ProjectionItem); isItem {
				out.Ret = append(out.Ret, itemOf(pi.Expression))
			} else {
				out.Ret = append(out.Ret, itemOf(it))
			}
		}
		if pr.Order != nil {
			for _, si := range pr.Order.Items {
				out.Order = append(out.Order, orderKey{itemOf(si.Expression), si.Ascending})
			}
		}
		if pr.Skip != nil {
			out.Skip = intOf(pr.Skip.Value, params)
		}
		if pr.Limit != nil {
			out.Limit = intOf(pr.Limit.Value, params)
		}
	}
	return out, ""
}

// Shapes builds, renders, parses and describes every whole-query descriptor.
func Shapes(args []string) {
	fs := flag.NewFlagSet("front shapes", flag.ExitOnError)
	in := fs.String("in", "shapes.ndjson", "")
	outp := fs.String("out", "trace.ndjson", "")
	stride := fs.Int("stride", 1, "")
	fs.Parse(args)
	w := tr.Create(*outp)
	for hid, s := range tr.ReadLines[Shape](*in) {
		if hid%*stride != 0 {
			continue
		}
		ev := map[string]any{"e": "c10q", "hid": hid, "expected": s, "built": false, "panic": false, "reparse_ok": false, "parsed": Shape{Ret: []string{}, Order: []orderKey{}, Upd: []string{}}, "text": "", "note": ""}
		func() {
			defer func() {
				if r := recover(); r != nil {
					ev["panic"] = true
					ev["note"] = fmt.Sprint(r)
				}
			}()
			qb := queryNeo4j.NewQueryBuilder(query.SinglePartQuery(buildShape(s)...))
			if err := qb.Prepare(); err != nil {
				ev["note"] = "prepare: " + err.Error()
				return
			}
			text, err := qb.Render()
			if err != nil {
				ev["note"] = "render: " + err.Error()
				return
			}
			ev["built"], ev["text"] = true, text
			parsed, perr := frontend.ParseCypher(frontend.NewContext(), text)
			if perr != nil {
				ev["note"] = "parse: " + perr.Error()
				return
			}
			d, note := describe(parsed, qb.Parameters)
			ev["reparse_ok"], ev["parsed"], ev["note"] = true, d, note
		}()
		w.Emit(ev)
	}
	w.Close()
	fmt.Printf("{\"events\":%d}\n", w.N)
}

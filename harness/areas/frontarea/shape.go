package frontarea

import (
	"flag"
	"fmt"
	"math"
	"reflect"
	"strings"

	"dawgsverif/internal/tr"

	"github.com/specterops/dawgs/cypher/frontend"
	"github.com/specterops/dawgs/cypher/models/cypher"
	"github.com/specterops/dawgs/cypher/models/walk"
	"github.com/specterops/dawgs/graph"
	"github.com/specterops/dawgs/query"
	queryNeo4j "github.com/specterops/dawgs/query/neo4j"
)

type orderKey struct {
	K   string `json:"k"`
	Asc bool   `json:"asc"`
}

// Shape is a whole-query descriptor as printed by QueryShape.tla.
type Shape struct {
	Rel      bool       `json:"rel"`
	Ret      []string   `json:"ret"`
	Distinct bool       `json:"distinct"`
	Order    []orderKey `json:"order"`
	Skip     int        `json:"skip"`
	Limit    int        `json:"limit"`
	Upd      []string   `json:"upd"`
}

func shapeItem(item string) graph.Criteria {
	switch item {
	case "node":
		return query.Node()
	case "id":
		return query.NodeID()
	case "kinds":
		return query.KindsOf(query.Node())
	case "count":
		return query.Count(query.Node())
	case "rel":
		return query.Relationship()
	case "relid":
		return query.RelationshipID()
	case "startid":
		return query.StartID()
	}
	if name, ok := strings.CutPrefix(item, "prop:"); ok {
		return query.NodeProperty(name)
	}
	if name, ok := strings.CutPrefix(item, "size:"); ok {
		return query.Size(query.NodeProperty(name))
	}
	if name, ok := strings.CutPrefix(item, "endprop:"); ok {
		return query.EndProperty(name)
	}
	if name, ok := strings.CutPrefix(item, "relprop:"); ok {
		return query.RelationshipProperty(name)
	}
	tr.Fatal("unknown item %q", item)
	return nil
}

// buildShape assembles the query the descriptor stands for with the package query constructors.
func buildShape(s Shape) []graph.Criteria {
	var parts []graph.Criteria
	target := query.Node()
	prop := query.NodeProperty
	if s.Rel {
		parts = append(parts, query.Where(query.Equals(query.RelationshipProperty("x"), 1)))
		target, prop = query.Relationship(), query.RelationshipProperty
	} else {
		parts = append(parts, query.Where(query.Equals(query.NodeProperty("x"), 1)))
	}
	var updates []*cypher.UpdatingClause
	for _, u := range s.Upd {
		kind, arg, _ := strings.Cut(u, ":")
		switch kind {
		case "set":
			updates = append(updates, query.SetProperty(prop(arg), "v-"+arg))
		case "remove":
			updates = append(updates, query.DeleteProperty(prop(arg)))
		case "addkind":
			updates = append(updates, query.AddKind(target, graph.StringKind(arg)))
		case "removekind":
			updates = append(updates, query.DeleteKind(target, graph.StringKind(arg)))
		case "delete":
			parts = append(parts, query.Delete(target))
		}
	}
	if len(updates) > 0 {
		parts = append(parts, query.Update(updates...))
	}
	if len(s.Ret) > 0 {
		var items []graph.Criteria
		for _, it := range s.Ret {
			items = append(items, shapeItem(it))
		}
		if s.Distinct {
			parts = append(parts, query.ReturningDistinct(items...))
		} else {
			parts = append(parts, query.Returning(items...))
		}
	}
	if len(s.Order) > 0 {
		var keys []graph.Criteria
		for _, o := range s.Order {
			dir := query.Descending()
			if o.Asc {
				dir = query.Ascending()
			}
			keys = append(keys, query.Order(shapeItem(o.K), dir))
		}
		parts = append(parts, query.OrderBy(keys...))
	}
	if s.Skip > 0 {
		parts = append(parts, query.Offset(s.Skip))
	}
	if s.Limit > 0 {
		parts = append(parts, query.Limit(s.Limit))
	}
	return parts
}

// itemOf names a parsed expression in the descriptor vocabulary.
func itemOf(e cypher.Expression) string {
	switch t := e.(type) {
	case *cypher.Variable:
		switch t.Symbol {
		case query.NodeSymbol:
			return "node"
		case query.EdgeSymbol:
			return "rel"
		}
		return "var:" + t.Symbol
	case *cypher.PropertyLookup:
		owner := "?"
		if v, ok := t.Atom.(*cypher.Variable); ok {
			owner = v.Symbol
		}
		switch owner {
		case query.NodeSymbol:
			return "prop:" + t.Symbol
		case query.EdgeSymbol:
			return "relprop:" + t.Symbol
		case query.EdgeEndSymbol:
			return "endprop:" + t.Symbol
		case query.EdgeStartSymbol:
			return "startprop:" + t.Symbol
		}
		return owner + "." + t.Symbol
	case *cypher.FunctionInvocation:
		arg := "?"
		if len(t.Arguments) == 1 {
			arg = itemOf(t.Arguments[0])
		}
		switch strings.ToLower(t.Name) {
		case "id":
			return map[string]string{"node": "id", "rel": "relid", "var:" + query.EdgeStartSymbol: "startid", "var:" + query.EdgeEndSymbol: "endid"}[arg]
		case "labels", "type":
			return "kinds"
		case "count":
			return "count"
		case "size":
			return "size:" + strings.TrimPrefix(arg, "prop:")
		}
		return t.Name + "(" + arg + ")"
	case *cypher.Parameter:
		return "$" + t.Symbol
	case *cypher.Literal:
		return fmt.Sprint(t.Value)
	}
	return fmt.Sprintf("%T", e)
}

func intOf(e cypher.Expression, params map[string]any) int {
	switch t := e.(type) {
	case *cypher.Literal:
		if v, ok := t.Value.(int64); ok {
			return int(v)
		}
	case *cypher.Parameter:
		switch v := params[t.Symbol].(type) {
		case int:
			return v
		case int64:
			return int(v)
		}
	}
	return -1
}

// describe reads a parsed single-part query back into a descriptor.
func describe(q *cypher.RegularQuery, params map[string]any) (Shape, string) {
	out := Shape{Ret: []string{}, Order: []orderKey{}, Upd: []string{}}
	if q == nil || q.SingleQuery == nil || q.SingleQuery.SinglePartQuery == nil {
		return out, "not a single-part query"
	}
	sp := q.SingleQuery.SinglePartQuery
	for _, rc := range sp.ReadingClauses {
		if rc.Match != nil && rc.Match.FirstRelationshipPattern() != nil {
			out.Rel = true
		}
	}
	for _, ue := range sp.UpdatingClauses {
		uc, isClause := ue.(*cypher.UpdatingClause)
		if !isClause {
			return out, fmt.Sprintf("updating clause %T", ue)
		}
		switch c := uc.Clause.(type) {
		case *cypher.Set:
			for _, it := range c.Items {
				switch left := it.Left.(type) {
				case *cypher.PropertyLookup:
					val := itemOf(it.Right)
					if p, ok := it.Right.(*cypher.Parameter); ok {
						val = fmt.Sprint(params[p.Symbol])
					}
					if val != "v-"+left.Symbol {
						return out, "set value changed: " + val
					}
					out.Upd = append(out.Upd, "set:"+left.Symbol)
				case *cypher.Variable:
					if ks, ok := it.Right.(graph.Kinds); ok {
						for _, k := range ks {
							out.Upd = append(out.Upd, "addkind:"+k.String())
						}
					} else {
						return out, fmt.Sprintf("set on variable with %T", it.Right)
					}
				default:
					return out, fmt.Sprintf("set item %T", it.Left)
				}
			}
		case *cypher.Remove:
			for _, it := range c.Items {
				if pl, isLookup := it.Property.(*cypher.PropertyLookup); isLookup {
					out.Upd = append(out.Upd, "remove:"+pl.Symbol)
				} else if it.KindMatcher != nil {
					for _, k := range it.KindMatcher.Kinds {
						out.Upd = append(out.Upd, "removekind:"+k.String())
					}
				}
			}
		case *cypher.Delete:
			out.Upd = append(out.Upd, "delete")
		default:
			return out, fmt.Sprintf("updating clause %T", uc.Clause)
		}
	}
	if sp.Return != nil && sp.Return.Projection != nil {
		pr := sp.Return.Projection
		out.Distinct = pr.Distinct
		for _, it := range pr.Items {
			if pi, isItem := it.(*cypher.ProjectionItem); isItem {
				out.Ret = append(out.Ret, itemOf(pi.Expression))
			} else {
				out.Ret = append(out.Ret, itemOf(it))
			}
		}
		if pr.Order != nil {
			for _, si := range pr.Order.Items {
				out.Order = append(out.Order, orderKey{itemOf(si.Expression), si.Ascending})
			}
		}
		if pr.Skip != nil {
			out.Skip = intOf(pr.Skip.Value, params)
		}
		if pr.Limit != nil {
			out.Limit = intOf(pr.Limit.Value, params)
		}
	}
	return out, ""
}

// failedRender renders queries the emitter gives up on after having written something; errors are what is expected here.
func failedRender() {
	defer func() { _ = recover() }()
	for _, bad := range [][]graph.Criteria{
		{query.Where(query.And(query.Equals(query.NodeProperty("objectid"), "x"), query.Equals(query.NodeProperty(""), 1))), query.Returning(query.Node())},
	} {
		qb := queryNeo4j.NewQueryBuilder(query.SinglePartQuery(bad...))
		if qb.Prepare() == nil {
			_, _ = qb.Render()
		}
	}
}

// Shapes builds, renders, parses and describes every whole-query descriptor.
func Shapes(args []string) {
	fs := flag.NewFlagSet("front shapes", flag.ExitOnError)
	in := fs.String("in", "shapes.ndjson", "")
	outp := fs.String("out", "trace.ndjson", "")
	stride := fs.Int("stride", 1, "")
	fs.Parse(args)
	w := tr.Create(*outp)
	for hid, s := range tr.ReadLines[Shape](*in) {
		if hid%*stride != 0 {
			continue
		}
		// history: every few queries a render that fails half way (an empty property name passes Prepare and makes the
		// emitter fail after it has written part of the text) precedes the one that is checked - what a builder renders
		// is a function of its model, not of what was rendered before
		if hid%5 == 0 {
			failedRender()
		}
		ev := map[string]any{"e": "c10q", "hid": hid, "expected": s, "built": false, "panic": false, "reparse_ok": false, "parsed": Shape{Ret: []string{}, Order: []orderKey{}, Upd: []string{}}, "text": "", "note": ""}
		func() {
			defer func() {
				if r := recover(); r != nil {
					ev["panic"] = true
					ev["note"] = fmt.Sprint(r)
				}
			}()
			qb := queryNeo4j.NewQueryBuilder(query.SinglePartQuery(buildShape(s)...))
			if err := qb.Prepare(); err != nil {
				ev["note"] = "prepare: " + err.Error()
				return
			}
			text, err := qb.Render()
			if err != nil {
				ev["note"] = "render: " + err.Error()
				return
			}
			ev["built"], ev["text"] = true, text
			parsed, perr := frontend.ParseCypher(frontend.NewContext(), text)
			if perr != nil {
				ev["note"] = "parse: " + perr.Error()
				return
			}
			d, note := describe(parsed, qb.Parameters)
			ev["reparse_ok"], ev["parsed"], ev["note"] = true, d, note
		}()
		w.Emit(ev)
	}
	w.Close()
	fmt.Printf("{\"events\":%d}\n", w.N)
}

func literalKind(l *cypher.Literal) string {
	if l == nil {
		return "none"
	}
	if l.Null {
		return "null"
	}
	switch l.Value.(type) {
	case int, int8, int16, int32, int64, uint, uint8, uint16, uint32, uint64:
		return "int"
	case float32, float64:
		return "float"
	case bool:
		return "bool"
	case string:
		return "string"
	}
	return fmt.Sprintf("%T", l.Value)
}

// unquote decodes a Cypher string literal in source form ('...' with backslash escapes).
func unquote(raw string) (string, bool) {
	if len(raw) < 2 || (raw[0] != '\'' && raw[0] != '"') || raw[len(raw)-1] != raw[0] {
		return "", false
	}
	var sb strings.Builder
	body := raw[1 : len(raw)-1]
	for i := 0; i < len(body); i++ {
		if body[i] != '\\' {
			sb.WriteByte(body[i])
			continue
		}
		if i+1 >= len(body) {
			return "", false
		}
		i++
		switch body[i] {
		case 'n':
			sb.WriteByte('\n')
		case 't':
			sb.WriteByte('\t')
		case 'r':
			sb.WriteByte('\r')
		case 'b':
			sb.WriteByte('\b')
		case 'f':
			sb.WriteByte('\f')
		default:
			sb.WriteByte(body[i])
		}
	}
	return sb.String(), true
}

// findLiteral returns the right operand of the comparison whose left side is the property v.
func findLiteral(q *cypher.RegularQuery) (*cypher.Literal, cypher.Expression) {
	var lit *cypher.Literal
	var other cypher.Expression
	_ = walk.CypherStructural(q, walk.NewSimpleVisitor[cypher.SyntaxNode](func(node cypher.SyntaxNode, _ walk.VisitorHandler) {
		if c, ok := node.(*cypher.Comparison); ok {
			if pl, isLookup := c.Left.(*cypher.PropertyLookup); isLookup && pl.Symbol == "v" && len(c.Partials) == 1 {
				switch r := c.Partials[0].Right.(type) {
				case *cypher.Literal:
					lit = r
				case *cypher.UnaryAddOrSubtractExpression:
					// -<literal>: the grammar reads a leading minus as an operator
					operand := r.Right
					if ae, isArith := operand.(*cypher.ArithmeticExpression); isArith && len(ae.Partials) == 0 {
						operand = ae.Left
					}
					if inner, isLit := operand.(*cypher.Literal); isLit && r.Operator == cypher.OperatorSubtract {
						switch v := inner.Value.(type) {
						case int64:
							lit = cypher.NewLiteral(-v, false)
						case float64:
							lit = cypher.NewLiteral(-v, false)
						}
					}
					other = r
				default:
					other = r
				}
			}
		}
	}))
	return lit, other
}

// Literals builds a comparison against every literal of a fixed catalogue with the model constructors, renders it with
// the Neo4j query builder and with the plain emitter, parses the text and reads the literal back: same type, same value.
func Literals(args []string) {
	fs := flag.NewFlagSet("front literals", flag.ExitOnError)
	outp := fs.String("out", "trace.ndjson", "")
	fs.Parse(args)
	type entry struct {
		name string
		lit  *cypher.Literal
		want any
	}
	var cat []entry
	for _, v := range []int64{0, 1, -1, 42, 1 << 31, 1<<53 + 1, math.MaxInt64, math.MinInt64 + 1, -1 << 40} {
		cat = append(cat, entry{fmt.Sprintf("int:%d", v), query.Literal(v), v})
	}
	for _, v := range []float64{1.5, 2, 0.123456789, math.Pi, 16777217, 1234567.891, 0.30000000000000004, 1700000000.123, 5e-324, 1e21, 1e-7, -2.5, math.MaxFloat64, 123456789012345.678} {
		cat = append(cat, entry{fmt.Sprintf("float:%v", v), query.Literal(v), v})
	}
	cat = append(cat, entry{"bool:true", query.Literal(true), true}, entry{"bool:false", query.Literal(false), false}, entry{"null", query.Literal(nil), nil})
	for _, v := range []string{"plain", "it's", `back\slash`, `quote"d`, "new\nline", "tab\there", "unicode 世界 😀", "", "'", `\'`, `ends with backslash\`, "semi;colon -- dash /* c */"} {
		cat = append(cat, entry{"string:" + v, cypher.NewStringLiteral(v), v})
	}
	w := tr.Create(*outp)
	hid := 0
	for _, e := range cat {
		for _, path := range []string{"neo4j", "emitter"} {
			ev := map[string]any{"e": "c10lit", "hid": hid, "literal": e.name, "path": path, "panic": false, "rendered": false, "reparse_ok": false, "expected_type": literalKind(e.lit),
				"parsed_type": "none", "same_value": false, "text": "", "note": ""}
			hid++
			func() {
				defer func() {
					if r := recover(); r != nil {
						ev["panic"], ev["note"] = true, fmt.Sprint(r)
					}
				}()
				crit := query.And(cypher.NewComparison(query.NodeProperty("v"), cypher.OperatorEquals, cypher.Copy(e.lit)), query.Equals(query.NodeProperty("name"), "x"))
				var text string
				var err error
				if path == "neo4j" {
					qb := queryNeo4j.NewQueryBuilder(query.SinglePartQuery(query.Where(crit), query.Returning(query.Node())))
					if err = qb.Prepare(); err == nil {
						text, err = qb.Render()
					}
				} else {
					base, berr := frontend.ParseCypher(frontend.NewContext(), "match (n) where n.z = 0 return n")
					if berr != nil {
						tr.Fatal("base query: %v", berr)
					}
					base.SingleQuery.SinglePartQuery.ReadingClauses[0].Match.Where.Expressions[0] = crit
					if err = walk.Cypher(base, query.NewParameterRewriter()); err == nil {
						text, err = emitText(base)
					}
				}
				if err != nil {
					ev["note"] = "render: " + err.Error()
					return
				}
				ev["rendered"], ev["text"] = true, text
				parsed, perr := frontend.ParseCypher(frontend.NewContext(), text)
				if perr != nil {
					ev["note"] = "parse: " + perr.Error()
					return
				}
				ev["reparse_ok"] = true
				got, other := findLiteral(parsed)
				if got == nil {
					ev["note"] = fmt.Sprintf("no literal read back (%T)", other)
					return
				}
				ev["parsed_type"] = literalKind(got)
				switch want := e.want.(type) {
				case nil:
					ev["same_value"] = got.Null
				case string:
					if raw, isString := got.Value.(string); isString {
						dec, ok := unquote(raw)
						ev["same_value"] = ok && dec == want
					}
				default:
					ev["same_value"] = reflect.DeepEqual(got.Value, want)
				}
			}()
			w.Emit(ev)
		}
	}
	w.Close()
	fmt.Printf("{\"events\":%d}\n", w.N)
}

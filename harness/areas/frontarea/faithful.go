package frontarea

import (
	"flag"
	"fmt"
	"reflect"
	"regexp"
	"sort"
	"strconv"
	"strings"
	"unicode"

	"dawgsverif/internal/tr"

	"github.com/specterops/dawgs/cypher/frontend"
)

// contentTokens: identifiers, literals, operators and range bounds of a Cypher text, normalised so that spelling
// freedom the grammar gives (keyword case, quote style, redundant whitespace) does not matter.  Pure punctuation and
// parentheses are not content.
func contentTokens(q string) []string {
	var out []string
	rs := []rune(q)
	for i := 0; i < len(rs); {
		r := rs[i]
		switch {
		case unicode.IsSpace(r):
			i++
		case r == '\'' || r == '"':
			j := i + 1
			var sb strings.Builder
			for j < len(rs) && rs[j] != r {
				if rs[j] == '\\' && j+1 < len(rs) {
					j++
				}
				sb.WriteRune(rs[j])
				j++
			}
			out = append(out, "s:"+sb.String())
			i = j + 1
		case r == '`':
			j := i + 1
			for j < len(rs) && rs[j] != '`' {
				j++
			}
			out = append(out, "w:"+strings.ToLower(string(rs[i+1:min(j, len(rs))])))
			i = j + 1
		case unicode.IsLetter(r) || r == '_' || r == '$':
			j := i
			for j < len(rs) && (unicode.IsLetter(rs[j]) || unicode.IsDigit(rs[j]) || rs[j] == '_' || rs[j] == '$') {
				j++
			}
			out = append(out, "w:"+strings.ToLower(string(rs[i:j])))
			i = j
		case unicode.IsDigit(r):
			j := i
			hex := i+1 < len(rs) && r == '0' && (rs[i+1] == 'x' || rs[i+1] == 'X')
			for j < len(rs) && (unicode.IsDigit(rs[j]) || unicode.IsLetter(rs[j]) || (rs[j] == '.' && j+1 < len(rs) && unicode.IsDigit(rs[j+1])) ||
				(!hex && (rs[j] == '-' || rs[j] == '+') && (rs[j-1] == 'e' || rs[j-1] == 'E') && j+1 < len(rs) && unicode.IsDigit(rs[j+1]))) {
				j++
			}
			out = append(out, "n:"+numValue(strings.ToLower(string(rs[i:j]))))
			i = j
		default:
			// operators that carry meaning
			for _, op := range []string{"<>", "<=", ">=", "=~", "+=", "..", "=", "<", ">", "+", "-", "*", "/", "%", "^"} {
				if strings.HasPrefix(string(rs[i:min(i+2, len(rs))]), op) {
					out = append(out, "o:"+op)
					i += len([]rune(op)) - 1
					break
				}
			}
			i++
		}
	}
	return out
}

// numValue names a numeric literal by its type and value, so that 2.50 and 2.5, or 1e3 and 1000.0, are the same
// content while 1 and 1.0 are not.
func numValue(t string) string {
	if v, err := strconv.ParseInt(t, 0, 64); err == nil {
		return "i" + strconv.FormatInt(v, 10)
	}
	if v, err := strconv.ParseFloat(t, 64); err == nil {
		return "f" + strconv.FormatFloat(v, 'g', -1, 64)
	}
	return t
}

// synonyms the emitter is free to choose between
var synonyms = map[string]string{"w:descending": "w:desc", "w:ascending": "w:asc", "w:asc": "", "w:as": "w:as"}

func normTokens(ts []string) map[string]int {
	m := map[string]int{}
	for _, t := range ts {
		if s, ok := synonyms[t]; ok {
			t = s
		}
		if t != "" {
			m[t]++
		}
	}
	return m
}

// missingTokens: content tokens of the input that the re-emission has fewer of.
var openRangeRe = regexp.MustCompile(`\*\s*\.\.(\s*[\]\)])`)
var leadingDotRe = regexp.MustCompile(`(^|[^0-9A-Za-z_\)\].])\.([0-9])`)

func missingTokens(in, out string) []string {
	// spelling freedom of the grammar: "*.." is the same unbounded range as "*"; ".5" is the same literal as "0.5"
	in = openRangeRe.ReplaceAllString(in, "*$1")
	in = leadingDotRe.ReplaceAllString(in, "${1}0.$2")
	a, b := normTokens(contentTokens(in)), normTokens(contentTokens(out))
	miss := []string{}
	for t, n := range a {
		// relationship direction arrows and pattern dashes are punctuation, not operators
		if t == "o:-" || t == "o:<" || t == "o:>" {
			continue
		}
		if b[t] < n {
			miss = append(miss, t)
		}
	}
	sort.Strings(miss)
	return miss
}

// Faithful checks, for every text the parser accepts, that the model denotes the text: emit(parse(t)) parses again,
// to an equal model, emits the same text again, and contains the content tokens of t.
func Faithful(args []string) {
	fs := flag.NewFlagSet("front faithful", flag.ExitOnError)
	outp := fs.String("out", "trace.ndjson", "")
	sk := fs.String("skeletons", "", "clause skeletons to render in addition to the corpus")
	fs.Parse(args)
	var texts []fuzzInput
	for _, c := range Corpus() {
		texts = append(texts, fuzzInput{c.Text, "corpus:" + c.Tag})
	}
	for _, in := range fuzzInputs(nil0(), 0, false) {
		if in.class == "statement" {
			texts = append(texts, in)
		}
	}
	if *sk != "" {
		for _, s := range tr.ReadLines[Skeleton](*sk) {
			texts = append(texts, fuzzInput{render(s), "skeleton"})
		}
	}
	w := tr.Create(*outp)
	for hid, in := range texts {
		ev := map[string]any{"e": "c07", "hid": hid, "class": in.class, "text": clip(in.text), "accepted": false, "panic": false, "reparse_ok": false,
			"fixpoint": false, "tokens_ok": false, "missing": []string{}, "emitted": ""}
		func() {
			defer func() {
				if r := recover(); r != nil {
					ev["panic"] = true
					ev["panicmsg"] = fmt.Sprint(r)
				}
			}()
			p1 := parseWith(frontend.NewContext(), in.text)
			if p1.panicky {
				ev["panic"] = true
				return
			}
			if !p1.ok || p1.model == nil {
				return
			}
			ev["accepted"] = true
			t1, err := emitText(p1.model)
			ev["emitted"] = clip(t1)
			if err != nil {
				ev["emit_err"] = err.Error()
				return
			}
			p2 := parseWith(frontend.NewContext(), t1)
			if !p2.ok || p2.model == nil {
				ev["reparse_err"] = p2.err
				return
			}
			ev["reparse_ok"] = true
			t2, _ := emitText(p2.model)
			ev["fixpoint"] = t1 == t2 && reflect.DeepEqual(p1.model, p2.model)
			if t1 == t2 && !reflect.DeepEqual(p1.model, p2.model) {
				ev["model_differs"] = true
			}
			miss := missingTokens(in.text, t1)
			ev["missing"] = miss
			ev["tokens_ok"] = len(miss) == 0
		}()
		w.Emit(ev)
	}
	w.Close()
	fmt.Printf("{\"events\":%d}\n", w.N)
}

func clip(s string) string {
	s = strings.ToValidUTF8(s, "�")
	if len(s) > 300 {
		return s[:300] + "..."
	}
	return s
}

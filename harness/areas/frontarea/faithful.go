package frontarea

import (
	"flag"
	"fmt"
	"reflect"
	"regexp"
	"sort"
	"strconv"
	"strings"
	"unicode"

	"dawgsverif/internal/tr"

	"github.com/specterops/dawgs/cypher/frontend"
)

// contentTokens: identifiers, literals, operators and range bounds of a Cypher text, normalised so that spelling
// freedom the grammar gives (keyword case, quote style, redundant whitespace) does not matter.  Pure punctuation and
// parentheses are not content.
func contentTokens(q string) []string {
	var out []string
	rs := []rune(q)
	for i := 0; i < len(rs); {
		r := rs[i]
		switch {
		case unicode.IsSpace(r):
			i++
		case r == '\'' || r == '"':
			j := i + 1
			var sb strings.Builder
			for j < len(rs) && rs[j] != r {
				if rs[j] == '\\' && j+1 < len(rs) {
					j++
				}
				sb.WriteRune(rs[j])
				j++
			}
			out = append(out, "s:"+sb.String())
			i = j + 1
		case r == '`':
			j := i + 1
			for j < len(rs) && rs[j] != '`' {
				j++
			}
			out = append(out, "w:"+strings.ToLower(string(rs[i+1:min(j, len(rs))])))
			i = j + 1
		case unicode.IsLetter(r) || r == '_' || r == '$':
			j := i
			for j < len(rs) && (unicode.IsLetter(rs[j]) || unicode.IsDigit(rs[j]) || rs[j] == '_' || rs[j] == '$') {
				j++
			}
			out = append(out, "w:"+strings.ToLower(string(rs[i:j])))
			i = j
		case unicode.IsDigit(r):
			j := i
			hex := i+1 < len(rs) && r == '0' && (rs[i+1] == 'x' || rs[i+1] == 'X')
			for j < len(rs) && (unicode.IsDigit(rs[j]) || unicode.IsLetter(rs[j]) || (rs[j] == '.' && j+1 < len(rs) && unicode.IsDigit(rs[j+1])) ||
				(!hex && (rs[j] == '-' || rs[j] == '+') && (rs[j-1] == 'e' || rs[j-1] == 'E') && j+1 < len(rs) && unicode.IsDigit(rs[j+1]))) {
				j++
			}
			out = append(out, "n:"+numValue(strings.ToLower(string(rs[i:j]))))
			i = j
		default:
			// operators that carry meaning
			for _, op := range []string{"<>", "<=", ">=", "=~", "+=", "..", "=", "<", ">", "+", "-", "*", "/", "%", "^"} {
				if strings.HasPrefix(string(rs[i:min(i+2, len(rs))]), op) {
					out = append(out, "o:"+op)
					i += len([]rune(op)) - 1
					break
				}
			}
			i++
		}
	}
	return out
}

// numValue names a numeric literal by its type and value, so that 2.50 and 2.5, or 1e3 and 1000.0, are the same
// content while 1 and 1.0 are not.
func numValue(t string) string {
	if v, err := strconv.ParseInt(t, 0, 64); err == nil {
		return "i" + strconv.FormatInt(v, 10)
	}
	if v, err := strconv.ParseFloat(t, 64); err == nil {
		return "f" + strconv.FormatFloat(v, 'g', -1, 64)
	}
	return t
}

// synonyms the emitter is free to choose between
var synonyms = map[string]string{"w:descending": "w:desc", "w:ascending": "w:asc", "w:asc": "", "w:as": "w:as"}

func normTokens(ts []string) map[string]int {
	m := map[string]int{}
	for _, t := range ts {
		if s, ok := synonyms[t]; ok {
			t = s
		}
		if t != "" {
			m[t]++
		}
	}
	return m
}

// missingTokens: content tokens of the input that the re-emission has fewer of.
var openRangeRe = regexp.MustCompile(`\*\s*\.\.(\s*[\]\)])`)
var leadingDotRe = regexp.MustCompile(`(^|[^0-9A-Za-z_\)\].])\.([0-9])`)

func missingTokens(in, out string) []string {
	// spelling freedom of the grammar: "*.." is the same unbounded range as "*"; ".5" is the same literal as "0.5"
	in = openRangeRe.ReplaceAllString(in, "*$1")
	in = leadingDotRe.ReplaceAllString(in, "${1}0.$2")
	a, b := normTokens(contentTokens(in)), normTokens(contentTokens(out))
	miss := []string{}
	for t, n := range a {
		// relationship direction arrows and pattern dashes are punctuation, not operators
		if t == "o:-" || t == "o:<" || t == "o:>" {
			continue
		}
		if b[t] < n {
			miss = append(miss, t)
		}
	}
	sort.Strings(miss)
	return miss
}

// reordered: the clause skeleton of the re-emission differs from the input's - a clause moved across another one.
// (Inside a clause the emitter is free to order what has no order, e.g. the keys of a map literal.)
var clauseWords = map[string]bool{"w:match": true, "w:optional": true, "w:unwind": true, "w:with": true, "w:create": true, "w:merge": true, "w:set": true,
	"w:delete": true, "w:detach": true, "w:remove": true, "w:return": true, "w:where": true, "w:order": true, "w:skip": true, "w:limit": true, "w:union": true,
	"w:on": true, "w:foreach": true, "w:call": true, "w:yield": true, "w:distinct": true}

func reordered(in, out string) bool {
	seq := func(q string) []string {
		var ts []string
		for _, t := range contentTokens(q) {
			if clauseWords[t] {
				ts = append(ts, t)
			}
		}
		return ts
	}
	a, b := seq(in), seq(out)
	if len(a) != len(b) {
		return false
	}
	for i := range a {
		if a[i] != b[i] {
			return true
		}
	}
	return false
}

// multiPart: queries of one to three parts joined by WITH, every part an optional reading clause followed by an optional
// updating clause - every position of a clause relative to the WITHs around it.
func multiPart() []string {
	reading := []string{"", "match (a)-->(b)", "unwind [1, 2] as u", "optional match (a)-[r:E]->(c)"}
	updating := []string{"", "create (c:K)", "set a.x = 1", "delete a", "merge (d:K {k: 1})", "remove a.y", "detach delete a"}
	withs := []string{"with a", "with a, 1 as one where a.z = 2", "with distinct a order by a.x limit 3"}
	var parts []string
	for _, r := range reading {
		for _, u := range updating {
			if p := strings.TrimSpace(r + " " + u); p != "" {
				parts = append(parts, p)
			}
		}
	}
	var out []string
	for i, p1 := range parts {
		out = append(out, "match (a) with a "+p1+" return a")
		for j, p2 := range parts {
			if (i+j)%3 == 0 {
				out = append(out, "match (a) "+withs[(i+j)%len(withs)]+" "+p1+" "+withs[(i*j)%len(withs)]+" "+p2+" return a")
			}
			if (i+2*j)%7 == 0 {
				out = append(out, "match (a) "+p1+" with a "+p2+" with a "+parts[(i*j+1)%len(parts)]+" return a")
			}
		}
	}
	return out
}

// preciseLiterals: literals whose value needs every bit of its type to be kept.
func preciseLiterals() []string {
	var out []string
	for _, lit := range []string{"0.123456789012", "3.14159265358979", "16777217.0", "123456789.123456789", "1e300", "1.7976931348623157e308", "4.9e-324", "0.000001234",
		"1e21", "1e-7", "9007199254740993", "9223372036854775807", "-9223372036854775808", "0x7fffffffffffffff", "0.30000000000000004", "100000000000000000000.0"} {
		out = append(out, "match (n) where n.x = "+lit+" return n", "match (n) return "+lit+" as v", "match (n {p: "+lit+"}) return n", "match (n) return [1, "+lit+"] as l", "match (n) set n.x = "+lit)
	}
	return out
}

// Faithful checks, for every text the parser accepts, that the model denotes the text: emit(parse(t)) parses again,
// to an equal model, emits the same text again, and contains the content tokens of t.
// rangeForms: variable-length ranges with every spelling of an integer in either bound position
func rangeForms() []string {
	var out []string
	bounds := []string{"", "2", "0x2", "0o2", "02", "0", "99999999999999999999", "5"}
	for _, a := range bounds {
		for _, b := range bounds {
			out = append(out, "match (n)-[r:E*"+a+".."+b+"]->(m) return r")
		}
		if a != "" {
			out = append(out, "match (n)-[r:E*"+a+"]->(m) return r", "match p = (n)-[*"+a+"..]-(m) return p")
		}
	}
	return out
}

func Faithful(args []string) {
	fs := flag.NewFlagSet("front faithful", flag.ExitOnError)
	outp := fs.String("out", "trace.ndjson", "")
	sk := fs.String("skeletons", "", "clause skeletons to render in addition to the corpus")
	fs.Parse(args)
	var texts []fuzzInput
	for _, c := range Corpus() {
		texts = append(texts, fuzzInput{text: c.Text, class: "corpus:" + c.Tag})
	}
	for _, in := range fuzzInputs(nil0(), 0, false) {
		if in.class == "statement" {
			texts = append(texts, in)
		}
	}
	for _, q := range multiPart() {
		texts = append(texts, fuzzInput{text: q, class: "multipart"})
	}
	for _, q := range preciseLiterals() {
		texts = append(texts, fuzzInput{text: q, class: "precise-literal"})
	}
	for _, q := range rangeForms() {
		texts = append(texts, fuzzInput{text: q, class: "range-form"})
	}
	// texts that hold something no token of the grammar can hold (a stray character, an unterminated quote) or a number no
	// type can hold: "rejects the rest" - accepting one of them means a part of the text was dropped on the way to the model
	for _, in := range fuzzInputs(nil0(), 0, false) {
		if in.unrep {
			texts = append(texts, in)
		}
	}
	for _, q := range []string{"match (n) where n.a != 1 return n", "match (n) where !(n.a = 1) return n", "match (n) return n 'never closed detach delete n", "match (n) where n.a = 1 # and n.b = 2\nreturn n",
		"match (n) where n.a @ 1 return n", "match (n) return n.a ~ 1", "match (n) return n ?", "match (n) \\ return n", "match (n) return n; § "} {
		texts = append(texts, fuzzInput{text: q, class: "lexical-garbage", unrep: true})
	}
	for _, q := range caseVariantSources {
		for _, v := range caseVariants(q) {
			texts = append(texts, fuzzInput{text: v, class: "case-variant"})
		}
	}
	if *sk != "" {
		for _, s := range tr.ReadLines[Skeleton](*sk) {
			texts = append(texts, fuzzInput{text: render(s), class: "skeleton"})
		}
	}
	texts = append(texts, grammarTexts(envInt("VH_GRAMMAR_PER", 3), 1)...)
	w := tr.Create(*outp)
	for hid, in := range texts {
		ev := map[string]any{"e": "c07", "hid": hid, "class": in.class, "text": clip(in.text), "unrepresentable": in.unrep, "accepted": false, "panic": false, "reparse_ok": false,
			"fixpoint": false, "tokens_ok": false, "order_ok": false, "missing": []string{}, "emitted": ""}
		func() {
			defer func() {
				if r := recover(); r != nil {
					ev["panic"] = true
					ev["panicmsg"] = fmt.Sprint(r)
				}
			}()
			p1 := parseWith(frontend.NewContext(), in.text)
			if p1.panicky {
				ev["panic"] = true
				return
			}
			if !p1.ok || p1.model == nil {
				return
			}
			ev["accepted"] = true
			t1, err := emitText(p1.model)
			ev["emitted"] = clip(t1)
			if err != nil {
				ev["emit_err"] = err.Error()
				return
			}
			p2 := parseWith(frontend.NewContext(), t1)
			if !p2.ok || p2.model == nil {
				ev["reparse_err"] = p2.err
				return
			}
			ev["reparse_ok"] = true
			t2, _ := emitText(p2.model)
			ev["fixpoint"] = t1 == t2 && reflect.DeepEqual(p1.model, p2.model)
			if t1 == t2 && !reflect.DeepEqual(p1.model, p2.model) {
				ev["model_differs"] = true
			}
			miss := missingTokens(in.text, t1)
			ev["missing"] = miss
			ev["tokens_ok"] = len(miss) == 0
			ev["order_ok"] = len(miss) > 0 || !reordered(in.text, t1)
		}()
		w.Emit(ev)
	}
	w.Close()
	fmt.Printf("{\"events\":%d}\n", w.N)
}

func clip(s string) string {
	s = strings.ToValidUTF8(s, "�")
	if len(s) > 300 {
		return s[:300] + "..."
	}
	return s
}

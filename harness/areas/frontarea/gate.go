// Package frontarea binds spec/Frontend and spec/CypherExpr to the Cypher parser, emitter, query builder and translator.
package frontarea

import (
	"context"
	"flag"
	"fmt"
	"regexp"
	"strings"
	"sync"

	"dawgsverif/internal/tr"

	"github.com/specterops/dawgs/cypher/frontend"
	"github.com/specterops/dawgs/cypher/models/cypher"
	"github.com/specterops/dawgs/cypher/models/pgsql/translate"
	"github.com/specterops/dawgs/drivers/pg/pgutil"
	"github.com/specterops/dawgs/graph"
)

type Clause struct {
	K string `json:"k"`
	P bool   `json:"p"`
}

type Skeleton struct {
	Clauses   []Clause `json:"clauses"`
	Forbidden bool     `json:"forbidden"`
	Accepted  bool     `json:"accepted"`
}

func lit(p bool, plain string) string {
	if p {
		return "$p"
	}
	return plain
}

// render turns a clause skeleton into query text.  Each clause kind has one canonical rendering; a clause flagged p
// carries a $parameter in a position the grammar allows for that clause.
func render(s Skeleton) string {
	var parts []string
	for i, c := range s.Clauses {
		v := fmt.Sprintf("x%d", i)
		switch c.K {
		case "match":
			parts = append(parts, "match (n:K)-[r:E]->(m) where n.name = "+lit(c.P, "'a'"))
		case "optmatch":
			parts = append(parts, "optional match (n)-[:E]->("+v+") where n.name = "+lit(c.P, "'a'"))
		case "unwind":
			parts = append(parts, "unwind "+lit(c.P, "[1, 2]")+" as "+v)
		case "call_yield":
			parts = append(parts, "call db.labels() yield label")
		case "create":
			parts = append(parts, "create ("+v+":K {name: "+lit(c.P, "'a'")+"})")
		case "merge":
			parts = append(parts, "merge ("+v+":K {name: "+lit(c.P, "'a'")+"})")
		case "merge_on_create":
			parts = append(parts, "merge ("+v+":K {name: 'a'}) on create set "+v+".v = "+lit(c.P, "1"))
		case "set":
			parts = append(parts, "set n.v = "+lit(c.P, "1"))
		case "remove":
			if c.P {
				parts = append(parts, "set n.w = $p remove n.v") // REMOVE has no expression position: the parameter rides on a SET
			} else {
				parts = append(parts, "remove n.v")
			}
		case "delete":
			parts = append(parts, "delete n"+map[bool]string{true: ", $p", false: ""}[c.P])
		case "detach_delete":
			parts = append(parts, "detach delete n"+map[bool]string{true: ", $p", false: ""}[c.P])
		case "foreach_set":
			parts = append(parts, "foreach (i in "+lit(c.P, "[1]")+" | set n.v = i)")
		case "foreach_create":
			parts = append(parts, "foreach (i in "+lit(c.P, "[1]")+" | create (:K))")
		case "create_unique":
			parts = append(parts, "create unique (n)-[:E]->("+v+":K {name: "+lit(c.P, "'a'")+"})")
		case "with":
			parts = append(parts, "with n"+map[bool]string{true: " limit $p", false: ""}[c.P])
		case "return":
			parts = append(parts, "return n"+map[bool]string{true: " skip $p", false: ""}[c.P])
		case "call_explicit":
			parts = append(parts, "call db.labels()")
		case "call_implicit":
			parts = append(parts, "call db.labels")
		case "call_explicit_yield":
			parts = append(parts, "call db.labels() yield label")
		default:
			tr.Fatal("unknown clause kind %q", c.K)
		}
	}
	return strings.Join(parts, " ")
}

type parseOut struct {
	ok      bool
	panicky bool
	nilBoth bool
	model   *cypher.RegularQuery
	err     string
}

func parseWith(ctx *frontend.Context, text string) (out parseOut) {
	defer func() {
		if r := recover(); r != nil {
			out = parseOut{panicky: true, err: fmt.Sprint(r)}
		}
	}()
	m, err := frontend.ParseCypher(ctx, text)
	out.ok = err == nil
	out.model = m
	out.nilBoth = err == nil && m == nil
	if err != nil {
		out.err = err.Error()
		if len(out.err) > 200 {
			out.err = out.err[:200]
		}
	}
	return out
}

// data-modifying statements against the graph schema (node, edge, kind, graph and their partitions).  Shortest-path
// expansions legitimately INSERT INTO the per-query frontier temp tables of the traversal harness functions.
var dmlRe = regexp.MustCompile(`(?i)\b(insert\s+into|delete\s+from|merge\s+into|update)\s+(only\s+)?(node|edge|kind|graph)(_\w+)?\b`)

// Gate parses every rendered skeleton twice - without filters (control: is the text syntactically acceptable at
// all?) and under the default context - and translates what the default context accepts.
func Gate(args []string) {
	fs := flag.NewFlagSet("front gate", flag.ExitOnError)
	in := fs.String("in", "skeletons.ndjson", "")
	outp := fs.String("out", "trace.ndjson", "")
	corpus := fs.Bool("corpus", true, "also run the corpus insertion cases")
	fs.Parse(args)
	w := tr.Create(*outp)
	mapper := NewMapper()
	for hid, s := range tr.ReadLines[Skeleton](*in) {
		text := render(s)
		ctl := parseWith(frontend.NewContext(), text)
		def := parseWith(frontend.DefaultCypherContext(), text)
		ev := map[string]any{"e": "gate", "hid": hid, "text": text, "forbidden": s.Forbidden, "model_accepts": s.Accepted,
			"control_ok": ctl.ok, "default_ok": def.ok, "panic": ctl.panicky || def.panicky, "err": def.err,
			"translated": false, "dml": false, "kinds": kinds(s)}
		if def.ok && def.model != nil {
			func() {
				defer func() {
					if r := recover(); r != nil {
						ev["translate_panic"] = fmt.Sprint(r)
					}
				}()
				if res, err := translate.Translate(context.Background(), def.model, mapper, nil, 1); err != nil {
					ev["translate_err"] = err.Error()
				} else if sql, err := translate.Translated(res); err == nil {
					ev["translated"] = true
					ev["dml"] = dmlRe.MatchString(sql)
				}
			}()
		}
		w.Emit(ev)
	}
	// metamorphic part: every corpus query the default context accepts, with one forbidden clause inserted
	hid := 1000000
	gateOne := func(text string, forbidden bool, kind string) bool {
		ctl := parseWith(frontend.NewContext(), text)
		def := parseWith(frontend.DefaultCypherContext(), text)
		ev := map[string]any{"e": "gate", "hid": hid, "text": text, "forbidden": forbidden, "model_accepts": !forbidden,
			"control_ok": ctl.ok, "default_ok": def.ok, "panic": ctl.panicky || def.panicky, "err": def.err,
			"translated": false, "dml": false, "kinds": []string{kind}}
		hid++
		if def.ok && def.model != nil {
			func() {
				defer func() {
					if r := recover(); r != nil {
						ev["translate_panic"] = fmt.Sprint(r)
					}
				}()
				if res, err := translate.Translate(context.Background(), def.model, mapper, nil, 1); err == nil {
					if sql, err := translate.Translated(res); err == nil {
						ev["translated"] = true
						ev["dml"] = dmlRe.MatchString(sql)
					}
				}
			}()
		}
		w.Emit(ev)
		return def.ok
	}
	if *corpus {
		inserts := []string{"set zz.x = 1", "delete zz", "detach delete zz", "create (zz:K)", "merge (zz:K)", "remove zz.x",
			"foreach (i in [1] | set zz.x = i)", "create unique (zz)-[:E]->(yy)", "call db.labels() yield label"}
		for _, c := range Corpus() {
			if !gateOne(c.Text, false, "corpus:"+c.Tag) {
				continue
			}
			for _, ins := range inserts {
				if t, ok := insertBeforeLastReturn(c.Text, ins); ok {
					gateOne(t, true, "corpus+"+strings.Fields(ins)[0])
				}
			}
			gateOne(c.Text+" skip $p", true, "corpus+$param")
		}
	}
	// context schedules: the property is about every default context, not only one that parses straight after it was
	// made.  (a) several default contexts alive, the oldest one parses; (b) contexts made and used concurrently.
	var forbidden, allowed []string
	for _, s := range tr.ReadLines[Skeleton](*in) {
		if text := render(s); parseWith(frontend.NewContext(), text).ok {
			if s.Forbidden && len(forbidden) < 60 {
				forbidden = append(forbidden, text)
			} else if !s.Forbidden && len(allowed) < 20 {
				allowed = append(allowed, text)
			}
		}
	}
	forbidden = append(forbidden, "match (n) detach delete n", "match (n) where n.name = $name return n", "match (n) set n.x = 1 return n",
		"create (n:K) return n", "merge (n:K) return n", "match (n) remove n.x return n", "call db.labels()", "match (n) return n skip $p")
	hid = 2000000
	sched := func(text string, isForbidden bool, mode string, def parseOut) {
		ctl := parseWith(frontend.NewContext(), text)
		w.Emit(map[string]any{"e": "gate", "hid": hid, "text": text, "forbidden": isForbidden, "model_accepts": !isForbidden, "control_ok": ctl.ok,
			"default_ok": def.ok, "panic": ctl.panicky || def.panicky, "err": def.err, "translated": false, "dml": false, "kinds": []string{"ctx:" + mode}})
		hid++
	}
	for _, text := range forbidden {
		oldest := frontend.DefaultCypherContext()
		for i := 0; i < 3; i++ {
			_ = frontend.DefaultCypherContext()
		}
		sched(text, true, "oldest-of-4", parseWith(oldest, text))
		a, b := frontend.DefaultCypherContext(), frontend.DefaultCypherContext()
		parseWith(b, "match (n) return n")
		sched(text, true, "older-after-newer-parsed", parseWith(a, text))
	}
	type res struct {
		text string
		forb bool
		out  parseOut
	}
	results := make(chan res, 4096)
	var wg sync.WaitGroup
	for g := 0; g < 8; g++ {
		wg.Add(1)
		go func(g int) {
			defer wg.Done()
			for round := 0; round < 6; round++ {
				for i, text := range forbidden {
					if (i+g+round)%4 == 0 {
						results <- res{text, true, parseWith(frontend.DefaultCypherContext(), text)}
					}
				}
				for i, text := range allowed {
					if (i+g+round)%4 == 0 {
						results <- res{text, false, parseWith(frontend.DefaultCypherContext(), text)}
					}
				}
			}
		}(g)
	}
	wg.Wait()
	close(results)
	for r := range results {
		sched(r.text, r.forb, "concurrent", r.out)
	}
	// (c) history: contexts with other filter sets (none, each filter alone, all but one) have parsed everything before
	// the default context is asked again - what a default context admits must not depend on what other contexts of the
	// process have seen
	mk := []func() frontend.Visitor{
		func() frontend.Visitor { return &frontend.UpdatingNotAllowedClauseFilter{} },
		func() frontend.Visitor { return &frontend.UpdatingClauseFilter{} },
		func() frontend.Visitor { return &frontend.ExplicitProcedureInvocationFilter{} },
		func() frontend.Visitor { return &frontend.ImplicitProcedureInvocationFilter{} },
		func() frontend.Visitor { return &frontend.SpecifiedParametersFilter{} },
	}
	var others [][]int
	others = append(others, []int{})
	for i := range mk {
		others = append(others, []int{i})
		var rest []int
		for j := range mk {
			if j != i {
				rest = append(rest, j)
			}
		}
		others = append(others, rest)
	}
	for _, set := range others {
		for _, text := range append(append([]string{}, forbidden...), allowed...) {
			var fs []frontend.Visitor
			for _, i := range set {
				fs = append(fs, mk[i]())
			}
			parseWith(frontend.NewContext(fs...), text)
		}
	}
	for _, text := range forbidden {
		sched(text, true, "after-other-contexts", parseWith(frontend.DefaultCypherContext(), text))
	}
	for _, text := range allowed {
		sched(text, false, "after-other-contexts", parseWith(frontend.DefaultCypherContext(), text))
	}
	w.Close()
	fmt.Printf("{\"events\":%d}\n", w.N)
}

// NewMapper returns a kind mapper that knows the kinds the renderers use.
func NewMapper() *pgutil.InMemoryKindMapper {
	m := pgutil.NewInMemoryKindMapper()
	for _, k := range []string{"K", "E", "A", "B", "K0", "K1", "K2", "E0", "E1", "User", "Group"} {
		m.Put(graph.StringKind(k))
	}
	return m
}

func kinds(s Skeleton) []string {
	var ks []string
	for _, c := range s.Clauses {
		k := c.K
		if c.P {
			k += "+$"
		}
		ks = append(ks, k)
	}
	return ks
}

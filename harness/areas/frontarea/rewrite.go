package frontarea

import (
	"flag"
	"fmt"
	"regexp"

	"dawgsverif/internal/tr"

	"github.com/specterops/dawgs/cypher/frontend"
	neo4jdrv "github.com/specterops/dawgs/drivers/neo4j"
)

// temporal wrappers the Neo4j driver's query rewrite may put around a property that is compared with a temporal value:
// n.lastseen < datetime()  ->  datetime(n.lastseen) < datetime()
var temporalWrapRe = regexp.MustCompile(`(?i)\b(datetime|localdatetime|date|localtime|time)\(((?:` + "`[^`]*`" + `|\w+)\.(?:` + "`[^`]*`" + `|\w+))\)`)

func stripTemporalWrappers(s string) string {
	for {
		t := temporalWrapRe.ReplaceAllString(s, "$2")
		if t == s {
			return s
		}
		s = t
	}
}

// temporal texts: comparisons of a property with every temporal function, under NOT, inside conjunctions, in WITH / RETURN
// items and ORDER BY - the places the rewrite walks
func temporalTexts() []string {
	var out []string
	for _, f := range []string{"datetime()", "date()", "localdatetime()", "datetime() - duration('P1D')", "datetime({epochSeconds: 1})", "date('2020-01-01')"} {
		for _, cmp := range []string{"n.lastseen < " + f, "n.lastseen >= " + f, f + " > n.lastseen", "n.a = 1 and n.lastseen < " + f, "not (n.lastseen < " + f + ")", "not n.lastseen < " + f,
			"n.a = 1 or not (n.lastseen <= " + f + " and n.b = 2)", "not (not (n.lastseen > " + f + "))", "(n.lastseen < " + f + ") xor n.c = 3"} {
			out = append(out, "match (n) where "+cmp+" return n", "match (n)-[r:E]->(m) where "+cmp+" and not m.x = 1 return m", "match (n) with n, "+cmp+" as flag where not flag return n",
				"match (n) where n.z = 0 with n where "+cmp+" return n order by n.lastseen", "match (n) return "+cmp+" as late", "match (n) where "+cmp+" return count(n)")
		}
	}
	return out
}

// Rewrite sends texts through the rewrite the Neo4j driver applies to every query text before it is sent
// (drivers/neo4j rewriteQuery, reached through a build-tagged export) and compares the meaning of the text that comes
// out with the text that went in: both are parsed and written out by the emitter; apart from temporal wrappers around
// properties the two canonical texts must be the same.
func Rewrite(args []string) {
	fs := flag.NewFlagSet("front rewrite", flag.ExitOnError)
	outp := fs.String("out", "trace.ndjson", "")
	only := fs.String("text", "", "only this text (replay)")
	fs.Parse(args)
	var texts []fuzzInput
	if *only != "" {
		texts = []fuzzInput{{text: *only, class: "replay"}}
	}
	for _, t := range temporalTexts() {
		if *only != "" {
			break
		}
		texts = append(texts, fuzzInput{text: t, class: "temporal"})
	}
	if *only == "" {
		for _, c := range Corpus() {
			texts = append(texts, fuzzInput{text: c.Text, class: "corpus:" + c.Tag})
		}
		texts = append(texts, grammarTexts(1, 4)...)
	}
	w := tr.Create(*outp)
	for hid, in := range texts {
		ev := map[string]any{"e": "c10r", "hid": hid, "class": in.class, "text": clip(in.text), "accepted": false, "panic": false, "err": false, "changed": false,
			"reparse_ok": false, "same": false, "rewritten": "", "note": ""}
		func() {
			defer func() {
				if r := recover(); r != nil {
					ev["panic"], ev["note"] = true, fmt.Sprint(r)
				}
			}()
			p1 := parseWith(frontend.NewContext(), in.text)
			if !p1.ok || p1.model == nil {
				return
			}
			ev["accepted"] = true
			out, _, err := neo4jdrv.VerifRewriteQuery(in.text, nil)
			if err != nil {
				ev["err"], ev["note"] = true, clip(err.Error())
				return
			}
			ev["rewritten"] = clip(out)
			ev["changed"] = out != in.text
			p2 := parseWith(frontend.NewContext(), out)
			if !p2.ok || p2.model == nil {
				ev["note"] = "rewritten text does not parse: " + p2.err
				return
			}
			ev["reparse_ok"] = true
			t1, e1 := emitText(p1.model)
			t2, e2 := emitText(p2.model)
			if e1 != nil || e2 != nil {
				ev["note"] = fmt.Sprint("emit: ", e1, e2)
				return
			}
			ev["same"] = stripTemporalWrappers(t1) == stripTemporalWrappers(t2)
			if t1 != t2 && stripTemporalWrappers(t1) == stripTemporalWrappers(t2) {
				ev["wrapped"] = true
			}
		}()
		w.Emit(ev)
	}
	w.Close()
	fmt.Printf("{\"events\":%d}\n", w.N)
}

package frontarea

import (
	"fmt"
	"os"
	"strconv"
	"strings"

	"dawgsverif/internal/tr"
)

// The grammar corpus: texts derived from generators that follow Cypher.g4 rather than from anybody's examples.
// spec/Frontend/ExprGen.tla prints expressions (every production, and every production directly inside every hole of
// every other production, bare and parenthesised); spec/Frontend/ReadOnlyGate.tla prints clause skeletons.  The check
// writes both into one ndjson file and names it in VH_GRAMMAR; without the variable the grammar corpus is empty.
type grammarRec struct {
	Cls     string     `json:"cls"`
	Outer   string     `json:"outer"`
	Hole    int        `json:"hole"`
	Inner   string     `json:"inner"`
	Paren   bool       `json:"paren"`
	Toks    []string   `json:"toks"`
	Clauses []Clause   `json:"clauses"`
	Steps   [][]string `json:"steps"` // cls "with": per WITH clause, what happens to n, r, m, p
}

// every place an expression can stand, with a node, a relationship, a second node and a path in scope
var gramPositions = []string{
	"match p = (n)-[r:E]->(m) where %s return n",
	"match p = (n)-[r:E]->(m) return %s",
	"match p = (n)-[r:E]->(m) return %s as x",
	"match p = (n)-[r:E]->(m) with %s as x return x",
	"match p = (n)-[r:E]->(m) with n, %s as x where x is not null return n, x",
	"match p = (n)-[r:E]->(m) return n order by %s",
	"match p = (n)-[r:E]->(m) return %s as x order by x",
	"match p = (n)-[r:E]->(m) return count(n), %s",
	"match p = (n)-[r:E]->(m) where n.q = 1 and not (%s) return m",
	"match (n)-[r:E]->(m) set n.v = %s",
	"match p = (n)-[r:E]->(m) unwind %s as x return x",
	"match (n)-[r:E]->(m {k: %s}) return m",
}

func joinToks(toks []string) string {
	var b strings.Builder
	noSpaceBefore := map[string]bool{".": true, ",": true, ")": true, "]": true, "}": true, ":": true, "..": true}
	noSpaceAfter := map[string]bool{".": true, "(": true, "[": true, "{": true, ":": true, "..": true}
	for i, t := range toks {
		if i > 0 && !noSpaceBefore[t] && !noSpaceAfter[toks[i-1]] {
			b.WriteByte(' ')
		}
		b.WriteString(t)
	}
	return b.String()
}

func envInt(name string, def int) int {
	if v, err := strconv.Atoi(os.Getenv(name)); err == nil && v > 0 {
		return v
	}
	return def
}

// grammarTexts renders the grammar corpus.  Every depth-1 expression stands in every position; a depth-2 expression
// stands in perExpr positions chosen by rotation (0 = every position) and only every stride-th of them is used.
func grammarTexts(perExpr, stride int) []fuzzInput { return grammarTextsSk(perExpr, stride, 1, true) }

// grammarTextsSk: as grammarTexts; of the clause skeletons only every skStride-th is used and, unless skParams, only
// those without $parameters (the parameter variants of a skeleton have the same clause structure).
func grammarTextsSk(perExpr, stride, skStride int, skParams bool) []fuzzInput {
	path := os.Getenv("VH_GRAMMAR")
	if path == "" {
		return nil
	}
	var out []fuzzInput
	n2, nsk, nw := 0, 0, 0
	for _, r := range tr.ReadLines[grammarRec](path) {
		switch {
		case len(r.Clauses) > 0:
			if !skParams {
				withParam := false
				for _, c := range r.Clauses {
					withParam = withParam || c.P
				}
				if withParam {
					continue
				}
			}
			nsk++
			if skStride > 1 && nsk%skStride != 0 {
				continue
			}
			out = append(out, fuzzInput{text: render(Skeleton{Clauses: r.Clauses}), class: "grammar:clauses"})
		case r.Cls == "expr1":
			e := joinToks(r.Toks)
			for _, pos := range gramPositions {
				out = append(out, fuzzInput{text: strings.ReplaceAll(pos, "%s", e), class: "grammar:expr1"})
			}
		case r.Cls == "with":
			nw++
			if stride > 1 && nw%stride != 0 {
				continue
			}
			out = append(out, fuzzInput{text: renderWith(r.Steps), class: "grammar:with"})
		case r.Cls == "chain":
			e := joinToks(r.Toks)
			for _, pos := range gramPositions[:3] {
				out = append(out, fuzzInput{text: strings.ReplaceAll(pos, "%s", e), class: "grammar:chain"})
			}
		case r.Cls == "expr2":
			n2++
			if stride > 1 && n2%stride != 0 {
				continue
			}
			e := joinToks(r.Toks)
			if perExpr <= 0 || perExpr >= len(gramPositions) {
				for _, pos := range gramPositions {
					out = append(out, fuzzInput{text: strings.ReplaceAll(pos, "%s", e), class: "grammar:expr2"})
				}
				continue
			}
			for k := 0; k < perExpr; k++ {
				pos := gramPositions[(n2/max(stride, 1)+k*5)%len(gramPositions)]
				out = append(out, fuzzInput{text: strings.ReplaceAll(pos, "%s", e), class: "grammar:expr2"})
			}
		}
	}
	return out
}

// renderWith writes a projection pipeline of WithGen.tla: a MATCH binding n, r, m and the path p, one WITH per step that
// keeps, renames or drops each of them, and a RETURN of what is left.
func renderWith(steps [][]string) string {
	names := []string{"n", "r", "m", "p"}
	live := []bool{true, true, true, true}
	var b strings.Builder
	b.WriteString("match p = (n)-[r:E]->(m)")
	for i, st := range steps {
		var items []string
		for v := range names {
			if !live[v] || v >= len(st) {
				continue
			}
			switch st[v] {
			case "keep":
				items = append(items, names[v])
			case "rename":
				nn := fmt.Sprintf("%s%d", names[v][:1], i+1)
				items = append(items, names[v]+" as "+nn)
				names[v] = nn
			default:
				live[v] = false
			}
		}
		b.WriteString(" with " + strings.Join(items, ", "))
	}
	var rest []string
	for v := range names {
		if live[v] {
			rest = append(rest, names[v])
		}
	}
	b.WriteString(" return " + strings.Join(rest, ", "))
	return b.String()
}

package frontarea

import (
	"flag"
	"fmt"
	"math/rand"
	"strings"
	"time"
	"unicode"
	"unicode/utf8"

	"dawgsverif/internal/tr"

	"github.com/specterops/dawgs/cypher/frontend"
)

func tokens(q string) []string {
	var out []string
	var cur strings.Builder
	flush := func() {
		if cur.Len() > 0 {
			out = append(out, cur.String())
			cur.Reset()
		}
	}
	for _, r := range q {
		switch {
		case unicode.IsSpace(r):
			flush()
		case unicode.IsLetter(r) || unicode.IsDigit(r) || r == '_' || r == '$' || r == '.':
			cur.WriteRune(r)
		default:
			flush()
			out = append(out, string(r))
		}
	}
	flush()
	return out
}

func nil0() *rand.Rand { return rand.New(rand.NewSource(0)) }

type fuzzInput struct {
	text  string
	class string
	unrep bool // holds a numeric literal that neither int64 nor float64 can represent: accepting it means part of the text was lost
}

// exprFragments x exprPositions: every kind of expression in every place an expression can stand.
var exprFragments = []string{"count(*)", "count(n)", "count(distinct n.a)", "n.a[0]", "n.a[1..2]", "case when n.x = 1 then 2 else 3 end", "[x in n.l | x]", "[x in n.l where x > 1]",
	"all(x in n.l where x = 1)", "exists((n)-->())", "exists(n.x)", "shortestPath((n)-[*]->(m))", "{a: 1, b: [2]}", "$p", "-1", "not n.x", "n:A", "n.x in [1, 2]",
	"n.s starts with 'a'", "1 + 2 * 3", "$", "$1", "$limit", "n.x = $", "reduce(a = 0, x in [1] | a + x)", "(n)-->()", "n.x is not null", "coalesce(n.a, n.b)", "toLower(n.s) =~ 'a.*'", "id(n)", "null", "true", "'s'", "1.5", "n"}
var exprPositions = []string{"match (n) where %s return n", "match (n) return %s", "match (n) return n order by %s", "match (n) return n order by n.a, %s desc", "match (n) return n skip %s",
	"match (n) return n limit %s", "match (n) with %s as x return x", "unwind %s as x return x", "match (n) set n.x = %s", "match (n) return [%s, 1]", "match (n) return {k: %s}",
	"match (n) return size(%s)", "match (n {p: %s}) return n", "match (n) delete %s", "return %s", "match (n) where n.y = 1 and %s or n.z = 2 return n", "match (n)-[r:E {w: %s}]->() return r",
	"match (n) with n order by %s limit 1 return n", "merge (n:A {k: %s}) on create set n.c = %s"}

var caseVariantSources = []string{
	"match (n) where n.a = true and n.b = false or n.c is null return n",
	"match (n) where not n.a = true xor n.b is not null return n",
	"match (n)-[r:E*1..2]->(m) where n.name starts with 'a' and m.name ends with 'b' and n.x in [1, 2] and m.y contains 'c' return distinct n, count(m) as c order by c desc skip 1 limit 2",
	"match (n) optional match (n)-[:E]->(m) with n, collect(m) as ms unwind ms as x return n, x",
	"match (n) where any(x in n.list where x = true) and none(y in n.other where y is null) and all(z in n.l where z = false) and single(w in n.l where w = null) return n",
	"match p = shortestPath((a)-[:E*1..]->(b)) where a.ok = true return p",
	"match (n) return case when n.a = true then 'x' else null end as v",
	"create (n:K {a: true, b: null}) set n.c = false remove n.d return n",
	"merge (n:K {a: 1}) on create set n.b = true on match set n.c = false return n",
	"match (n) detach delete n",
	"match (n) return toLower(n.name), toUpper(n.name), size(n.list), coalesce(n.a, true), exists(n.b)",
}

// caseVariants rewrites the letters of a text outside quotes and backticks: all upper case, every word capitalised, and
// alternating case.
func caseVariants(q string) []string {
	variant := func(f func(i int, wordStart bool, r rune) rune) string {
		var b strings.Builder
		var quote rune
		i, wordStart := 0, true
		for _, r := range q {
			switch {
			case quote != 0:
				if r == quote {
					quote = 0
				}
				b.WriteRune(r)
			case r == '\'' || r == '"' || r == '`':
				quote = r
				b.WriteRune(r)
			case (r >= 'a' && r <= 'z') || (r >= 'A' && r <= 'Z'):
				b.WriteRune(f(i, wordStart, r))
				i++
				wordStart = false
			default:
				b.WriteRune(r)
				wordStart = true
			}
		}
		return b.String()
	}
	up := func(r rune) rune {
		if r >= 'a' && r <= 'z' {
			return r - 32
		}
		return r
	}
	low := func(r rune) rune {
		if r >= 'A' && r <= 'Z' {
			return r + 32
		}
		return r
	}
	return []string{
		variant(func(_ int, _ bool, r rune) rune { return up(r) }),
		variant(func(_ int, ws bool, r rune) rune {
			if ws {
				return up(r)
			}
			return low(r)
		}),
		variant(func(i int, _ bool, r rune) rune {
			if i%2 == 1 {
				return up(r)
			}
			return low(r)
		}),
		variant(func(i int, _ bool, r rune) rune {
			if i%3 == 0 {
				return up(r)
			}
			return low(r)
		}),
	}
}

// unrepresentable numeric literals and the places a number can stand
var unrepNumbers = []string{"99999999999999999999", "9223372036854775808", "-9223372036854775809", "0x8000000000000000", "0xffffffffffffffffff", "1e999", "-1e999", "1e400"}
var numberPositions = []string{"match (n) where n.x = %s return n", "match (n) return %s", "match (n) return n skip %s", "match (n) return n limit %s", "match ()-[*%s]->() return 1",
	"match ()-[*1..%s]->() return 1", "match ()-[*%s..]->() return 1", "match ()-[r:E*..%s]->() return r", "match (n) where (n)-[*2..%s]->() return n", "match (n {p: %s}) return n",
	"match (n) return [1, %s]", "match (n) return {k: %s}", "match (n) set n.x = %s", "match (n) return n.a[%s]", "unwind [%s] as x return x", "match (n) return n order by n.x + %s",
	"match (n) where n.x in [%s] return n", "match (n) return -%s"}

// recoveryInputs: every prefix of a text at a token boundary, and the text with one stray delimiter after every token -
// the inputs on which ANTLR's error recovery hands the listeners a tree that no valid query produces.
func recoveryInputs(text string, delims []string) []string {
	toks := tokens(text)
	var out []string
	for i := 1; i < len(toks); i++ {
		out = append(out, strings.Join(toks[:i], " "))
		for _, d := range delims {
			out = append(out, strings.Join(toks[:i], " ")+d)
			out = append(out, strings.Join(toks[:i], " ")+" "+d+" "+strings.Join(toks[i:], " "))
		}
	}
	return out
}

func fuzzInputs(rng *rand.Rand, perText int, deep bool) []fuzzInput {
	var in []fuzzInput
	add := func(t, c string) { in = append(in, fuzzInput{text: t, class: c}) }
	for _, pos := range numberPositions {
		for _, num := range unrepNumbers {
			in = append(in, fuzzInput{text: strings.ReplaceAll(pos, "%s", num), class: "unrepresentable-number", unrep: true})
		}
	}
	// characters and fragments no token of the grammar can start with or finish: wherever they stand in an otherwise
	// valid query, the query is not a sentence of the grammar and has to be rejected (a lexer error is an error too)
	for qi, q := range []string{"match (n) return n", "match (n) where n.x = 1 return n.y order by n.z limit 3", "match (a)-[r:E]->(b) return a, r, b"} {
		toks := tokens(q)
		for gi, g := range []string{"'abc", "\"abc", "`abc", "#", "?", "!", "\xff", "\x00", "~", "\\", "'unterminated \\'", "\u00a7"} {
			in = append(in, fuzzInput{text: q + " " + g, class: "lexical-garbage", unrep: true})
			in = append(in, fuzzInput{text: q + g, class: "lexical-garbage", unrep: true})
			i := 1 + (qi+gi)%(len(toks)-1)
			in = append(in, fuzzInput{text: strings.Join(toks[:i], " ") + " " + g + " " + strings.Join(toks[i:], " "), class: "lexical-garbage", unrep: true})
		}
	}
	for fi, frag := range exprFragments {
		for pi, pos := range exprPositions {
			text := strings.ReplaceAll(pos, "%s", frag)
			add(text, "expr-position")
			if perText > 0 {
				delims := []string{"(", ")", "[", "]", "{", "}", "'", ",", "|", "*", "$"}
				if !deep {
					delims = []string{delims[(fi+pi)%len(delims)], delims[(fi*3+pi+1)%len(delims)]}
				}
				for _, r := range recoveryInputs(text, delims) {
					add(r, "recovery")
				}
			}
		}
	}
	// the grammar's keywords, function names and boolean / null literals are case-insensitive: the same texts in upper
	// case, with capitalised words and in mixed case (quoted and backticked stretches untouched)
	for _, q := range caseVariantSources {
		for _, v := range caseVariants(q) {
			add(v, "case-variant")
		}
	}
	// blank and near-blank inputs
	for _, b := range []string{"", "\u00a0", "\n\t  ", " ", ";", " ; ", "//", "/* */"} {
		add(b, "blank")
	}
	// whole statements of every top-level form of the grammar, including the unsupported list
	for _, q := range []string{
		"call db.labels()", "call db.labels", "call db.labels() yield label", "call db.labels() yield *", "call db.idx.query('a', 'b') yield node as n where n.x = 1",
		"using periodic commit load csv from 'x' as l return l", "using periodic commit 500 load csv with headers from 'x' as l fieldterminator ';' return l",
		"load csv from 'x' as l return l", "create index on :A(b)", "drop index on :A(b)", "create constraint on (n:A) assert n.x is unique",
		"drop constraint on (n:A) assert exists(n.x)", "create constraint on ()-[r:E]-() assert exists(r.x)", "start n=node(1) return n", "start r=rel:idx(k = 'v') return r",
		"explain match (n) return n", "profile match (n) return n", "cypher 3.5 match (n) return n", "cypher planner=cost match (n) return n",
		"match (n) return n union match (m) return m", "match (n) return n union all match (m) return m", "return 1", "return *", "match (n) return n;",
		"match (n) using index n:A(b) return n", "match (n), (m) using join on n return n", "match (n:A) using scan n:A return n",
		"match (n) return [x in n.list | x]", "match (n) return [(n)-->(m) | m.name]", "match (n) return n.a[0]", "match (n) return n.a[1..2]",
		"match (n) return case when n.x = 1 then 2 else 3 end", "match (n) return reduce(a = 0, x in [1] | a + x)", "match (n) where exists { match (n)-->(m) } return n",
		"match (n) where n.x = {legacy} return n", "match (n) return all(x in [1] where x = 1)", "match (n) return filter(x in [1] where x = 1)",
		"match (n) return extract(x in [1] | x)", "match (n) return shortestPath((n)-[*]->(m))", "match p = allShortestPaths((n)-[*..3]->(m)) return p",
		"match (n) where not not n.x = 1 return n", "match (n) where not (not (n.x = 1)) return n", "match (n:A:B) where n:C:D return n", "match (n) where n:A:B or not n:C return n",
		"match (n) where n.a = 1 xor n.b = 2 and n.c = 3 or n.d = 4 return n", "match (n) where (n.a = 1 xor n.b = 2) and (n.c = 3 or n.d = 4) return n",
		"match (n) where n.x = -1.0 or n.y = 2.50 or n.z = 1e3 return n", "match (n) where 1 < n.x <= 5 return n", "match (n) return n.a + 1 * 2 - (3 - 4) / 5 % 6 ^ 2",
		"match (n) where n.name starts with 'a' and n.name ends with 'b' and n.name contains 'c' and n.x is not null and n.y is null return n",
		"match p = (a)-[r:E*2..4]->(b)<-[:F|G*..3]-(c)-[*5..]-(d) return p", "match (n) return distinct n.a as x, count(n) as c order by x desc, c skip 1 limit 2",
		"match (n {a: 1, b: 'x', c: [1, 2], d: {e: true}}) return n", "match (`weird name`:`Kind With Space` {`odd key`: 1}) return `weird name`",
		"foreach (i in [1] | set n.x = i)", "create unique (a)-[:X]->(b)", "match (n) detach delete n", "merge (n:A) on create set n.x = 1 on match set n.y = 2",
		"match (n) set n += {a: 1}", "match (n) set n:A:B", "match (n) remove n:A", "unwind $p as x return x", "match (n) return count(*)", "match (n) return n order by n.x desc skip 1 limit 2",
	} {
		add(q, "statement")
	}
	// numeric and string literal extremes
	for _, lit := range []string{"99999999999999999999999", "-9223372036854775809", "9223372036854775807", "0x7fffffffffffffffff", "0777777777777777777777777", "1e999", "-1e-999", ".5", "1.", "0x", "1e",
		"'" + strings.Repeat("a", 100000) + "'", "'unterminated", "\"mixed'", "'\\u12'", "'\\q'", "`" + strings.Repeat("b", 5000) + "`"} {
		add("match (n) where n.x = "+lit+" return n", "literal")
	}
	// invalid UTF-8 and odd code points
	for _, s := range []string{"match (n) return \xff\xfe", "match (\xc3\x28) return 1", "match (n) return '\xed\xa0\x80'", "match (n) return n\x00", "\ufeffmatch (n) return n", "match (n) return '\U0010ffff'"} {
		add(s, "utf8")
	}
	// nesting
	depths := []int{1, 2, 5, 20, 80}
	if deep {
		depths = append(depths, 200, 400)
	}
	for _, d := range depths {
		add("match (n) return "+strings.Repeat("(", d)+"1"+strings.Repeat(")", d), "nesting")
		add("match (n) return "+strings.Repeat("[", d)+"1"+strings.Repeat("]", d), "nesting")
		add("match (n) return "+strings.Repeat("{a: ", d)+"1"+strings.Repeat("}", d), "nesting")
		add("match (n) where "+strings.Repeat("not ", d)+"n.x return n", "nesting")
		add("match (n) where n.x = 1"+strings.Repeat(" and n.x = 1", d)+" return n", "nesting")
		add("match (n)"+strings.Repeat("-[:E]->()", d)+" return n", "nesting")
		add("match (n) return "+strings.Repeat("(", d)+"1", "unbalanced")
		add("match (n) return 1"+strings.Repeat(")", d), "unbalanced")
		add("match (n) return "+strings.Repeat("[", d)+strings.Repeat(")", d), "unbalanced")
		add("match (n) return "+strings.Repeat("size(", d)+"[1]"+strings.Repeat(")", d), "nesting")
	}
	// mutations of the corpus: truncation at every token boundary (sampled), token deletion / duplication / swap
	corpus := Corpus()
	for ci, c := range corpus {
		add(c.Text, "corpus")
		toks := tokens(c.Text)
		if len(toks) < 2 {
			continue
		}
		if deep {
			for i := 1; i < len(toks); i++ {
				add(strings.Join(toks[:i], " "), "truncated")
			}
		}
		for k := 0; k < perText; k++ {
			i := rng.Intn(len(toks))
			j := rng.Intn(len(toks))
			switch (ci + k) % 5 {
			case 0: // truncate at a rune boundary
				cut := rng.Intn(len(c.Text))
				for cut > 0 && !utf8.RuneStart(c.Text[cut]) {
					cut--
				}
				add(c.Text[:cut], "truncated")
			case 1:
				add(strings.Join(append(append([]string{}, toks[:i]...), toks[i+1:]...), "\u00a0"), "token-deleted")
			case 2:
				add(strings.Join(append(append(append([]string{}, toks[:i+1]...), toks[i]), toks[i+1:]...), "\u00a0"), "token-duplicated")
			case 3:
				t2 := append([]string{}, toks...)
				t2[i], t2[j] = t2[j], t2[i]
				add(strings.Join(t2, "\u00a0"), "token-swapped")
			case 4:
				delim := []string{"(", ")", "[", "]", "{", "}", "'", "\"", "`", "|", ","}[rng.Intn(11)]
				add(strings.Join(append(append(append([]string{}, toks[:i]...), delim), toks[i:]...), "\u00a0"), "delimiter-inserted")
			}
		}
	}
	return in
}

// Fuzz parses arbitrary inputs with the unfiltered and the default context and records, for each, whether the call
// returned, what it returned and how long it took.
func Fuzz(args []string) {
	fs := flag.NewFlagSet("front fuzz", flag.ExitOnError)
	outp := fs.String("out", "trace.ndjson", "")
	seed := fs.Int64("seed", 1, "")
	per := fs.Int("per-text", 3, "mutations per corpus text")
	deep := fs.Bool("deep", false, "nesting depths up to 400")
	fs.Parse(args)
	rng := rand.New(rand.NewSource(*seed))
	w := tr.Create(*outp)
	inputs := fuzzInputs(rng, *per, *deep)
	perExpr := 2
	if *deep {
		perExpr = 0
	}
	inputs = append(inputs, grammarTexts(perExpr, 1)...)
	for hid, in := range inputs {
		for ci, mk := range []func() *frontend.Context{func() *frontend.Context { return frontend.NewContext() }, frontend.DefaultCypherContext} {
			var out parseOut
			var ms int64
			// a verdict about time needs a reproducible outlier: take the best of up to three runs when the first is slow
			for attempt := 0; attempt < 3; attempt++ {
				t := time.Now()
				out = parseWith(mk(), in.text)
				ms = time.Since(t).Milliseconds()
				if ms <= 10000 {
					break
				}
			}
			shown := in.text
			if len(shown) > 160 {
				shown = shown[:160] + "..."
			}
			// a model handed out without an error is a whole model: the emitter can write it out (a typed-nil node or a
			// half-built clause makes it fail or panic)
			emitOK := true
			if out.ok && out.model != nil && in.class != "nesting" && len(in.text) < 20000 {
				func() {
					defer func() {
						if r := recover(); r != nil {
							emitOK = false
						}
					}()
					if _, err := emitText(out.model); err != nil {
						emitOK = false
					}
				}()
			}
			w.Emit(map[string]any{"e": "parse", "emit_ok": emitOK, "hid": hid*2 + ci, "class": in.class, "context": []string{"unfiltered", "default"}[ci], "input": strings.ToValidUTF8(shown, "�"),
				"len": len(in.text), "blank": strings.TrimSpace(in.text) == "", "ok": out.ok, "modelnil": out.model == nil, "panic": out.panicky, "err": out.err,
				"ms": ms, "budget_ms": 10000, "unrepresentable": in.unrep})
		}
	}
	w.Close()
	fmt.Printf("{\"events\":%d}\n", w.N)
}

package frontarea

import (
	"bufio"
	"encoding/json"
	"os"
	"path/filepath"
	"regexp"
	"sort"
	"strings"

	"github.com/specterops/dawgs/cypher/frontend"
	"github.com/specterops/dawgs/cypher/models/cypher"
)

func repoRoot() string {
	if r := os.Getenv("VERIF_REPO"); r != "" {
		return r
	}
	return "/repo"
}

// Corpus returns the Cypher texts of the repository's own test corpora: the parser's positive / negative / mutation
// / filtering cases and the "-- case:" lines of the translation cases.  tag says where a text came from.
type CorpusEntry struct {
	Text string
	Tag  string
}

func Corpus() []CorpusEntry {
	var out []CorpusEntry
	seen := map[string]bool{}
	add := func(t, tag string) {
		t = strings.TrimSpace(t)
		if t != "" && !seen[t] {
			seen[t] = true
			out = append(out, CorpusEntry{t, tag})
		}
	}
	cases, _ := filepath.Glob(filepath.Join(repoRoot(), "cypher/test/cases/*.json"))
	sort.Strings(cases)
	for _, p := range cases {
		raw, err := os.ReadFile(p)
		if err != nil {
			continue
		}
		var doc struct {
			TestCases []struct {
				Details map[string]any `json:"details"`
			} `json:"test_cases"`
		}
		if json.Unmarshal(raw, &doc) != nil {
			continue
		}
		tag := strings.TrimSuffix(filepath.Base(p), ".json")
		for _, tc := range doc.TestCases {
			for _, key := range []string{"query", "matcher"} {
				if q, ok := tc.Details[key].(string); ok && key == "query" {
					add(q, tag)
				}
			}
			if qs, ok := tc.Details["queries"].([]any); ok {
				for _, q := range qs {
					if s, ok := q.(string); ok {
						add(s, tag)
					}
				}
			}
		}
	}
	sqls, _ := filepath.Glob(filepath.Join(repoRoot(), "cypher/models/pgsql/test/translation_cases/*.sql"))
	sort.Strings(sqls)
	for _, p := range sqls {
		f, err := os.Open(p)
		if err != nil {
			continue
		}
		sc := bufio.NewScanner(f)
		sc.Buffer(make([]byte, 1<<16), 1<<22)
		for sc.Scan() {
			if line := sc.Text(); strings.HasPrefix(line, "-- case:") {
				add(strings.TrimPrefix(line, "-- case:"), "translation/"+strings.TrimSuffix(filepath.Base(p), ".sql"))
			}
		}
		f.Close()
	}
	return out
}

var returnRe = regexp.MustCompile(`(?i)\breturn\b`)

// insertBeforeLastReturn inserts clause text in front of the last RETURN keyword of a query text (a textual
// approximation of "the same query with one more clause"; the unfiltered control parse decides whether the result is
// still a sentence of the grammar).
func insertBeforeLastReturn(q, clause string) (string, bool) {
	locs := returnRe.FindAllStringIndex(q, -1)
	if len(locs) == 0 {
		return "", false
	}
	at := locs[len(locs)-1][0]
	return q[:at] + clause + " " + q[at:], true
}

// Model is a query model the real parser built from a text of the corpora or of the harness's own input classes.
type Model struct {
	Text  string
	Tag   string
	Query *cypher.RegularQuery
}

// Models parses every corpus text, grammar-form statement, multi-part query and expression-position text and returns
// the models of those the parser accepts.
func Models() []Model {
	var texts []fuzzInput
	for _, c := range Corpus() {
		texts = append(texts, fuzzInput{text: c.Text, class: "corpus:" + c.Tag})
	}
	for _, in := range fuzzInputs(nil0(), 0, false) {
		if in.class == "statement" || in.class == "expr-position" {
			texts = append(texts, in)
		}
	}
	for i, q := range multiPart() {
		if i%4 == 0 {
			texts = append(texts, fuzzInput{text: q, class: "multipart"})
		}
	}
	for _, q := range translatorShapes {
		texts = append(texts, fuzzInput{text: q, class: "translator-shape"})
	}
	// grammar corpus (VH_GRAMMAR): every production in every position, pairs in one rotating position
	texts = append(texts, grammarTextsSk(1, envInt("VH_GRAMMAR_STRIDE", 1), envInt("VH_GRAMMAR_SKSTRIDE", 1), false)...)
	var out []Model
	seen := map[string]bool{}
	for _, in := range texts {
		if seen[in.text] {
			continue
		}
		seen[in.text] = true
		if p := parseWith(frontend.NewContext(), in.text); p.ok && p.model != nil {
			out = append(out, Model{in.text, in.class, p.model})
		}
	}
	return out
}

// translatorShapes: read queries that make the translator's features meet - UNWIND with expansions, pattern predicates
// next to path variables and across MATCH clauses, aggregation between parts, OPTIONAL MATCH with expansions, several
// patterns sharing variables.
var translatorShapes = []string{
	"unwind [1, 2] as x match (n)-[:E*1..]->(m) where n.v = x return m",
	"with ['a', 'b'] as names unwind names as name match (u:K)-[:E*1..]->(t:K) where u.name = name return t",
	"unwind [1, 2] as x match (n)-[:E]->(m) where m.v = x return n, m",
	"match (n) unwind [1, 2] as x match (n)-[:E*1..2]->(m) where m.v = x return m",
	"match p = (n)-[r]->(m) where (m)-[]->() return p",
	"match p = (n)-[r:E]->(m) where not (m)-[:E]->(n) return p",
	"match p = (n)-[r]->(m) match (o) where (m)-[]->(o) return p, o",
	"match (n)-[:E]->(m) match (o) where (n)-[:E]->(o) and (o)-[:E]->(m) return o",
	"match (n) where not (n)-[:E]->() return n",
	"match (n) where (n)-[:E]->() and (n)<-[:E]-() return n",
	"match (n)-[:E*1..]->(m) where (m)-[:E]->(n) return n",
	"match p = (a)-[:E*1..]->(b) where all(x in nodes(p) where x.ok = true) return p",
	"match p = (a)-[:E*1..]->(b) where none(r in relationships(p) where r.w > 3) return b",
	"match p = (a)-[:E*1..3]->(b) return length(p), nodes(p), relationships(p)",
	"match (a)-[:E]->(b) with a, count(b) as c where c > 1 match (a)-[:E*1..2]->(d) return a, d, c",
	"match (a)-[:E]->(b) with a, collect(b) as bs match (a)-[:E]->(c) where c in bs return a, c",
	"match (a)-[:E]->(b) with b order by b.x limit 5 match (b)-[:E*1..]->(c) return c",
	"match (a) with a skip 1 limit 2 match p = (a)-[:E]->(b) return p",
	"match (a) optional match (a)-[:E*1..]->(b) return a, b",
	"match (a) optional match p = (a)-[:E]->(b)-[:E]->(c) return a, p",
	"match (a) optional match (a)-[:E]->(b) optional match (b)-[:E]->(c) return a, b, c",
	"match (a) optional match (a)-[:E]->(b) where b.x = 1 return a, count(b)",
	"match (a)-[r:E]->(b) where a.x = b.x and r.w > 1 return a order by b.y limit 3",
	"match (a), (b) where a.x = b.y return a, b",
	"match (a)-[:E]->(b)-[:E]->(c) where a.x = c.x return b",
	"match (a)-[:E]->(b)<-[:E]-(c) where a <> c return a, c",
	"match (a)-[:E]->(b), (b)-[:E]->(c), (c)-[:E]->(a) return a, b, c",
	"match (a)-[r1:E]->(b), (a)-[r2:E]->(c) where r1 <> r2 return b, c",
	"match (a)-[:E]-(b) return a, b",
	"match (a)-[:E*1..2]-(b) where a.x = 1 return b",
	"match (a) where a.x in [1, 2] with collect(a) as xs unwind xs as a2 match (a2)-[:E]->(b) return b",
	"match (a)-[:E*0..]->(b)-[:E]->(c:K) where c.name = 'x' return a",
	"match p = (a:K)-[:E*1..]->(b:K) where a.name = 'x' and b.name = 'y' return p limit 10",
	"match p = (a)-[:E*2..4]->(b) where a.x = b.x return p",
	"match (a)-[:E*1..]->(b)-[:E*1..]->(c) return a, c",
	"match p1 = (a)-[:E]->(b), p2 = (b)-[:E]->(c) return p1, p2",
	"match (n) return n.a as x, count(n) as c order by c desc, x limit 5",
	"match (n) with n.a as x, collect(n.b) as ys return x, size(ys)",
	"match (n) where n.a is not null with distinct n.a as x return x order by x",
	"match (a)-[r]->(b) return type(r), startNode(r), endNode(r), id(a), labels(b)",
	"match (a)-[r:E]->(b) where id(a) = 1 and id(b) in [2, 3] return r",
	"match (a) where a.name starts with 'x' or a.name ends with 'y' or a.name contains 'z' return a",
	"match (a) where toLower(a.name) = 'x' and toUpper(a.other) <> 'Y' and size(a.list) > 0 return a",
	"match (a) where a.d > datetime().epochseconds - 100 return a",
	"match (a) where any(x in a.l where x = 1) and none(y in a.m where y = 2) return a",
	"match (a)-[:E]->(b) where any(x in b.l where x = a.v) return a",
	"match (a) return case when a.x = 1 then 'one' else 'other' end as label",
	"match (a)-[:E]->(b) return a, collect(distinct b) as bs, count(distinct b) as c",
	"match (n)-[r]->(m)-[q]->(o {name: n.name}) return o",
	"match (n)-[r:E]->(m {v: n.v}) return m",
	"match (n)-[r:E {w: n.w}]->(m) return m",
	"match (n)-[:E*1..]->(m {name: n.name}) return m",
	"match (n) match (m {name: n.name}) return m",
	"match (n {}) return n",
	"match (n)-[r:E {}]->(m {}) return r",
	"match (n) where n.a = 1 match (m) where m.b = n.a match (o) where o.c = m.b return o",
	"match (a)-[:E]->(b) where (a)-[:E]->(b) return a",
	"match p = (a)-[r]->(b) where (b)-[:E]->(:K) return p",
	"match p = (a)-[:E*1..]->(b) where not (b)-[:E]->() return p",
	// expansions (also with depth 0) that start from a node carried over from an earlier step or part, their far end compared
	// with bindings of earlier frames
	"match (a)-[r:E]->(b)-[:E*0..]->(c) where c.name = a.name return c",
	"match (a)-[r:E]->(b)-[:E*1..]->(c) where c.name = a.name return c",
	"match (a:K)-[r:E]->(b)-[:E*0..3]->(c:K) where c.name = a.name and c.v = b.v return a, c",
	"match (a) with a match (a)-[:E*0..]->(c) where c.name = a.name return c",
	"match (a)-[:E]->(b) with a, b match (b)-[:E*0..2]->(c) where c.v = a.v and c.w = b.w return c",
	"match (a:K)-[:E*0..]->(b)-[:E*0..]->(c) where c.name = a.name return c",
	"match (a)-[:E*0..]->(b) where b.name = a.name return b",
	"match (a)<-[:E*0..]-(b)-[:E]->(c) where a.name = c.name return a",
}

package frontarea

import (
	"bufio"
	"encoding/json"
	"os"
	"path/filepath"
	"regexp"
	"sort"
	"strings"

	"github.com/specterops/dawgs/cypher/frontend"
	"github.com/specterops/dawgs/cypher/models/cypher"
)

func repoRoot() string {
	if r := os.Getenv("VERIF_REPO"); r != "" {
		return r
	}
	return "/repo"
}

// Corpus returns the Cypher texts of the repository's own test corpora: the parser's positive / negative / mutation
// / filtering cases and the "-- case:" lines of the translation cases.  tag says where a text came from.
type CorpusEntry struct {
	Text string
	Tag  string
}

func Corpus() []CorpusEntry {
	var out []CorpusEntry
	seen := map[string]bool{}
	add := func(t, tag string) {
		t = strings.TrimSpace(t)
		if t != "" && !seen[t] {
			seen[t] = true
			out = append(out, CorpusEntry{t, tag})
		}
	}
	cases, _ := filepath.Glob(filepath.Join(repoRoot(), "cypher/test/cases/*.json"))
	sort.Strings(cases)
	for _, p := range cases {
		raw, err := os.ReadFile(p)
		if err != nil {
			continue
		}
		var doc struct {
			TestCases []struct {
				Details map[string]any `json:"details"`
			} `json:"test_cases"`
		}
		if json.Unmarshal(raw, &doc) != nil {
			continue
		}
		tag := strings.TrimSuffix(filepath.Base(p), ".json")
		for _, tc := range doc.TestCases {
			for _, key := range []string{"query", "matcher"} {
				if q, ok := tc.Details[key].(string); ok && key == "query" {
					add(q, tag)
				}
			}
			if qs, ok := tc.Details["queries"].([]any); ok {
				for _, q := range qs {
					if s, ok := q.(string); ok {
						add(s, tag)
					}
				}
			}
		}
	}
	sqls, _ := filepath.Glob(filepath.Join(repoRoot(), "cypher/models/pgsql/test/translation_cases/*.sql"))
	sort.Strings(sqls)
	for _, p := range sqls {
		f, err := os.Open(p)
		if err != nil {
			continue
		}
		sc := bufio.NewScanner(f)
		sc.Buffer(make([]byte, 1<<16), 1<<22)
		for sc.Scan() {
			if line := sc.Text(); strings.HasPrefix(line, "-- case:") {
				add(strings.TrimPrefix(line, "-- case:"), "translation/"+strings.TrimSuffix(filepath.Base(p), ".sql"))
			}
		}
		f.Close()
	}
	return out
}

var returnRe = regexp.MustCompile(`(?i)\breturn\b`)

// insertBeforeLastReturn inserts clause text in front of the last RETURN keyword of a query text (a textual
// approximation of "the same query with one more clause"; the unfiltered control parse decides whether the result is
// still a sentence of the grammar).
func insertBeforeLastReturn(q, clause string) (string, bool) {
	locs := returnRe.FindAllStringIndex(q, -1)
	if len(locs) == 0 {
		return "", false
	}
	at := locs[len(locs)-1][0]
	return q[:at] + clause + " " + q[at:], true
}

// Model is a query model the real parser built from a text of the corpora or of the harness's own input classes.
type Model struct {
	Text  string
	Tag   string
	Query *cypher.RegularQuery
}

// Models parses every corpus text, grammar-form statement, multi-part query and expression-position text and returns
// the models of those the parser accepts.
func Models() []Model {
	var texts []fuzzInput
	for _, c := range Corpus() {
		texts = append(texts, fuzzInput{text: c.Text, class: "corpus:" + c.Tag})
	}
	for _, in := range fuzzInputs(nil0(), 0, false) {
		if in.class == "statement" || in.class == "expr-position" {
			texts = append(texts, in)
		}
	}
	for i, q := range multiPart() {
		if i%4 == 0 {
			texts = append(texts, fuzzInput{text: q, class: "multipart"})
		}
	}
	var out []Model
	seen := map[string]bool{}
	for _, in := range texts {
		if seen[in.text] {
			continue
		}
		seen[in.text] = true
		if p := parseWith(frontend.NewContext(), in.text); p.ok && p.model != nil {
			out = append(out, Model{in.text, in.class, p.model})
		}
	}
	return out
}

// Package digrapharea binds spec/Digraph to the in-memory graph containers of github.com/specterops/dawgs/container.
package digrapharea

import (
	"bytes"
	"context"
	"flag"
	"fmt"
	"os"
	"sort"

	"dawgsverif/internal/tr"

	"github.com/specterops/dawgs/cardinality"
	"github.com/specterops/dawgs/container"
	"github.com/specterops/dawgs/graph"
)

type Hist struct {
	Extra   []int    `json:"extra"`
	Triples [][2]int `json:"triples"`
	DelN    []int    `json:"deln"`
	DelE    []int    `json:"dele"`
}

var dirs = []string{"out", "in", "both"}

func dirOf(s string) graph.Direction {
	switch s {
	case "out":
		return graph.DirectionOutbound
	case "in":
		return graph.DirectionInbound
	}
	return graph.DirectionBoth
}

type world struct {
	nodes  []int // abstract node ids, sorted
	nid    map[int]uint64
	nabs   map[uint64]int
	eid    map[int]uint64
	eabs   map[uint64]int
	layout int
}

// newWorld embeds abstract node and edge ids into uint64.  Layouts: 0 dense small; 1 gapped and reversed; 2 above 2^32;
// 3 small ids that contain the byte 0x0A (10, 266, 2570, ...), which matters to the newline-framed BFS tree file.
func newWorld(h Hist, layout int) *world {
	w := &world{nid: map[int]uint64{}, nabs: map[uint64]int{}, eid: map[int]uint64{}, eabs: map[uint64]int{}, layout: layout % 4}
	set := map[int]bool{}
	for _, x := range h.Extra {
		set[x] = true
	}
	for _, t := range h.Triples {
		set[t[0]], set[t[1]] = true, true
	}
	for x := range set {
		w.nodes = append(w.nodes, x)
	}
	sort.Ints(w.nodes)
	for a := 0; a < 16; a++ {
		var v, e uint64
		switch w.layout {
		case 0:
			v, e = uint64(a), uint64(a)
		case 1:
			v, e = 1000-uint64(a)*7, 500-uint64(a)*3
		case 2:
			v, e = (1<<33)+uint64(a)*6+1, (1<<40)+uint64(a)
		default:
			v, e = 10+uint64(a)*256, 2570+uint64(a)*65536
		}
		w.nid[a], w.nabs[v] = v, a
		w.eid[a], w.eabs[e] = e, a
	}
	return w
}

func (w *world) absNodes(vs []uint64) ([]int, bool) {
	out, seen, dup := []int{}, map[int]bool{}, false
	for _, v := range vs {
		a, ok := w.nabs[v]
		if !ok {
			a = -1
		}
		if seen[a] {
			dup = true
			continue
		}
		seen[a] = true
		out = append(out, a)
	}
	sort.Ints(out)
	return out, dup
}

func (w *world) absNodeSeq(vs []uint64) []int {
	out := []int{}
	for _, v := range vs {
		a, ok := w.nabs[v]
		if !ok {
			a = -1
		}
		out = append(out, a)
	}
	return out
}

func (w *world) absEdgeSeq(vs []uint64) []int {
	out := []int{}
	for _, v := range vs {
		a, ok := w.eabs[v]
		if !ok {
			a = -1
		}
		out = append(out, a)
	}
	return out
}

type normalizer interface {
	Normalize() ([]uint64, container.DirectedGraph)
}

type runCtx struct {
	w    *world
	out  *tr.Writer
	hid  int
	hi   int
	cont string
}

func (r *runCtx) emit(kind string, fields map[string]any, f func(m map[string]any)) {
	m := map[string]any{"e": kind, "hid": r.hid, "hi": r.hi, "panic": false}
	for k, v := range fields {
		m[k] = v
	}
	func() {
		defer func() {
			if rec := recover(); rec != nil {
				m["panic"] = true
				m["panicmsg"] = fmt.Sprint(rec)
			}
		}()
		f(m)
	}()
	r.out.Emit(m)
}

func collectAdj(g container.DirectedGraph, id uint64, d graph.Direction) []uint64 {
	var vs []uint64
	g.EachAdjacentNode(id, d, func(a uint64) bool { vs = append(vs, a); return true })
	return vs
}

func (r *runCtx) observeDigraph(g container.DirectedGraph) {
	w := r.w
	r.emit("nodes", nil, func(m map[string]any) {
		var vs []uint64
		g.EachNode(func(n uint64) bool { vs = append(vs, n); return true })
		l, dup := w.absNodes(vs)
		m["n"], m["list"], m["dup"] = int(g.NumNodes()), l, dup || len(l) != len(vs)
	})
	probe := append(append([]int{}, w.nodes...), 7) // 7 = a node the graph does not contain
	r.emit("adj", nil, func(m map[string]any) {
		rows := [][]any{}
		for _, a := range probe {
			for _, d := range dirs {
				l, _ := w.absNodes(collectAdj(g, w.nid[a], dirOf(d)))
				l2, _ := w.absNodes(container.AdjacentNodes(g, w.nid[a], dirOf(d)))
				rows = append(rows, []any{a, d, l, l2, int(container.Degrees(g, w.nid[a], dirOf(d)))})
			}
		}
		m["rows"] = rows
	})
	r.emit("reach", nil, func(m map[string]any) {
		rows := [][]any{}
		for _, a := range w.nodes {
			for _, d := range dirs {
				l, dup := w.absNodes(container.Reach(g, w.nid[a], dirOf(d)).Slice())
				rows = append(rows, []any{a, d, l, dup})
			}
		}
		m["rows"] = rows
	})
	r.emit("bfs", nil, func(m map[string]any) {
		rows := [][]any{}
		for _, a := range w.nodes {
			for _, d := range dirs {
				pairs := [][]int{}
				for _, t := range container.BFSTree(g, w.nid[a], dirOf(d)) {
					x, ok := w.nabs[t.Node]
					if !ok {
						x = -1
					}
					pairs = append(pairs, []int{x, t.Distance})
				}
				rows = append(rows, []any{a, d, pairs})
			}
		}
		m["rows"] = rows
	})
	if nz, ok := g.(normalizer); ok {
		r.emit("norm", nil, func(m map[string]any) {
			rev, ng := nz.Normalize()
			m["rev"] = w.absNodeSeq(rev)
			m["n"] = int(ng.NumNodes())
			rows := [][]any{}
			for i := range rev {
				for _, d := range dirs {
					var js []int
					for _, j := range collectAdj(ng, uint64(i), dirOf(d)) {
						js = append(js, int(j)+1) // 1-based positions in rev
					}
					if js == nil {
						js = []int{}
					}
					sort.Ints(js)
					rows = append(rows, []any{i + 1, d, js})
				}
			}
			m["rows"] = rows
		})
	}
}

type segRec struct {
	Nodes []int `json:"nodes"` // terminal first
	Edges []int `json:"edges"`
}

func (r *runCtx) segOf(s *container.Segment) segRec {
	return segRec{Nodes: r.w.absNodeSeq(s.Nodes()), Edges: r.w.absEdgeSeq(s.Edges())}
}

func (r *runCtx) observeTriplestore(ts container.Triplestore, maxDepths []int, plain bool, seed int) {
	w := r.w
	r.emit("edges", nil, func(m map[string]any) {
		l := [][]int{}
		ts.EachEdge(func(e container.Edge) bool {
			ea, ok := w.eabs[e.ID]
			if !ok {
				ea = -1
			}
			l = append(l, []int{ea, w.nabs[e.Start], w.nabs[e.End]})
			return true
		})
		m["n"], m["list"] = int(ts.NumEdges()), l
		rows := [][]any{}
		for _, a := range w.nodes {
			for _, d := range dirs {
				var es []uint64
				ts.EachAdjacentEdge(w.nid[a], dirOf(d), func(e container.Edge) bool { es = append(es, e.ID); return true })
				l := w.absEdgeSeq(es)
				sort.Ints(l)
				rows = append(rows, []any{a, d, l})
			}
		}
		m["rows"] = rows
	})
	var segs []*container.Segment
	r.emit("walks", nil, func(m map[string]any) {
		rows := [][]any{}
		for _, kind := range []string{"bfs", "dfs"} {
			for _, a := range w.nodes {
				for _, d := range []string{"out", "in"} {
					for _, md := range maxDepths {
						list := []segRec{}
						h := func(s *container.Segment) bool {
							list = append(list, r.segOf(s))
							if len(segs) < 40 {
								segs = append(segs, s)
							}
							return true
						}
						all := func(container.Edge) bool { return true }
						var inc int
						if kind == "bfs" {
							inc = container.TSBFS(ts, w.nid[a], dirOf(d), md, all, h)
						} else {
							inc = container.TSDFS(ts, w.nid[a], dirOf(d), md, all, h)
						}
						rows = append(rows, []any{kind, a, d, md, inc, list})
					}
				}
			}
		}
		m["rows"] = rows
	})
	// serialised segments: binary round trip and SerializedSegment (root-first node list, edges root-first)
	r.emit("segs", nil, func(m map[string]any) {
		rows := [][]any{}
		for _, s := range segs {
			orig := r.segOf(s)
			var buf bytes.Buffer
			row := []any{orig}
			if err := container.MarshalSegment(s, &buf); err != nil {
				row = append(row, segRec{Nodes: []int{-2}, Edges: []int{}})
			} else {
				row = append(row, r.segOf(container.UnmarshalSegment(buf.Bytes())))
			}
			func() {
				defer func() {
					if rec := recover(); rec != nil {
						row = append(row, segRec{Nodes: []int{-3}, Edges: []int{}})
					}
				}()
				nodes, edges := s.Nodes(), s.Edges()
				rn := make([]uint64, len(nodes))
				re := make([]uint64, len(edges))
				for i := range nodes {
					rn[len(nodes)-1-i] = nodes[i]
				}
				for i := range edges {
					re[len(edges)-1-i] = edges[i]
				}
				row = append(row, r.segOf(container.SerializedSegment{Nodes: rn, Edges: re}.ToSegment()))
			}()
			rows = append(rows, row)
		}
		m["rows"] = rows
	})
	if plain {
		for _, md := range maxDepths {
			r.emit("zone", map[string]any{"maxdepth": md}, func(m map[string]any) {
				zone := []int{}
				zs := graph.NodeSet{}
				for i, a := range w.nodes {
					if (seed>>uint(i))&1 == 1 || len(w.nodes) == 1 {
						zone = append(zone, a)
						zs.Add(graph.NewNode(graph.ID(w.nid[a]), graph.NewProperties()))
					}
				}
				m["zone"] = zone
				// does any id of this graph contain the byte 0x0A in its little-endian form? (the file is newline framed)
				nl := false
				hasNL := func(v uint64) bool {
					for i := 0; i < 8; i++ {
						if b := byte(v >> (8 * uint(i))); b == 0x0A {
							return true
						}
					}
					return false
				}
				for _, a := range w.nodes {
					nl = nl || hasNL(w.nid[a])
				}
				ts.EachEdge(func(e container.Edge) bool { nl = nl || hasNL(e.ID); return true })
				m["nlbyte"] = nl
				dir, err := os.MkdirTemp("", "vh-zone")
				if err != nil {
					tr.Fatal("mkdtemp: %v", err)
				}
				defer os.RemoveAll(dir)
				f, err := container.WriteZoneBFSTree(zs, ts, dir, md)
				if err != nil {
					m["err"] = err.Error()
					m["numpaths"], m["read"] = -1, []segRec{}
					return
				}
				m["numpaths"] = int(f.NumPaths)
				read := []segRec{}
				rerr := f.ReadEach(context.Background(), func(s *container.Segment) (bool, error) {
					read = append(read, r.segOf(s))
					return true, nil
				})
				m["read"] = read
				m["readerr"] = rerr != nil
			})
		}
	}
}

func bitmapOf(w *world, xs []int, edges bool) cardinality.Duplex[uint64] {
	b := cardinality.NewBitmap64()
	for _, x := range xs {
		if edges {
			b.Add(w.eid[x])
		} else {
			b.Add(w.nid[x])
		}
	}
	return b
}

func nzi(s []int) []int {
	if s == nil {
		return []int{}
	}
	return s
}

func runOne(out *tr.Writer, hid *int, hi int, h Hist, layout, seed int, maxDepths []int) {
	w := newWorld(h, layout)
	triples := [][]int{}
	for i, t := range h.Triples {
		triples = append(triples, []int{i, t[0], t[1]})
	}
	build := func(cont string) *runCtx {
		r := &runCtx{w: w, out: out, hid: *hid, hi: hi, cont: cont}
		*hid++
		out.Emit(map[string]any{"e": "build", "hid": r.hid, "hi": hi, "panic": false, "container": cont, "layout": w.layout,
			"nodes": nzi(w.nodes), "triples": triples, "deln": nzi(h.DelN), "dele": nzi(h.DelE)})
		return r
	}
	mkTS := func() container.MutableTriplestore {
		ts := container.NewTriplestore()
		for _, a := range h.Extra {
			// AddNode is a method of the concrete triplestore but not of the MutableTriplestore interface
			ts.(interface{ AddNode(uint64) }).AddNode(w.nid[a])
		}
		for i, t := range h.Triples {
			ts.AddTriple(w.eid[i], w.nid[t[0]], w.nid[t[1]])
		}
		return ts
	}
	if len(h.DelN) == 0 && len(h.DelE) == 0 {
		r := build("adj")
		g := container.NewAdjacencyMapGraph()
		for _, a := range h.Extra {
			g.AddNode(w.nid[a])
		}
		for _, t := range h.Triples {
			g.AddEdge(w.nid[t[0]], w.nid[t[1]])
		}
		r.observeDigraph(g)
		r = build("csr")
		b := container.NewCSRDigraphBuilder()
		for _, a := range h.Extra {
			b.AddNode(w.nid[a])
		}
		for _, t := range h.Triples {
			b.AddEdge(w.nid[t[0]], w.nid[t[1]])
		}
		r.observeDigraph(b.Build())
		r = build("ts")
		ts := mkTS()
		r.observeDigraph(ts)
		r.observeTriplestore(ts, maxDepths, true, seed+hi)
		r = build("proj")
		p := ts.Projection(cardinality.NewBitmap64(), cardinality.NewBitmap64())
		r.observeDigraph(p)
		r.observeTriplestore(p, maxDepths, false, seed)
		return
	}
	ts := mkTS()
	r := build("proj")
	p := ts.Projection(bitmapOf(w, h.DelN, false), bitmapOf(w, h.DelE, true))
	r.observeDigraph(p)
	r.observeTriplestore(p, maxDepths, false, seed)
	// nested: split the deletions over two projection levels
	var n1, n2, e1, e2 []int
	for i, x := range h.DelN {
		if (seed+i)%2 == 0 {
			n1 = append(n1, x)
		} else {
			n2 = append(n2, x)
		}
	}
	for i, x := range h.DelE {
		if (seed+i)%2 == 1 {
			e1 = append(e1, x)
		} else {
			e2 = append(e2, x)
		}
	}
	r = build("nested")
	p2 := ts.Projection(bitmapOf(w, n1, false), bitmapOf(w, e1, true)).Projection(bitmapOf(w, n2, false), bitmapOf(w, e2, true))
	r.observeDigraph(p2)
	r.observeTriplestore(p2, maxDepths, false, seed)
	// deriving a projection leaves what it was derived from as it was: the parent projection observed after a child
	// was derived (and used), a sibling derived after that, and the store underneath
	buildWith := func(cont string, deln, dele []int) *runCtx {
		r := &runCtx{w: w, out: out, hid: *hid, hi: hi, cont: cont}
		*hid++
		out.Emit(map[string]any{"e": "build", "hid": r.hid, "hi": hi, "panic": false, "container": cont, "layout": w.layout,
			"nodes": nzi(w.nodes), "triples": triples, "deln": nzi(deln), "dele": nzi(dele)})
		return r
	}
	parent := ts.Projection(bitmapOf(w, n1, false), bitmapOf(w, e1, true))
	child := parent.Projection(bitmapOf(w, n2, false), bitmapOf(w, e2, true))
	child.EachEdge(func(container.Edge) bool { return true })
	child.EachNode(func(uint64) bool { return true })
	r = buildWith("parent-after-child", n1, e1)
	r.observeDigraph(parent)
	r.observeTriplestore(parent, []int{1}, false, seed)
	r = buildWith("sibling-after-child", n1, e1)
	sibling := parent.Projection(cardinality.NewBitmap64(), cardinality.NewBitmap64())
	r.observeDigraph(sibling)
	r.observeTriplestore(sibling, []int{1}, false, seed)
	r = buildWith("store-after-projections", nil, nil)
	r.observeDigraph(ts)
	r.observeTriplestore(ts, []int{1}, false, seed)
}

func Replay(args []string) {
	fs := flag.NewFlagSet("digraph replay", flag.ExitOnError)
	in := fs.String("in", "hist.ndjson", "")
	outp := fs.String("out", "trace.ndjson", "")
	seed := fs.Int("seed", 1, "")
	layout := fs.Int("layout", -1, "fixed layout (replay); default rotates by history index + seed")
	deep := fs.Bool("deep", false, "walk depth bounds 1..3 instead of 1..2")
	base := fs.Int("base", 0, "index of the first history (replaying one history of a batch keeps its index-derived choices)")
	fs.Parse(args)
	hs := tr.ReadLines[Hist](*in)
	out := tr.Create(*outp)
	hid := 0
	md := []int{1, 2}
	if *deep {
		md = []int{1, 2, 3}
	}
	for i, h := range hs {
		hi := *base + i
		l := hi + *seed
		if *layout >= 0 {
			l = *layout
		}
		runOne(out, &hid, hi, h, l, *seed, md)
	}
	out.Close()
	fmt.Printf("{\"histories\":%d,\"runs\":%d,\"events\":%d}\n", len(hs), hid, out.N)
}

package scopearea

import (
	"context"
	"flag"
	"fmt"
	"sort"

	"dawgsverif/areas/frontarea"
	"dawgsverif/internal/tr"

	"github.com/specterops/dawgs/cypher/models/cypher"
	"github.com/specterops/dawgs/cypher/models/pgsql/translate"
	"github.com/specterops/dawgs/cypher/models/walk"
	"github.com/specterops/dawgs/graph"
)

func updating(q *cypher.RegularQuery) bool {
	found := false
	_ = walk.CypherStructural(q, walk.NewSimpleVisitor[cypher.SyntaxNode](func(node cypher.SyntaxNode, _ walk.VisitorHandler) {
		if _, is := node.(*cypher.UpdatingClause); is {
			found = true
		}
	}))
	return found
}

// Scope translates every model and writes the statement's name-resolution events.
func Scope(args []string) {
	fs := flag.NewFlagSet("scope run", flag.ExitOnError)
	outp := fs.String("out", "trace.ndjson", "")
	limit := fs.Int("limit", 0, "")
	only := fs.String("text", "", "")
	fs.Parse(args)
	ms := frontarea.Models()
	if *limit > 0 && len(ms) > *limit {
		ms = ms[:*limit]
	}
	mapper := frontarea.NewMapper()
	for _, m := range ms {
		_ = walk.CypherStructural(m.Query, walk.NewSimpleVisitor[cypher.SyntaxNode](func(node cypher.SyntaxNode, _ walk.VisitorHandler) {
			if ks, ok := node.(graph.Kinds); ok {
				for _, k := range ks {
					mapper.Put(k)
				}
			}
		}))
	}
	w := tr.Create(*outp)
	hid := 0
	for _, m := range ms {
		if *only != "" && m.Text != *only {
			continue
		}
		var events []Event
		var params []string
		var sql string
		ok := func() (ok bool) {
			defer func() {
				if r := recover(); r != nil {
					ok = false
				}
			}()
			res, err := translate.Translate(context.Background(), cypher.Copy(m.Query), mapper, map[string]any{}, 1)
			if err != nil || res.Statement == nil {
				return false
			}
			sql, _ = translate.Translated(res)
			events = Linearise(res.Statement)
			for k := range res.Parameters {
				params = append(params, k)
			}
			sort.Strings(params)
			return true
		}()
		if !ok {
			continue
		}
		if params == nil {
			params = []string{}
		}
		w.Emit(Event{"e": "stmt", "hid": hid, "text": m.Text, "sql": sql, "params": params, "updating": updating(m.Query)})
		for _, ev := range events {
			ev["hid"] = hid
			w.Emit(ev)
		}
		w.Emit(Event{"e": "stmt_end", "hid": hid})
		hid++
	}
	w.Close()
	fmt.Printf("{\"events\":%d,\"statements\":%d}\n", w.N, hid)
}

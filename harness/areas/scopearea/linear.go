// Package scopearea linearises the SQL syntax tree the real translator returns into the event stream that
// spec/Sql/SqlScope.tla resolves (C03).  The Go side knows the shape of the tree (which field of which node is a
// CTE, a FROM item, a projection); every rule about what a name may refer to lives in the spec.
package scopearea

import (
	"fmt"
	"reflect"
	"strings"

	"github.com/specterops/dawgs/cypher/models/pgsql"
)

type Event map[string]any

type lin struct {
	out []Event
}

func (s *lin) emit(e string, kv ...any) {
	ev := Event{"e": e}
	for i := 0; i+1 < len(kv); i += 2 {
		ev[kv[i].(string)] = kv[i+1]
	}
	s.out = append(s.out, ev)
}

func idents(ids []pgsql.Identifier) []string {
	out := make([]string, 0, len(ids))
	for _, id := range ids {
		out = append(out, string(id))
	}
	return out
}

// columnName: the name PostgreSQL gives the output column of a select item, "" when it has none worth knowing
func columnName(item any) string {
	switch t := item.(type) {
	case pgsql.AliasedExpression:
		if t.Alias.Set {
			return string(t.Alias.Value)
		}
		return columnName(t.Expression)
	case *pgsql.AliasedExpression:
		return columnName(*t)
	case pgsql.CompoundIdentifier:
		if len(t) > 0 {
			return string(t[len(t)-1])
		}
	case pgsql.Identifier:
		return string(t)
	case pgsql.RowColumnReference:
		return string(t.Column)
	case pgsql.TypeCast:
		return columnName(t.Expression)
	case *pgsql.Parenthetical:
		return columnName(t.Expression)
	case pgsql.FunctionCall:
		return string(t.Function)
	}
	return ""
}

// projection walks the select items and returns the output column names ("*" when a wildcard makes them unknown)
func (s *lin) projection(items []pgsql.SelectItem) []string {
	cols := []string{}
	for _, item := range items {
		if _, wild := item.(pgsql.Wildcard); wild {
			cols = append(cols, "*")
			continue
		}
		if ci, isCompound := item.(pgsql.CompoundIdentifier); isCompound && len(ci) > 0 && ci[len(ci)-1] == "*" {
			cols = append(cols, "*")
			continue
		}
		cols = append(cols, columnName(item))
		s.expr(item)
	}
	return cols
}

// query: a Query node.  returns its output columns.
func (s *lin) query(q pgsql.Query) []string {
	s.emit("q_push")
	if q.CommonTableExpressions != nil {
		for _, cte := range q.CommonTableExpressions.Expressions {
			shape := []string{}
			if cte.Alias.Shape != nil {
				shape = idents(cte.Alias.Shape.Columns)
			}
			s.emit("cte_begin", "name", string(cte.Alias.Name), "shape", shape, "recursive", q.CommonTableExpressions.Recursive)
			cols := s.query(cte.Query)
			s.emit("cte_end", "name", string(cte.Alias.Name), "shape", shape, "cols", cols)
		}
	}
	cols := s.setExpr(q.Body)
	// ORDER BY / OFFSET / LIMIT see the output columns and the FROM items of the body: the spec keeps the last popped
	// select frame reachable for them
	if len(q.OrderBy) > 0 || q.Offset != nil || q.Limit != nil {
		s.emit("tail_begin", "cols", cols)
		for _, ob := range q.OrderBy {
			if ob != nil {
				s.expr(ob.Expression)
			}
		}
		s.expr(q.Offset)
		s.expr(q.Limit)
		s.emit("tail_end")
	}
	s.emit("q_pop")
	return cols
}

func (s *lin) setExpr(body any) []string {
	switch t := body.(type) {
	case nil:
		return []string{}
	case pgsql.Select:
		return s.selectNode(t)
	case *pgsql.Select:
		return s.selectNode(*t)
	case pgsql.SetOperation:
		cols := s.setExpr(t.LOperand)
		s.setExpr(t.ROperand)
		return cols
	case *pgsql.SetOperation:
		return s.setExpr(*t)
	case pgsql.Query:
		return s.query(t)
	case *pgsql.Query:
		return s.query(*t)
	case pgsql.Values:
		s.expr(t)
		return []string{"*"}
	case pgsql.Insert:
		return s.insert(t)
	case *pgsql.Insert:
		return s.insert(*t)
	case pgsql.Update:
		return s.update(t)
	case *pgsql.Update:
		return s.update(*t)
	case pgsql.Delete:
		return s.delete(t)
	case *pgsql.Delete:
		return s.delete(*t)
	case pgsql.Merge:
		return s.merge(t)
	case *pgsql.Merge:
		return s.merge(*t)
	case pgsql.Materialized:
		return []string{"*"}
	default:
		s.emit("unknown_body", "type", fmt.Sprintf("%T", body))
		s.expr(body)
		return []string{"*"}
	}
}

func (s *lin) selectNode(sel pgsql.Select) []string {
	s.emit("s_push")
	s.fromList(sel.From)
	cols := s.projection(sel.Projection)
	s.emit("proj", "cols", cols) // output aliases become visible to GROUP BY / HAVING of this select
	s.expr(sel.Where)
	for _, g := range sel.GroupBy {
		s.expr(g)
	}
	s.expr(sel.Having)
	s.emit("s_pop", "cols", cols)
	return cols
}

func (s *lin) fromList(from []pgsql.FromClause) {
	for _, fc := range from {
		s.fromItem(fc.Source, false)
		for _, j := range fc.Joins {
			s.fromItem(j.Table, false)
			s.expr(j.JoinOperator.Constraint)
		}
	}
}

// fromItem: one item of a FROM list: a table or CTE reference, a (lateral) subquery, a function call or VALUES
func (s *lin) fromItem(src any, lateral bool) {
	switch t := src.(type) {
	case nil:
	case pgsql.TableReference:
		alias := ""
		if t.Binding.Set {
			alias = string(t.Binding.Value)
		}
		s.emit("from_table", "name", idents(t.Name), "alias", alias)
	case *pgsql.TableReference:
		s.fromItem(*t, lateral)
	case pgsql.Identifier:
		s.emit("from_table", "name", []string{string(t)}, "alias", "")
	case pgsql.CompoundIdentifier:
		s.emit("from_table", "name", idents(t), "alias", "")
	case pgsql.LateralSubquery:
		alias := ""
		if t.Binding.Set {
			alias = string(t.Binding.Value)
		}
		s.emit("from_begin", "lateral", true)
		cols := s.query(t.Query)
		s.emit("from_end", "alias", alias, "cols", cols)
	case *pgsql.LateralSubquery:
		s.fromItem(*t, lateral)
	case pgsql.AliasedExpression:
		alias := ""
		if t.Alias.Set {
			alias = string(t.Alias.Value)
		}
		switch inner := t.Expression.(type) {
		case pgsql.Subquery:
			s.emit("from_begin", "lateral", false)
			cols := s.query(inner.Query)
			s.emit("from_end", "alias", alias, "cols", cols)
		case pgsql.Query:
			s.emit("from_begin", "lateral", false)
			cols := s.query(inner)
			s.emit("from_end", "alias", alias, "cols", cols)
		case *pgsql.Parenthetical:
			if q, isQuery := inner.Expression.(pgsql.Query); isQuery {
				s.emit("from_begin", "lateral", false)
				cols := s.query(q)
				s.emit("from_end", "alias", alias, "cols", cols)
			} else {
				s.emit("from_begin", "lateral", true)
				s.expr(inner)
				s.emit("from_end", "alias", alias, "cols", []string{"*"})
			}
		case pgsql.TableReference:
			s.emit("from_table", "name", idents(inner.Name), "alias", alias)
		case pgsql.Identifier:
			s.emit("from_table", "name", []string{string(inner)}, "alias", alias)
		case pgsql.CompoundIdentifier:
			s.emit("from_table", "name", idents(inner), "alias", alias)
		default:
			// a function call (unnest, a traversal harness function, ...): implicitly lateral, columns unknown
			s.emit("from_begin", "lateral", true)
			s.expr(t.Expression)
			s.emit("from_end", "alias", alias, "cols", []string{"*"})
		}
	case *pgsql.AliasedExpression:
		s.fromItem(*t, lateral)
	case pgsql.Subquery:
		s.emit("from_begin", "lateral", false)
		cols := s.query(t.Query)
		s.emit("from_end", "alias", "", "cols", cols)
	case pgsql.FunctionCall:
		s.emit("from_begin", "lateral", true)
		s.expr(t)
		s.emit("from_end", "alias", string(t.Function), "cols", []string{"*"})
	default:
		s.emit("from_begin", "lateral", true)
		s.expr(src)
		s.emit("from_end", "alias", "", "cols", []string{"*"})
	}
}

func tableAlias(t pgsql.TableReference) (name []string, alias string) {
	if t.Binding.Set {
		alias = string(t.Binding.Value)
	}
	return idents(t.Name), alias
}

func (s *lin) returning(items []pgsql.SelectItem) []string {
	return s.projection(items)
}

func (s *lin) insert(ins pgsql.Insert) []string {
	name, alias := tableAlias(ins.Table)
	shape := []string{}
	if ins.Shape != nil {
		shape = idents(ins.Shape.Columns)
	}
	s.emit("dml_push", "kind", "insert", "name", name, "alias", alias, "shape", shape)
	srcCols := []string{}
	if ins.Source != nil {
		s.emit("dml_source_begin")
		srcCols = s.query(*ins.Source)
		s.emit("dml_source_end", "cols", srcCols)
	}
	if ins.OnConflict != nil {
		s.emit("excluded")
		s.expr(ins.OnConflict.Action)
	}
	cols := s.returning(ins.Returning)
	s.emit("dml_pop", "cols", cols)
	return cols
}

func (s *lin) update(up pgsql.Update) []string {
	name, alias := tableAlias(up.Table)
	s.emit("dml_push", "kind", "update", "name", name, "alias", alias, "shape", []string{})
	s.fromList(up.From)
	for _, a := range up.Assignments {
		s.assignment(a)
	}
	s.expr(up.Where)
	cols := s.returning(up.Returning)
	s.emit("dml_pop", "cols", cols)
	return cols
}

func (s *lin) delete(del pgsql.Delete) []string {
	name, alias := []string{}, ""
	if len(del.From) > 0 {
		name, alias = tableAlias(del.From[0])
	}
	s.emit("dml_push", "kind", "delete", "name", name, "alias", alias, "shape", []string{})
	s.fromList(del.Using)
	s.expr(del.Where)
	cols := s.returning(del.Returning)
	s.emit("dml_pop", "cols", cols)
	return cols
}

func (s *lin) merge(m pgsql.Merge) []string {
	name, alias := tableAlias(m.Table)
	s.emit("dml_push", "kind", "merge", "name", name, "alias", alias, "shape", []string{})
	sname, salias := tableAlias(m.Source)
	s.emit("from_table", "name", sname, "alias", salias)
	s.expr(m.JoinTarget)
	for _, a := range m.Actions {
		s.expr(a)
	}
	s.emit("dml_pop", "cols", []string{})
	return []string{}
}

// assignment: the left side of "column = value" names a column of the target table, not something to resolve
func (s *lin) assignment(a any) {
	if be, isBinary := a.(*pgsql.BinaryExpression); isBinary && be != nil {
		s.emit("target_col", "c", columnName(be.LOperand))
		s.expr(be.ROperand)
		return
	}
	if be, isBinary := a.(pgsql.BinaryExpression); isBinary {
		s.emit("target_col", "c", columnName(be.LOperand))
		s.expr(be.ROperand)
		return
	}
	s.expr(a)
}

var (
	identifierType = reflect.TypeOf(pgsql.Identifier(""))
	skipFields     = map[string]bool{"Function": true, "CastType": true, "DataType": true, "Alias": true, "Binding": true, "Shape": true, "Columns": true, "Constraint": true, "Operator": true}
)

// expr: any expression.  Column references, parameters and nested queries become events; everything else is descended.
func (s *lin) expr(node any) {
	if node == nil {
		return
	}
	switch t := node.(type) {
	case pgsql.CompoundIdentifier:
		s.emit("ref", "parts", idents(t), "field", "")
		return
	case pgsql.RowColumnReference:
		switch inner := t.Identifier.(type) {
		case pgsql.CompoundIdentifier:
			s.emit("ref", "parts", idents(inner), "field", string(t.Column))
		case pgsql.Identifier:
			s.emit("ref", "parts", []string{string(inner)}, "field", string(t.Column))
		default:
			s.expr(t.Identifier)
		}
		return
	case pgsql.Identifier:
		s.emit("ref", "parts", []string{string(t)}, "field", "")
		return
	case pgsql.Parameter:
		s.emit("param", "name", string(t.Identifier))
		return
	case *pgsql.Parameter:
		if t != nil {
			s.emit("param", "name", string(t.Identifier))
		}
		return
	case pgsql.Query:
		s.emit("sub_begin")
		s.query(t)
		s.emit("sub_end")
		return
	case *pgsql.Query:
		if t != nil {
			s.expr(*t)
		}
		return
	case pgsql.Select:
		s.emit("sub_begin")
		s.selectNode(t)
		s.emit("sub_end")
		return
	case pgsql.Subquery:
		s.expr(t.Query)
		return
	case pgsql.ExistsExpression:
		s.expr(t.Subquery.Query)
		return
	case pgsql.Insert, pgsql.Update, pgsql.Delete, pgsql.Merge, pgsql.SetOperation:
		s.emit("sub_begin")
		s.setExpr(t)
		s.emit("sub_end")
		return
	case pgsql.ProjectionFrom:
		s.emit("sub_begin")
		s.emit("s_push")
		s.fromList(t.From)
		cols := s.projection(t.Projection)
		s.emit("s_pop", "cols", cols)
		s.emit("sub_end")
		return
	case pgsql.TableReference:
		s.emit("table_expr", "name", idents(t.Name))
		return
	case pgsql.Literal, pgsql.KindListLiteral, pgsql.Wildcard, pgsql.FormattingLiteral:
		return
	}
	v := reflect.ValueOf(node)
	s.descend(v)
}

func (s *lin) descend(v reflect.Value) {
	switch v.Kind() {
	case reflect.Pointer, reflect.Interface:
		if !v.IsNil() {
			if v.CanInterface() {
				if _, handled := v.Interface().(pgsql.SyntaxNode); handled && v.Kind() == reflect.Interface {
					s.expr(v.Interface())
					return
				}
			}
			s.descend(v.Elem())
		}
	case reflect.Struct:
		if v.CanInterface() {
			switch v.Interface().(type) {
			case pgsql.CompoundIdentifier, pgsql.RowColumnReference, pgsql.Parameter, pgsql.Query, pgsql.Select, pgsql.Subquery, pgsql.ExistsExpression, pgsql.Insert, pgsql.Update, pgsql.Delete,
				pgsql.Merge, pgsql.SetOperation, pgsql.ProjectionFrom, pgsql.TableReference, pgsql.Literal, pgsql.KindListLiteral:
				s.expr(v.Interface())
				return
			}
		}
		if strings.HasPrefix(v.Type().Name(), "Optional[") || strings.HasPrefix(v.Type().Name(), "Future[") {
			return
		}
		for i := 0; i < v.NumField(); i++ {
			f := v.Type().Field(i)
			if !f.IsExported() || skipFields[f.Name] {
				continue
			}
			s.descend(v.Field(i))
		}
	case reflect.Slice:
		if v.CanInterface() {
			if ci, isCompound := v.Interface().(pgsql.CompoundIdentifier); isCompound {
				s.expr(ci)
				return
			}
		}
		for i := 0; i < v.Len(); i++ {
			s.descend(v.Index(i))
		}
	case reflect.String:
		if v.Type() == identifierType && v.String() != "" {
			s.emit("ref", "parts", []string{v.String()}, "field", "")
		}
	}
}

// Linearise turns one statement into its event stream.
func Linearise(stmt pgsql.Statement) []Event {
	s := &lin{}
	switch t := stmt.(type) {
	case pgsql.Query:
		s.query(t)
	case *pgsql.Query:
		s.query(*t)
	default:
		s.setExpr(stmt)
	}
	return s.out
}

package optarea

import (
	"fmt"
	"strings"
)

// SkClause is one clause descriptor as printed by QueryGen.tla.
type SkClause struct {
	Opt   bool   `json:"opt"`
	Shape string `json:"shape"`
	X     string `json:"x"`
	Y     string `json:"y"`
	XK    int    `json:"xk"`
	YK    int    `json:"yk"`
	Sel   int    `json:"sel"`
	PV    bool   `json:"pv"`
	Dir   string `json:"dir"`
	W     string `json:"w"`
	XC    string `json:"xc"`
}

func nodeText(v string, kind int, props string) string {
	k := ""
	if kind > 0 {
		k = fmt.Sprintf(":K%d", kind)
	}
	return "(" + v + k + props + ")"
}

func relText(kind, rng, dir string) string {
	body := "[:" + kind + rng + "]"
	switch dir {
	case "in":
		return "<-" + body + "-"
	case "both":
		return "-" + body + "-"
	}
	return "-" + body + "->"
}

// Render writes a skeleton as Cypher text: the clauses, then a RETURN of every variable they bind.
func Render(sk []SkClause) string {
	var sb strings.Builder
	bound := []string{}
	seen := map[string]bool{}
	bind := func(v string) {
		if !seen[v] {
			seen[v] = true
			bound = append(bound, v)
		}
	}
	for i, c := range sk {
		if c.Opt {
			sb.WriteString("optional ")
		}
		sb.WriteString("match ")
		var conds, cross []string
		if c.Sel == 1 || c.Sel == 3 {
			conds = append(conds, c.X+".name =~ 'a.*'")
		}
		if c.Sel == 2 || c.Sel == 3 {
			conds = append(conds, c.Y+".name contains 'b'")
		}
		// a condition that reads a variable of an earlier clause (the first one in scope other than x and y)
		if c.XC != "" && c.XC != "none" {
			for _, prev := range bound {
				if prev == c.X || prev == c.Y || strings.HasPrefix(prev, "p") {
					continue
				}
				switch c.XC {
				case "eq":
					cross = append(cross, c.X+".v = "+prev+".v")
				case "any":
					cross = append(cross, "any(i in "+c.X+".list where i = "+prev+".v)")
				case "noneof":
					cross = append(cross, "none(i in "+prev+".list where i = "+c.X+".v)")
				}
				break
			}
		}
		if c.PV && c.Shape != "node" {
			p := fmt.Sprintf("p%d", i)
			sb.WriteString(p + " = ")
			bind(p)
		}
		switch c.Shape {
		case "node":
			props := ""
			if c.Sel == 1 {
				props, conds = " {objectid: 't'}", nil
			}
			sb.WriteString(nodeText(c.X, c.XK, props))
			bind(c.X)
		case "step":
			sb.WriteString(nodeText(c.X, c.XK, "") + relText("E1", "", c.Dir) + nodeText(c.Y, c.YK, ""))
			bind(c.X)
			bind(c.Y)
		case "var":
			sb.WriteString(nodeText(c.X, c.XK, "") + relText("E1", "*1..", c.Dir) + nodeText(c.Y, c.YK, ""))
			bind(c.X)
			bind(c.Y)
		case "chain3":
			sb.WriteString(nodeText(c.X, c.XK, "") + relText("E1", "*0..", c.Dir) + "()" + relText("E2", "", c.Dir) + "()" + relText("E1", "", c.Dir) + nodeText(c.Y, c.YK, ""))
			bind(c.X)
			bind(c.Y)
		case "chain":
			sb.WriteString(nodeText(c.X, c.XK, "") + relText("E1", "*0..", c.Dir) + "()" + relText("E2", "", c.Dir) + nodeText(c.Y, c.YK, ""))
			bind(c.X)
			bind(c.Y)
		}
		conds = append(conds, cross...)
		if len(conds) > 0 {
			sb.WriteString(" where " + strings.Join(conds, " and "))
		}
		sb.WriteString(" ")
		if i+1 < len(sk) && c.W != "" && c.W != "none" {
			carried := bound
			if c.W == "x" {
				carried = []string{c.X}
			}
			sb.WriteString("with " + strings.Join(carried, ", ") + " ")
			bound = append([]string{}, carried...)
			seen = map[string]bool{}
			for _, v := range bound {
				seen[v] = true
			}
		}
	}
	sb.WriteString("return " + strings.Join(bound, ", "))
	return sb.String()
}

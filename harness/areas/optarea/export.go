// Package optarea binds spec/CypherSem to the optimiser's query rewrites (C02, Cypher half): every query the
// optimiser rewrites is exported, as written and as rewritten, in the form MatchSem.tla evaluates.
package optarea

import (
	"encoding/json"
	"flag"
	"fmt"
	"hash/fnv"
	"regexp"
	"sort"

	"dawgsverif/areas/frontarea"
	"dawgsverif/areas/walkarea"
	"dawgsverif/internal/tr"

	"github.com/specterops/dawgs/cypher/frontend"
	"github.com/specterops/dawgs/cypher/models/cypher"
	"github.com/specterops/dawgs/cypher/models/pgsql/optimize"
	"github.com/specterops/dawgs/cypher/models/walk"
	"github.com/specterops/dawgs/graph"
)

type exporter struct {
	nodeKinds map[string]int // node kinds and edge kinds are numbered separately: the graphs use 1..2 for each
	edgeKinds map[string]int
	hidden    []string
	next      int
}

func kindList(table map[string]int, ks graph.Kinds) []int {
	out := []int{}
	for _, k := range ks {
		n, ok := table[k.String()]
		if !ok {
			n = len(table) + 1
			table[k.String()] = n
		}
		out = append(out, n)
	}
	return out
}

func (s *exporter) name(v *cypher.Variable) string {
	if v != nil && v.Symbol != "" {
		return v.Symbol
	}
	s.next++
	h := fmt.Sprintf("_h%d", s.next)
	s.hidden = append(s.hidden, h)
	return h
}

func hashOf(x any) int {
	h := fnv.New32a()
	h.Write([]byte(walkarea.DumpOf(x)))
	return int(h.Sum32() % 997)
}

// variablesOf: the variables of the enclosing query an expression reads (a quantifier's own variable is local to it)
func variablesOf(x any) []string {
	seen, local := map[string]bool{}, map[string]bool{}
	_ = walk.CypherStructural(x, walk.NewSimpleVisitor[cypher.SyntaxNode](func(node cypher.SyntaxNode, _ walk.VisitorHandler) {
		if v, ok := node.(*cypher.Variable); ok && v.Symbol != "" {
			seen[v.Symbol] = true
		}
		if q, ok := node.(*cypher.IDInCollection); ok && q.Variable != nil {
			local[q.Variable.Symbol] = true
		}
	}))
	out := make([]string, 0, len(seen))
	for v := range seen {
		if local[v] {
			continue
		}
		out = append(out, v)
	}
	sort.Strings(out)
	return out
}

// clauses exports the reading clauses of one query part; ok=false when it holds something MatchSem does not model
func (s *exporter) clauses(readingClauses []*cypher.ReadingClause) ([]map[string]any, bool) {
	out := []map[string]any{}
	for _, rc := range readingClauses {
		if rc == nil || rc.Match == nil || rc.Unwind != nil {
			return nil, false
		}
		cl := map[string]any{"t": "match", "pats": []map[string]any{}, "atoms": []map[string]any{}}
		if rc.Match.Optional {
			cl["t"] = "optional"
		}
		atoms := []map[string]any{}
		pats := []map[string]any{}
		for _, part := range rc.Match.Pattern {
			if part == nil || part.ShortestPathPattern || part.AllShortestPathsPattern || len(part.PatternElements) == 0 {
				return nil, false
			}
			pat := map[string]any{"pv": "", "rev": part.PathDirectionReversed}
			if part.Variable != nil {
				pat["pv"] = part.Variable.Symbol
			}
			els := []map[string]any{}
			for i, pe := range part.PatternElements {
				if np, isNode := pe.AsNodePattern(); isNode {
					if i%2 != 0 {
						return nil, false
					}
					v := s.name(np.Variable)
					els = append(els, map[string]any{"t": "node", "v": v, "kinds": kindList(s.nodeKinds, np.Kinds)})
					if np.Properties != nil {
						atoms = append(atoms, map[string]any{"id": hashOf(np.Properties), "vars": []string{v}})
					}
				} else if rp, isRel := pe.AsRelationshipPattern(); isRel {
					if i%2 != 1 {
						return nil, false
					}
					v := s.name(rp.Variable)
					el := map[string]any{"t": "rel", "v": v, "kinds": kindList(s.edgeKinds, rp.Kinds), "single": rp.Range == nil, "lo": 1, "hi": 1}
					switch rp.Direction {
					case graph.DirectionOutbound:
						el["dir"] = "out"
					case graph.DirectionInbound:
						el["dir"] = "in"
					default:
						el["dir"] = "both"
					}
					if rp.Range != nil {
						el["hi"] = 0
						if rp.Range.StartIndex != nil {
							el["lo"] = int(*rp.Range.StartIndex)
						}
						if rp.Range.EndIndex != nil {
							el["hi"] = int(*rp.Range.EndIndex)
							if *rp.Range.EndIndex == 0 {
								return nil, false
							}
						}
					}
					els = append(els, el)
					if rp.Properties != nil {
						atoms = append(atoms, map[string]any{"id": hashOf(rp.Properties), "vars": []string{v}})
					}
				} else {
					return nil, false
				}
			}
			if len(els)%2 != 1 {
				return nil, false
			}
			pat["els"] = els
			pats = append(pats, pat)
		}
		if rc.Match.Where != nil {
			for _, e := range rc.Match.Where.Expressions {
				atoms = append(atoms, map[string]any{"id": hashOf(e), "vars": variablesOf(e)})
			}
		}
		cl["pats"], cl["atoms"] = pats, atoms
		out = append(out, cl)
	}
	return out, len(out) > 0
}

// bound collects the names a list of exported clauses binds, in order
func bound(clauses []map[string]any) []string {
	var out []string
	seen := map[string]bool{}
	add := func(v string) {
		if v != "" && !seen[v] {
			seen[v] = true
			out = append(out, v)
		}
	}
	for _, cl := range clauses {
		for _, pat := range cl["pats"].([]map[string]any) {
			add(pat["pv"].(string))
			for _, el := range pat["els"].([]map[string]any) {
				add(el["v"].(string))
			}
		}
	}
	return out
}

// parts exports a query as a sequence of parts [clauses, carry, drop]: the parts of a multi-part query as long as each
// WITH only hands variables on (optionally renamed) - no DISTINCT, aggregation, ORDER BY, SKIP, LIMIT or WHERE - and then
// the final part; a WITH that does more ends the export there (what has been exported up to it is still evaluated).
func (s *exporter) parts(q *cypher.RegularQuery) ([]map[string]any, bool) {
	if q == nil || q.SingleQuery == nil {
		return nil, false
	}
	type rawPart struct {
		clauses []*cypher.ReadingClause
		with    *cypher.With
	}
	var raw []rawPart
	if mp := q.SingleQuery.MultiPartQuery; mp != nil {
		for _, p := range mp.Parts {
			if p == nil || len(p.UpdatingClauses) > 0 {
				return nil, false
			}
			raw = append(raw, rawPart{p.ReadingClauses, p.With})
		}
		if mp.SinglePartQuery != nil {
			raw = append(raw, rawPart{mp.SinglePartQuery.ReadingClauses, nil})
		}
	} else if sp := q.SingleQuery.SinglePartQuery; sp != nil {
		raw = append(raw, rawPart{sp.ReadingClauses, nil})
	}
	out := []map[string]any{}
	visible := map[string]bool{} // names the next part can see
	for k, rp := range raw {
		if len(rp.clauses) == 0 {
			break
		}
		clauses, ok := s.clauses(rp.clauses)
		if !ok {
			break
		}
		part := map[string]any{"clauses": clauses, "carry": []map[string]string{}, "drop": []map[string]string{}}
		for _, v := range bound(clauses) {
			visible[v] = true
		}
		if rp.with == nil {
			out = append(out, part)
			break
		}
		pr := rp.with.Projection
		if pr == nil || pr.Distinct || pr.All || pr.Order != nil || pr.Skip != nil || pr.Limit != nil || rp.with.Where != nil {
			out = append(out, part)
			break
		}
		carry := []map[string]string{}
		next := map[string]bool{}
		plain := true
		for _, it := range pr.Items {
			pi, isItem := it.(*cypher.ProjectionItem)
			if !isItem {
				plain = false
				break
			}
			v, isVar := pi.Expression.(*cypher.Variable)
			if !isVar || !visible[v.Symbol] {
				plain = false
				break
			}
			to := v.Symbol
			if pi.Alias != nil && pi.Alias.Symbol != "" {
				to = pi.Alias.Symbol
			}
			carry = append(carry, map[string]string{"f": v.Symbol, "t": to})
			next[to] = true
		}
		if !plain {
			out = append(out, part)
			break
		}
		// everything else stays in the row under a made-up name, so that rows keep their multiplicity
		drop := []map[string]string{}
		carried := map[string]bool{}
		for _, c := range carry {
			carried[c["f"]] = true
		}
		names := make([]string, 0, len(visible))
		for v := range visible {
			names = append(names, v)
		}
		sort.Strings(names)
		for _, v := range names {
			if !carried[v] {
				h := fmt.Sprintf("_w%d_%s", k, v)
				s.hidden = append(s.hidden, h)
				drop = append(drop, map[string]string{"f": v, "t": h})
			}
		}
		part["carry"], part["drop"] = carry, drop
		out = append(out, part)
		visible = next
	}
	return out, len(out) > 0
}

// structure strips the made-up names, which differ between two exports of the same query
func structure(parts []map[string]any) string {
	b, _ := json.Marshal(parts)
	return hiddenName.ReplaceAllString(string(b), "_")
}

var hiddenName = regexp.MustCompile(`_[hw][0-9]+(_[A-Za-z0-9_]+)?`)

// Graph is a small property graph as printed by GraphGen.tla.
type Graph struct {
	N     int              `json:"n"`
	Kinds [][]int          `json:"kinds"`
	Edges []map[string]int `json:"edges"`
}

// Export writes, for every model whose first part the optimiser changes, the pair (as written, as rewritten) followed
// by the graphs both are to be evaluated on.
func Export(args []string) {
	fs := flag.NewFlagSet("opt export", flag.ExitOnError)
	outp := fs.String("out", "trace.ndjson", "")
	graphs := fs.String("graphs", "graphs.ndjson", "")
	perPair := fs.Int("per-pair", 150, "graphs per pair")
	all := fs.Bool("unchanged-too", false, "also export pairs the optimiser left alone (the identity must pass)")
	seed := fs.Int("seed", 1, "")
	skeletons := fs.String("skeletons", "", "query skeletons printed by QueryGen.tla")
	fs.Parse(args)
	gs := tr.ReadLines[Graph](*graphs)
	w := tr.Create(*outp)
	hid, changed, unsupported := 0, 0, 0
	models := frontarea.Models()
	if *skeletons != "" {
		seen := map[string]bool{}
		for _, sk := range tr.ReadLines[[]SkClause](*skeletons) {
			text := Render(sk)
			if seen[text] {
				continue
			}
			seen[text] = true
			if q, err := frontend.ParseCypher(frontend.NewContext(), text); err == nil {
				models = append(models, frontarea.Model{Text: text, Tag: "skeleton", Query: q})
			}
		}
	}
	for mi, m := range models {
		var plan optimize.Plan
		var err error
		func() {
			defer func() {
				if r := recover(); r != nil {
					err = fmt.Errorf("panic: %v", r)
				}
			}()
			plan, err = optimize.Optimize(m.Query)
		}()
		if err != nil || plan.Query == nil {
			continue
		}
		ex := &exporter{nodeKinds: map[string]int{}, edgeKinds: map[string]int{}}
		orig, ok1 := ex.parts(m.Query)
		hiddenOrig := ex.hidden
		ex.hidden, ex.next = nil, 1000
		opt, ok2 := ex.parts(plan.Query)
		if !ok1 || !ok2 || len(orig) != len(opt) || len(ex.nodeKinds) > 2 || len(ex.edgeKinds) > 2 {
			unsupported++
			continue
		}
		same := walkarea.DumpOf(structure(orig)) == walkarea.DumpOf(structure(opt))
		if same && !*all {
			continue
		}
		if !same {
			changed++
		}
		rules := []string{}
		for _, r := range plan.Rules {
			if r.Applied {
				rules = append(rules, r.Name)
			}
		}
		if hiddenOrig == nil {
			hiddenOrig = []string{}
		}
		if ex.hidden == nil {
			ex.hidden = []string{}
		}
		w.Emit(map[string]any{"e": "pair", "hid": hid, "text": m.Text, "rewritten": !same, "rules": rules, "node_kinds": ex.nodeKinds, "edge_kinds": ex.edgeKinds,
			"orig": map[string]any{"parts": orig, "hidden": hiddenOrig}, "opt": map[string]any{"parts": opt, "hidden": ex.hidden}})
		for k := 0; k < *perPair && k < len(gs); k++ {
			g := gs[(k*7919+mi*104729+*seed*15485863)%len(gs)]
			w.Emit(map[string]any{"e": "graph", "hid": hid, "g": g})
		}
		hid++
	}
	w.Close()
	fmt.Printf("{\"events\":%d,\"pairs\":%d,\"rewritten\":%d,\"unsupported\":%d}\n", w.N, hid, changed, unsupported)
}

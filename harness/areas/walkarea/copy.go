package walkarea

import (
	"flag"
	"fmt"
	"reflect"
	"sort"
	"strings"

	"dawgsverif/areas/frontarea"
	"dawgsverif/internal/tr"

	"github.com/specterops/dawgs/cypher/models/cypher"
	"github.com/specterops/dawgs/cypher/models/walk"
	"github.com/specterops/dawgs/graph"
)

// dump is a canonical rendering of a model: types, field names and values, nil and empty slices alike.
func dump(v reflect.Value, sb *strings.Builder, depth int) {
	if depth > 200 {
		sb.WriteString("<deep>")
		return
	}
	switch v.Kind() {
	case reflect.Invalid:
		sb.WriteString("nil")
	case reflect.Interface:
		if v.IsNil() {
			sb.WriteString("nil")
		} else {
			dump(v.Elem(), sb, depth+1)
		}
	case reflect.Pointer:
		if v.IsNil() {
			sb.WriteString("nil")
		} else {
			sb.WriteString("&")
			dump(v.Elem(), sb, depth+1)
		}
	case reflect.Struct:
		sb.WriteString(v.Type().Name() + "{")
		for i := 0; i < v.NumField(); i++ {
			f := v.Type().Field(i)
			if f.Name == "errors" || f.Type.Name() == "errorContext" {
				continue
			}
			sb.WriteString(f.Name + ":")
			dump(v.Field(i), sb, depth+1)
			sb.WriteString(",")
		}
		sb.WriteString("}")
	case reflect.Slice:
		sb.WriteString("[")
		for i := 0; i < v.Len(); i++ {
			dump(v.Index(i), sb, depth+1)
			sb.WriteString(",")
		}
		sb.WriteString("]")
	case reflect.Map:
		keys := v.MapKeys()
		sort.Slice(keys, func(i, j int) bool { return fmt.Sprint(keys[i]) < fmt.Sprint(keys[j]) })
		sb.WriteString("map[")
		for _, k := range keys {
			sb.WriteString(fmt.Sprint(k) + ":")
			dump(v.MapIndex(k), sb, depth+1)
			sb.WriteString(",")
		}
		sb.WriteString("]")
	case reflect.String:
		fmt.Fprintf(sb, "%q", v.String())
	default:
		if v.CanInterface() {
			fmt.Fprintf(sb, "%v", v.Interface())
		} else {
			fmt.Fprintf(sb, "%v", v)
		}
	}
}

// DumpOf renders any value canonically (types, field names, values; nil and empty slices alike).
func DumpOf(x any) string {
	var sb strings.Builder
	dump(reflect.ValueOf(x), &sb, 0)
	return sb.String()
}

// walkTypes: the sequence of node types the structural walker enters.
func walkTypes(x any) string {
	var sb strings.Builder
	err := walk.CypherStructural(x, walk.NewSimpleVisitor[cypher.SyntaxNode](func(node cypher.SyntaxNode, _ walk.VisitorHandler) {
		fmt.Fprintf(&sb, "%T;", node)
	}))
	if err != nil {
		sb.WriteString("error:" + err.Error())
	}
	return sb.String()
}

func isPayload(f reflect.StructField) bool {
	// Literal.Value / Parameter.Value: opaque user data, not a part of the model
	return f.Type.Kind() == reflect.Interface && f.Type.Name() == "" && f.Type.NumMethod() == 0
}

// mutableParts collects the addresses of everything in a model that can be changed in place: nodes (pointers), the
// backing arrays of non-empty slices, maps, and the targets of *int64 fields.
func mutableParts(x any) map[uintptr]string {
	out := map[uintptr]string{}
	var visit func(v reflect.Value, path string)
	visit = func(v reflect.Value, path string) {
		switch v.Kind() {
		case reflect.Interface:
			if !v.IsNil() {
				visit(v.Elem(), path)
			}
		case reflect.Pointer:
			if !v.IsNil() {
				if _, seen := out[v.Pointer()]; !seen {
					if v.Type().Elem().Size() > 0 {
						out[v.Pointer()] = path + "(*" + v.Type().Elem().Name() + ")"
					}
					visit(v.Elem(), path)
				}
			}
		case reflect.Struct:
			for i := 0; i < v.NumField(); i++ {
				f := v.Type().Field(i)
				if isPayload(f) || f.Type.Name() == "errorContext" {
					continue
				}
				visit(v.Field(i), path+"."+f.Name)
			}
		case reflect.Slice:
			// a backing array is a mutable part whether or not the list currently shows any of it: appends on either
			// side of a shared empty list with spare capacity overwrite each other
			if v.Cap() > 0 {
				out[v.Pointer()] = path + "[]"
			}
			if v.Type() == kindsType {
				return // kinds are immutable values
			}
			for i := 0; i < v.Len(); i++ {
				visit(v.Index(i), fmt.Sprintf("%s[%d]", path, i))
			}
		case reflect.Map:
			if !v.IsNil() {
				out[v.Pointer()] = path + "{}"
				for _, k := range v.MapKeys() {
					visit(v.MapIndex(k), fmt.Sprintf("%s{%v}", path, k))
				}
			}
		}
	}
	visit(reflect.ValueOf(x), "")
	return out
}

// emptyLists sets the length of every settable, non-empty list of a model (kind lists excepted) to zero, keeping its
// capacity, innermost lists first; it returns how many lists it emptied.
func emptyLists(x any) int {
	n := 0
	seen := map[uintptr]bool{}
	var visit func(v reflect.Value)
	visit = func(v reflect.Value) {
		switch v.Kind() {
		case reflect.Interface:
			if !v.IsNil() {
				visit(v.Elem())
			}
		case reflect.Pointer:
			if !v.IsNil() && !seen[v.Pointer()] {
				seen[v.Pointer()] = true
				visit(v.Elem())
			}
		case reflect.Struct:
			for i := 0; i < v.NumField(); i++ {
				f := v.Type().Field(i)
				if !f.IsExported() && !f.Anonymous || isPayload(f) || f.Type.Name() == "errorContext" {
					continue
				}
				visit(v.Field(i))
			}
		case reflect.Slice:
			if v.Type() == kindsType {
				return
			}
			for i := 0; i < v.Len(); i++ {
				visit(v.Index(i))
			}
			if v.Len() > 0 && v.CanSet() {
				v.SetLen(0)
				n++
			}
		}
	}
	visit(reflect.ValueOf(x))
	return n
}

// mutate changes every scalar, every kind list, every map and every string slice of a model in place.
func mutate(x any) int {
	changed := 0
	seen := map[uintptr]bool{}
	var visit func(v reflect.Value)
	visit = func(v reflect.Value) {
		switch v.Kind() {
		case reflect.Interface:
			if !v.IsNil() {
				visit(v.Elem())
			}
		case reflect.Pointer:
			if !v.IsNil() && !seen[v.Pointer()] {
				seen[v.Pointer()] = true
				visit(v.Elem())
			}
		case reflect.Struct:
			for i := 0; i < v.NumField(); i++ {
				f := v.Type().Field(i)
				if !f.IsExported() && !f.Anonymous || isPayload(f) || f.Type.Name() == "errorContext" {
					continue
				}
				visit(v.Field(i))
			}
		case reflect.Slice:
			if v.Type() == kindsType {
				if v.Len() > 0 && v.Index(0).CanSet() {
					v.Index(0).Set(reflect.ValueOf(graph.StringKind("Mutated~")))
					changed++
				}
				return
			}
			for i := 0; i < v.Len(); i++ {
				visit(v.Index(i))
			}
		case reflect.Map:
			if !v.IsNil() && v.Type() == mapLiteralType {
				for _, k := range v.MapKeys() {
					visit(v.MapIndex(k))
				}
				v.SetMapIndex(reflect.ValueOf("mutated~"), reflect.ValueOf(cypher.Expression(cypher.NewLiteral(1, false))))
				changed++
			}
		case reflect.String:
			if v.CanSet() {
				v.SetString(v.String() + "~")
				changed++
			}
		case reflect.Bool:
			if v.CanSet() {
				v.SetBool(!v.Bool())
				changed++
			}
		case reflect.Int, reflect.Int64, reflect.Int32:
			if v.CanSet() {
				v.SetInt(v.Int() + 1)
				changed++
			}
		}
	}
	visit(reflect.ValueOf(x))
	return changed
}

func copyFacts(w *tr.Writer, hid int, text string, node any, copyOf func(any) any) {
	ev := map[string]any{"e": "copy", "hid": hid, "type": fmt.Sprintf("%T", node), "text": text, "panic": false, "equal": false, "shared": 0,
		"orig_unchanged": false, "copy_unchanged": false, "mutations": 0, "shared_at": ""}
	func() {
		defer func() {
			if r := recover(); r != nil {
				ev["panic"] = true
				ev["panicmsg"] = fmt.Sprint(r)
			}
		}()
		before := DumpOf(node)
		c := copyOf(node)
		// equal: the same canonical dump, the same type, and the same structural walk (which tells a nil optional
		// field or map from an empty one, as the walkers do)
		ev["equal"] = DumpOf(c) == before && reflect.TypeOf(c) == reflect.TypeOf(node) && walkTypes(c) == walkTypes(node)
		a, b := mutableParts(node), mutableParts(c)
		shared := 0
		for addr, where := range a {
			if _, both := b[addr]; both {
				shared++
				if ev["shared_at"] == "" {
					ev["shared_at"] = where
				}
			}
		}
		ev["shared"] = shared
		ev["mutations"] = mutate(c)
		ev["orig_unchanged"] = DumpOf(node) == before
		// and the other way round, on a fresh pair, leaving the caller's model as it was
		o2 := copyOf(node)
		c2 := copyOf(o2)
		mid := DumpOf(c2)
		mutate(o2)
		ev["copy_unchanged"] = DumpOf(c2) == mid
	}()
	w.Emit(ev)
}

// Copy checks cypher.Copy on every model and on every node of every model.
func Copy(args []string) {
	fs := flag.NewFlagSet("walk copy", flag.ExitOnError)
	outp := fs.String("out", "trace.ndjson", "")
	limit := fs.Int("limit", 0, "")
	fs.Parse(args)
	w := tr.Create(*outp)
	models := frontarea.Models()
	if *limit > 0 && len(models) > *limit {
		models = models[:*limit]
	}
	hid := 0
	for _, m := range models {
		t := buildTree(m.Query)
		for _, n := range t.nodes[1:] {
			if n.synth || reflect.ValueOf(n.val).Kind() != reflect.Pointer {
				continue
			}
			copyFacts(w, hid, m.Text, n.val, func(x any) any { return cypher.Copy(x) })
			hid++
		}
		// the same model after its lists were emptied in place (what expressionList.Remove or a [:0] reset leaves
		// behind: no elements, spare capacity): every m-th model, whole query only
		if hid%5 == 0 {
			if own := cypher.Copy(m.Query); own != nil && emptyLists(own) > 0 {
				copyFacts(w, hid, m.Text+"  (lists emptied in place)", own, func(x any) any { return cypher.Copy(x) })
				hid++
			}
		}
	}
	w.Close()
	fmt.Printf("{\"events\":%d,\"models\":%d}\n", w.N, len(models))
}

package walkarea

import (
	"reflect"
	"sort"

	"github.com/specterops/dawgs/cypher/models/cypher"
	"github.com/specterops/dawgs/graph"
)

// The reference tree of a cypher model: what "every modelled child" means, computed by reflection over the struct
// fields and independent of the hand-written cursor constructors in walk_cypher.go.  A child is a field (or slice
// element, or map entry) whose type is one of the model's node types: a pointer to a struct of package cypher, an
// Expression, a MapLiteral (children: one MapItem per key, in key order), a *ListLiteral, graph.Kinds, an Operator.
// Scalars (strings, bools, *int64, []string, SortOrder, ...) and opaque payloads (Literal.Value, Parameter.Value) are
// attributes, not children.  Optional fields that are nil are absent; a nil element of a slice is a nil branch.

type rnode struct {
	id     int
	val    any
	parent int
	kids   []int
	synth  bool // a MapItem made up for a map entry (the walkers make up their own)
	taken  bool
}

type rtree struct {
	nodes   []*rnode // nodes[0] unused; ids from 1
	nilPars []int    // parents owning a nil branch
}

var (
	cypherPkg      = reflect.TypeOf(cypher.Variable{}).PkgPath()
	expressionType = reflect.TypeOf((*cypher.Expression)(nil)).Elem()
	syntaxNodeType = reflect.TypeOf((*cypher.SyntaxNode)(nil)).Elem()
	operatorType   = reflect.TypeOf(cypher.Operator(""))
	kindsType      = reflect.TypeOf(graph.Kinds{})
	mapLiteralType = reflect.TypeOf(cypher.MapLiteral{})
)

func isNilValue(v any) bool {
	if v == nil {
		return true
	}
	rv := reflect.ValueOf(v)
	switch rv.Kind() {
	case reflect.Pointer, reflect.Interface, reflect.Map, reflect.Slice, reflect.Func, reflect.Chan:
		return rv.IsNil()
	}
	return false
}

func isNodeFieldType(t reflect.Type) bool {
	switch {
	case t == expressionType || t == syntaxNodeType || t == operatorType || t == kindsType || t == mapLiteralType:
		return true
	case t.Kind() == reflect.Pointer && t.Elem().PkgPath() == cypherPkg && (t.Elem().Kind() == reflect.Struct || t.Elem().Kind() == reflect.Slice):
		return true
	}
	return false
}

// children lists the child values of a node; ok=false entries (nil) are nil branches.
func children(val any) (kids []any, synth []bool, nils int) {
	add := func(v any, s bool) {
		kids = append(kids, v)
		synth = append(synth, s)
	}
	switch t := val.(type) {
	case cypher.MapLiteral:
		keys := make([]string, 0, len(t))
		for k := range t {
			keys = append(keys, k)
		}
		sort.Strings(keys)
		for _, k := range keys {
			add(&cypher.MapItem{Key: k, Value: t[k]}, true)
		}
		return
	case graph.Kinds, cypher.Operator:
		return
	case *cypher.ListLiteral:
		for _, e := range *t {
			if isNilValue(e) {
				nils++
			} else {
				add(e, false)
			}
		}
		return
	}
	rv := reflect.ValueOf(val)
	if rv.Kind() != reflect.Pointer || rv.Elem().Kind() != reflect.Struct || rv.Type().Elem().PkgPath() != cypherPkg {
		return
	}
	var fields func(sv reflect.Value)
	fields = func(sv reflect.Value) {
		for i := 0; i < sv.NumField(); i++ {
			sf, fv := sv.Type().Field(i), sv.Field(i)
			if sf.Anonymous && fv.Kind() == reflect.Struct {
				fields(fv)
				continue
			}
			if !sf.IsExported() {
				continue
			}
			ft := sf.Type
			switch {
			case ft == operatorType:
				add(fv.Interface(), false)
			case isNodeFieldType(ft):
				if fv.Kind() == reflect.Interface && !fv.IsNil() && isNilValue(fv.Interface()) {
					nils++ // a typed nil inside an Expression: the owner's nil check lets it through
				} else if !isNilValue(fv.Interface()) {
					add(fv.Interface(), false)
				}
			case ft.Kind() == reflect.Slice && isNodeFieldType(ft.Elem()) && ft.Elem() != operatorType:
				for j := 0; j < fv.Len(); j++ {
					if e := fv.Index(j).Interface(); isNilValue(e) {
						nils++
					} else {
						add(e, false)
					}
				}
			}
		}
	}
	fields(rv.Elem())
	return
}

func buildTree(root any) *rtree {
	t := &rtree{nodes: []*rnode{nil}}
	if isNilValue(root) {
		return t
	}
	var add func(val any, parent int, synth bool) int
	add = func(val any, parent int, synth bool) int {
		n := &rnode{id: len(t.nodes), val: val, parent: parent, synth: synth}
		t.nodes = append(t.nodes, n)
		kids, ks, nils := children(val)
		for i := 0; i < nils; i++ {
			t.nilPars = append(t.nilPars, n.id)
		}
		for i, k := range kids {
			n.kids = append(n.kids, add(k, n.id, ks[i]))
		}
		return n.id
	}
	add(root, 0, false)
	return t
}

func (t *rtree) par() []int {
	p := make([]int, 0, len(t.nodes))
	for _, n := range t.nodes[1:] {
		p = append(p, n.parent)
	}
	return p
}

func (t *rtree) nk() []int {
	p := make([]int, 0, len(t.nodes))
	for _, n := range t.nodes[1:] {
		p = append(p, len(n.kids))
	}
	return p
}

// sameNode: is the value a walker handed to a callback the value at a node of the reference tree?
func sameNode(n *rnode, got any) bool {
	if got == nil || reflect.TypeOf(got) != reflect.TypeOf(n.val) {
		return false
	}
	gv, nv := reflect.ValueOf(got), reflect.ValueOf(n.val)
	switch gv.Kind() {
	case reflect.Pointer:
		if n.synth {
			return got.(*cypher.MapItem).Key == n.val.(*cypher.MapItem).Key
		}
		return gv.Pointer() == nv.Pointer()
	case reflect.Map:
		return gv.Pointer() == nv.Pointer()
	case reflect.Slice:
		return gv.Len() == nv.Len() && (gv.Len() == 0 || gv.Pointer() == nv.Pointer())
	case reflect.String:
		return gv.String() == nv.String()
	}
	return reflect.DeepEqual(got, n.val)
}

// match finds the not yet entered node for a value: among the children of top (strict) or its descendants.
func (t *rtree) match(top int, got any, descendants bool) int {
	if top == 0 {
		if len(t.nodes) > 1 && !t.nodes[1].taken && sameNode(t.nodes[1], got) {
			t.nodes[1].taken = true
			return 1
		}
		return 0
	}
	var find func(p int) int
	find = func(p int) int {
		for _, k := range t.nodes[p].kids {
			if n := t.nodes[k]; !n.taken && sameNode(n, got) {
				return k
			}
		}
		if descendants {
			for _, k := range t.nodes[p].kids {
				if id := find(k); id != 0 {
					return id
				}
			}
		}
		return 0
	}
	id := find(top)
	if id != 0 {
		t.nodes[id].taken = true
	}
	return id
}

func (t *rtree) reset() {
	for _, n := range t.nodes[1:] {
		n.taken = false
	}
}

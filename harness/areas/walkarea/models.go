package walkarea

import (
	"context"
	"flag"
	"fmt"
	"math/rand"
	"reflect"
	"strings"

	"dawgsverif/areas/frontarea"
	"dawgsverif/internal/tr"

	"github.com/specterops/dawgs/cypher/models/cypher"
	"github.com/specterops/dawgs/cypher/models/pgsql"
	"github.com/specterops/dawgs/cypher/models/pgsql/translate"
	"github.com/specterops/dawgs/cypher/models/walk"
)

type walker func(node cypher.SyntaxNode, visitor walk.Visitor[cypher.SyntaxNode]) error

// walkModel runs one real walker over a model with a reaction script and records tree, callbacks and result.
// Node ids are those of the reflection tree; 0 means the walker visited something that is no node of it.
func walkModel(w *tr.Writer, hid int, mode, text string, root cypher.SyntaxNode, script []string, run walker) (callbacks int) {
	t := buildTree(root)
	nilpar := 0
	if len(t.nilPars) > 0 {
		nilpar = t.nilPars[0]
	}
	w.Emit(map[string]any{"e": "tree", "hid": hid, "mode": mode, "n": len(t.nodes) - 1, "par": t.par(), "nk": t.nk(), "nilpar": nilpar,
		"text": text, "roottype": fmt.Sprintf("%T", root)})
	var stack []int
	vis := newScriptVisitor(script, func(cb string, node cypher.SyntaxNode, r string) {
		callbacks++
		id := 0
		switch cb {
		case "enter":
			top := 0
			if len(stack) > 0 {
				top = stack[len(stack)-1]
			}
			if len(stack) == 0 || top != 0 {
				id = t.match(top, node, mode == "semantic")
			}
			stack = append(stack, id)
		default:
			if len(stack) > 0 {
				if top := stack[len(stack)-1]; top != 0 && sameNode(t.nodes[top], node) {
					id = top
				}
				if cb == "exit" {
					stack = stack[:len(stack)-1]
				}
			}
		}
		w.Emit(map[string]any{"e": "cb", "hid": hid, "cb": cb, "n": id, "r": r, "t": strings.TrimPrefix(fmt.Sprintf("%T", node), "*cypher.")})
	})
	res := ""
	func() {
		defer func() {
			if r := recover(); r != nil {
				res = "panic: " + fmt.Sprint(r)
			}
		}()
		res = resultOf(run(root, vis))
	}()
	w.Emit(map[string]any{"e": "end", "hid": hid, "res": res})
	return callbacks
}

// nilled returns a copy of the model with the k-th element of its node slices set to nil (ok=false: no such element).
func nilled(q *cypher.RegularQuery, k int) (*cypher.RegularQuery, bool) {
	c := cypher.Copy(q)
	count := 0
	done := false
	seen := map[uintptr]bool{}
	var visit func(v reflect.Value)
	visit = func(v reflect.Value) {
		if done {
			return
		}
		switch v.Kind() {
		case reflect.Interface:
			if !v.IsNil() {
				visit(v.Elem())
			}
		case reflect.Pointer:
			if !v.IsNil() && !seen[v.Pointer()] {
				seen[v.Pointer()] = true
				visit(v.Elem())
			}
		case reflect.Struct:
			for i := 0; i < v.NumField(); i++ {
				if v.Type().Field(i).IsExported() || v.Type().Field(i).Anonymous {
					visit(v.Field(i))
				}
			}
		case reflect.Slice:
			if isNodeFieldType(v.Type().Elem()) && v.Type().Elem() != operatorType && v.Type() != kindsType {
				for i := 0; i < v.Len() && !done; i++ {
					if count == k && v.Index(i).CanSet() {
						v.Index(i).Set(reflect.Zero(v.Type().Elem()))
						done = true
						return
					}
					count++
					visit(v.Index(i))
				}
			}
		case reflect.Map:
			if v.Type() == mapLiteralType {
				for _, key := range v.MapKeys() {
					visit(v.MapIndex(key))
				}
			}
		}
	}
	visit(reflect.ValueOf(c))
	return c, done
}

// Models walks every corpus model with the structural and the semantic walker: undisturbed, with a scripted reaction at
// sampled callbacks, and (structural) with one slice element set to nil; and walks the translated SQL with walk.PgSQL.
func Models(args []string) {
	fs := flag.NewFlagSet("walk models", flag.ExitOnError)
	outp := fs.String("out", "trace.ndjson", "")
	seed := fs.Int64("seed", 1, "")
	reacts := fs.Int("reacts", 4, "scripted-reaction walks per model and walker")
	nils := fs.Int("nils", 2, "nil-branch walks per model")
	limit := fs.Int("limit", 0, "use only the first N models")
	fs.Parse(args)
	rng := rand.New(rand.NewSource(*seed))
	w := tr.Create(*outp)
	models := frontarea.Models()
	if *limit > 0 && len(models) > *limit {
		models = models[:*limit]
	}
	hid := 0
	mapper := frontarea.NewMapper()
	for _, m := range models {
		for _, wk := range []struct {
			mode string
			run  walker
		}{{"structural", walk.CypherStructural}, {"semantic", walk.Cypher}} {
			n := walkModel(w, hid, wk.mode, m.Text, m.Query, nil, wk.run)
			hid++
			for i := 0; i < *reacts && n > 0; i++ {
				script := make([]string, rng.Intn(n)+1)
				for j := range script {
					script[j] = "none"
				}
				script[len(script)-1] = []string{"consume", "done", "error", "consume"}[(i+hid)%4]
				if i%3 == 2 && len(script) > 3 {
					script[rng.Intn(len(script)-1)] = "consume"
				}
				walkModel(w, hid, wk.mode, m.Text, m.Query, script, wk.run)
				hid++
			}
		}
		for i := 0; i < *nils; i++ {
			if c, ok := nilled(m.Query, rng.Intn(40)); ok {
				walkModel(w, hid, "structural", m.Text, c, nil, walk.CypherStructural)
				hid++
			}
		}
		// sub-trees as traversal roots (every node type is a legal root)
		t := buildTree(m.Query)
		for i := 0; i < 3 && len(t.nodes) > 2; i++ {
			sub := t.nodes[1+rng.Intn(len(t.nodes)-1)]
			if sub.synth {
				continue
			}
			walkModel(w, hid, "structural", m.Text, sub.val, nil, walk.CypherStructural)
			hid++
		}
		// the SQL the translator builds for the model, walked by walk.PgSQL: the protocol alone
		func() {
			defer func() { recover() }()
			res, err := translate.Translate(context.Background(), cypher.Copy(m.Query), mapper, nil, 1)
			if err != nil || res.Statement == nil {
				return
			}
			walkFree(w, hid, m.Text, res.Statement, nil)
			hid++
			n := 40
			script := make([]string, rng.Intn(n)+1)
			for j := range script {
				script[j] = "none"
			}
			script[len(script)-1] = []string{"consume", "done", "error"}[hid%3]
			walkFree(w, hid, m.Text, res.Statement, script)
			hid++
		}()
	}
	// nil roots
	for _, wk := range []walker{walk.CypherStructural, walk.Cypher} {
		walkModel(w, hid, "structural", "<nil root>", nil, nil, wk)
		hid++
		walkModel(w, hid, "structural", "<typed nil root>", (*cypher.RegularQuery)(nil), nil, wk)
		hid++
	}
	w.Close()
	fmt.Printf("{\"events\":%d,\"models\":%d,\"walks\":%d}\n", w.N, len(models), hid)
}

// walkFree records a walk.PgSQL walk without a reference tree: ids are given at Enter, and Visit / Exit must name the
// node on top of the stack.
func walkFree(w *tr.Writer, hid int, text string, root pgsql.SyntaxNode, script []string) {
	w.Emit(map[string]any{"e": "tree", "hid": hid, "mode": "free", "n": 0, "par": []int{}, "nk": []int{}, "nilpar": 0, "text": text, "roottype": fmt.Sprintf("%T", root)})
	type open struct {
		id  int
		val any
	}
	var stack []open
	next := 1
	same := func(a, b any) bool {
		if reflect.TypeOf(a) != reflect.TypeOf(b) {
			return false
		}
		av, bv := reflect.ValueOf(a), reflect.ValueOf(b)
		if av.Kind() == reflect.Pointer {
			return av.Pointer() == bv.Pointer()
		}
		return reflect.DeepEqual(a, b)
	}
	vis := newScriptVisitor(script, func(cb string, node pgsql.SyntaxNode, r string) {
		id := 0
		if cb == "enter" {
			id = next
			next++
			stack = append(stack, open{id, node})
		} else if len(stack) > 0 {
			if top := stack[len(stack)-1]; same(top.val, node) {
				id = top.id
			}
			if cb == "exit" {
				stack = stack[:len(stack)-1]
			}
		}
		w.Emit(map[string]any{"e": "cb", "hid": hid, "cb": cb, "n": id, "r": r})
	})
	res := ""
	func() {
		defer func() {
			if r := recover(); r != nil {
				res = "panic: " + fmt.Sprint(r)
			}
		}()
		res = resultOf(walk.PgSQL(root, vis))
	}()
	w.Emit(map[string]any{"e": "end", "hid": hid, "res": res})
}

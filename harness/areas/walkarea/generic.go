// Package walkarea binds spec/Walk to the real walkers and to cypher.Copy (C11).
package walkarea

import (
	"errors"
	"flag"
	"fmt"

	"dawgsverif/internal/tr"

	"github.com/specterops/dawgs/cypher/models/walk"
)

var errVisitor = errors.New("scripted visitor error")
var errNilBranch = errors.New("nil branch")

// scriptVisitor reacts to its k-th callback as the script says and logs every callback.
type scriptVisitor[N any] struct {
	walk.VisitorHandler
	script []string
	k      int
	log    func(cb string, node N, reaction string)
}

func newScriptVisitor[N any](script []string, log func(cb string, node N, reaction string)) *scriptVisitor[N] {
	return &scriptVisitor[N]{VisitorHandler: walk.NewCancelableErrorHandler(), script: script, log: log}
}

func (s *scriptVisitor[N]) react(cb string, node N) {
	r := "none"
	if s.k < len(s.script) {
		r = s.script[s.k]
	}
	s.k++
	s.log(cb, node, r)
	switch r {
	case "consume":
		s.Consume()
	case "done":
		s.SetDone()
	case "error":
		s.SetError(errVisitor)
	}
}

func (s *scriptVisitor[N]) Enter(node N) { s.react("enter", node) }
func (s *scriptVisitor[N]) Visit(node N) { s.react("visit", node) }
func (s *scriptVisitor[N]) Exit(node N)  { s.react("exit", node) }

func resultOf(err error) string {
	switch {
	case err == nil:
		return "ok"
	case errors.Is(err, errVisitor):
		return "err"
	default:
		return "ctor_err"
	}
}

type genCb struct {
	Cb string `json:"cb"`
	N  int    `json:"n"`
}

// genHist is one finished walk of the M-spec, as printed by WalkGen.tla.
type genHist struct {
	N       int      `json:"n"`
	Par     []int    `json:"par"`
	NilNode int      `json:"nilnode"`
	NilPos  string   `json:"nilpos"`
	Script  []string `json:"script"`
	Cbs     []genCb  `json:"cbs"`
	Res     string   `json:"res"`
}

type gnode struct {
	id   int
	kids []*gnode
}

// Generic replays every TLC-generated walk (tree, nil branch, reaction script) on the real walk.Generic with a node
// type of the harness's own, records the callbacks, and notes whether they are the ones the M-spec made.
func Generic(args []string) {
	fs := flag.NewFlagSet("walk generic", flag.ExitOnError)
	in := fs.String("in", "hist.ndjson", "")
	outp := fs.String("out", "trace.ndjson", "")
	fs.Parse(args)
	w := tr.Create(*outp)
	drift := 0
	for hid, h := range tr.ReadLines[genHist](*in) {
		nodes := make([]*gnode, h.N+1)
		for i := 1; i <= h.N; i++ {
			nodes[i] = &gnode{id: i}
		}
		nk := make([]int, h.N)
		for i := 2; i <= h.N; i++ {
			nodes[h.Par[i-1]].kids = append(nodes[h.Par[i-1]].kids, nodes[i])
			nk[h.Par[i-1]-1]++
		}
		if h.NilNode != 0 {
			p := nodes[h.NilNode]
			if h.NilPos == "first" {
				p.kids = append([]*gnode{nil}, p.kids...)
			} else {
				p.kids = append(p.kids, nil)
			}
		}
		w.Emit(map[string]any{"e": "tree", "hid": hid, "mode": "generic", "n": h.N, "par": h.Par, "nk": nk, "nilpar": h.NilNode})
		var got []genCb
		vis := newScriptVisitor(h.Script, func(cb string, node *gnode, r string) {
			got = append(got, genCb{cb, node.id})
			w.Emit(map[string]any{"e": "cb", "hid": hid, "cb": cb, "n": node.id, "r": r})
		})
		res := "panic"
		func() {
			defer func() {
				if r := recover(); r != nil {
					res = "panic: " + fmt.Sprint(r)
				}
			}()
			res = resultOf(walk.Generic[*gnode](nodes[1], vis, func(n *gnode) (*walk.Cursor[*gnode], error) {
				if n == nil {
					return nil, errNilBranch
				}
				return &walk.Cursor[*gnode]{Node: n, Branches: n.kids}, nil
			}))
		}()
		same := res == h.Res && len(got) == len(h.Cbs)
		for i := 0; same && i < len(got); i++ {
			same = got[i] == h.Cbs[i]
		}
		if !same {
			drift++
		}
		w.Emit(map[string]any{"e": "end", "hid": hid, "res": res, "model_res": h.Res, "as_model": same})
	}
	w.Close()
	fmt.Printf("{\"events\":%d,\"drift\":%d}\n", w.N, drift)
}

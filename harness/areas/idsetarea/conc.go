package idsetarea

import (
	"flag"
	"fmt"
	"math/rand"
	"sync"
	"time"

	"dawgsverif/internal/tr"

	"github.com/specterops/dawgs/cardinality"
)

type CEv struct {
	E     string              `json:"e"`
	Hid   int                 `json:"hid"`
	Cfg   string              `json:"cfg"`
	T     int                 `json:"t"`
	Op    string              `json:"op"`
	O     string              `json:"o"`
	P     string              `json:"p"`
	X     int                 `json:"x"`
	Xs    []int               `json:"xs"`
	A     []int               `json:"a"`
	B     []int               `json:"b"`
	Rb    bool                `json:"rb"`
	Rn    int                 `json:"rn"`
	Rs    []int               `json:"rs"`
	Rdup  bool                `json:"rdup"`
	St    map[string]ObjState `json:"st,omitempty"`
	Panic bool                `json:"panic"`
	Note  string              `json:"note,omitempty"`
}

func nz(s []int) []int {
	if s == nil {
		return []int{}
	}
	return s
}

func randSubset(rng *rand.Rand, n int) []int {
	var out []int
	for i := 0; i < n; i++ {
		if rng.Intn(2) == 0 {
			out = append(out, i)
		}
	}
	return out
}

func concHist[T uint32 | uint64](w *tr.Writer, rng *rand.Rand, hid int, cfg Config, threads, nops int, both bool) bool {
	r := &runner[T]{cfg: cfg, objs: map[string]cardinality.Duplex[T]{}, inv: map[T]int{}}
	for i := 0; i < 8; i++ {
		r.inv[r.val(i)] = i
	}
	r.objs["A"] = newProvider[T](cfg.Width, "ts")
	r.objs["B"] = newProvider[T](cfg.Width, "ts")
	a, b := randSubset(rng, 3), randSubset(rng, 3)
	for _, x := range a {
		r.objs["A"].Add(r.val(x))
	}
	for _, x := range b {
		r.objs["B"].Add(r.val(x))
	}
	scripts := make([][]Op, threads)
	unary := []string{"add", "cadd", "remove", "contains", "card", "slice", "clear"}
	binary := []string{"or", "and", "andnot", "xor"}
	for t := range scripts {
		for i := 0; i < nops; i++ {
			o, p := "A", "B"
			if rng.Intn(2) == 0 {
				o, p = "B", "A"
			}
			if rng.Intn(5) < 2 {
				if !both {
					o, p = "A", "B"
				}
				scripts[t] = append(scripts[t], Op{Op: binary[rng.Intn(4)], O: o, P: p, X: -1})
			} else {
				op := Op{Op: unary[rng.Intn(len(unary))], O: o, X: rng.Intn(3)}
				if op.Op == "add" {
					op.Xs = []int{op.X}
					if rng.Intn(3) == 0 {
						op.Xs = append(op.Xs, (op.X+1)%3)
					}
					op.X = -1
				}
				scripts[t] = append(scripts[t], op)
			}
		}
	}
	var mu sync.Mutex
	var log []CEv
	emit := func(e CEv) {
		mu.Lock()
		log = append(log, e)
		mu.Unlock()
	}
	var wg, start sync.WaitGroup
	start.Add(1)
	for t := range scripts {
		wg.Add(1)
		go func(t int) {
			defer wg.Done()
			start.Wait()
			for _, o := range scripts[t] {
				emit(CEv{E: "inv", Hid: hid, T: t, Op: o.Op, O: o.O, P: o.P, X: o.X, Xs: nz(o.Xs), Rs: []int{}, A: []int{}, B: []int{}})
				ev := Ev{}
				r.apply(o, &ev)
				emit(CEv{E: "resp", Hid: hid, T: t, Rb: ev.Rb, Rn: ev.Rn, Rs: nz(ev.Rs), Rdup: ev.Rdup, Panic: ev.Panic, Xs: []int{}, A: []int{}, B: []int{}})
			}
		}(t)
	}
	start.Done()
	done := make(chan struct{})
	go func() { wg.Wait(); close(done) }()
	deadlock := false
	select {
	case <-done:
	case <-time.After(10 * time.Second):
		deadlock = true
	}
	w.Emit(CEv{E: "reset", Hid: hid, Cfg: cfg.String(), A: nz(a), B: nz(b), Xs: []int{}, Rs: []int{}})
	mu.Lock()
	for _, e := range log {
		w.Emit(e)
	}
	mu.Unlock()
	if deadlock {
		w.Emit(CEv{E: "deadlock", Hid: hid, Xs: []int{}, Rs: []int{}, A: []int{}, B: []int{}})
		return false
	}
	w.Emit(CEv{E: "quiesce", Hid: hid, St: r.state(), Xs: []int{}, Rs: []int{}, A: []int{}, B: []int{}})
	return true
}

func bareReceiverStress[T uint32 | uint64](width, rounds int) {
	for _, op := range []string{"or", "and", "andnot", "xor", "clone-or"} {
		operand := newProvider[T](width, "ts")
		for i := 0; i < 64; i++ {
			operand.Add(T(i * 3))
		}
		stop := make(chan struct{})
		done := make(chan struct{})
		go func() {
			defer close(done)
			for i := 0; ; i++ {
				select {
				case <-stop:
					return
				default:
				}
				operand.Add(T(i % 197))
				operand.Remove(T((i * 7) % 197))
			}
		}()
		for r := 0; r < rounds; r++ {
			bare := newProvider[T](width, "bm")
			for i := 0; i < 40; i++ {
				bare.Add(T(i * 5))
			}
			switch op {
			case "or":
				bare.Or(operand)
			case "and":
				bare.And(operand)
			case "andnot":
				bare.AndNot(operand)
			case "xor":
				bare.Xor(operand)
			default:
				bare.Clone().Or(operand)
			}
			_ = bare.Cardinality()
		}
		close(stop)
		<-done
	}
}

// Conc: free-running concurrent histories on two thread-safe wrappers.
func Conc(args []string) {
	fs := flag.NewFlagSet("idset conc", flag.ExitOnError)
	out := fs.String("out", "trace.ndjson", "")
	n := fs.Int("n", 1000, "")
	threads := fs.Int("threads", 3, "")
	nops := fs.Int("ops", 3, "")
	seed := fs.Int64("seed", 1, "")
	both := fs.Bool("both", true, "binary operations in both directions (A op= B and B op= A)")
	fs.Parse(args)
	rng := rand.New(rand.NewSource(*seed))
	w := tr.Create(*out)
	cfgs := AllConfigs()
	ok := true
	h := 0
	// a bare set owned by one goroutine takes a thread-safe wrapper as operand while another goroutine keeps writing to
	// that wrapper: no events, the race detector is the observer (the operand must be read under its own lock)
	bareReceiverStress[uint32](32, 200)
	bareReceiverStress[uint64](64, 200)
	for ; h < *n && ok; h++ {
		c := cfgs[rng.Intn(len(cfgs))]
		c.ImplA, c.ImplB = "ts", "ts"
		if c.Width == 32 {
			ok = concHist[uint32](w, rng, h, c, *threads, *nops, *both)
		} else {
			ok = concHist[uint64](w, rng, h, c, *threads, *nops, *both)
		}
	}
	w.Close()
	fmt.Printf("{\"histories\":%d,\"events\":%d,\"deadlock\":%v}\n", h, w.N, !ok)
}

// gated wraps a real bitmap and pauses at the entry of every in-place binary operation until released: the
// wrapper's lock of the receiver is already held at that point, the operand has not been touched yet.
type gated[T uint32 | uint64] struct {
	cardinality.Duplex[T]
	gate func()
}

func (g gated[T]) Or(o cardinality.Provider[T])     { g.gate(); g.Duplex.Or(o) }
func (g gated[T]) And(o cardinality.Provider[T])    { g.gate(); g.Duplex.And(o) }
func (g gated[T]) AndNot(o cardinality.Provider[T]) { g.gate(); g.Duplex.AndNot(o) }
func (g gated[T]) Xor(o cardinality.Provider[T])    { g.gate(); g.Duplex.Xor(o) }
func (g gated[T]) Clone() cardinality.Duplex[T]     { return gated[T]{g.Duplex.Clone(), g.gate} }

// Abba forces the schedule of the IdSetLock.tla counterexample: two clients run a.Op(b) and b.Op(a); each is held
// after it has taken its receiver's lock until the other has done the same (or 300 ms have passed, which is what
// happens when the implementation takes both locks up front).  Then both proceed.
func Abba(args []string) {
	fs := flag.NewFlagSet("idset abba", flag.ExitOnError)
	out := fs.String("out", "trace.ndjson", "")
	fs.Parse(args)
	w := tr.Create(*out)
	hid := 0
	for _, op := range []string{"or", "xor", "and", "andnot"} {
		for _, width := range []int{64, 32} {
			if width == 64 {
				abbaOne[uint64](w, hid, op, width)
			} else {
				abbaOne[uint32](w, hid, op, width)
			}
			hid++
		}
	}
	w.Close()
	fmt.Printf("{\"histories\":%d,\"events\":%d}\n", hid, w.N)
}

func abbaOne[T uint32 | uint64](w *tr.Writer, hid int, op string, width int) {
	cfg := Config{width, "ts", "ts", "dense"}
	r := &runner[T]{cfg: cfg, objs: map[string]cardinality.Duplex[T]{}, inv: map[T]int{}}
	for i := 0; i < 8; i++ {
		r.inv[r.val(i)] = i
	}
	var arrived sync.WaitGroup
	arrived.Add(2)
	both := make(chan struct{})
	go func() { arrived.Wait(); close(both) }()
	gate := func() {
		arrived.Done()
		select {
		case <-both:
		case <-time.After(300 * time.Millisecond):
		}
	}
	mk := func() cardinality.Duplex[T] {
		var d any
		if width == 32 {
			d = cardinality.NewBitmap32()
		} else {
			d = cardinality.NewBitmap64()
		}
		return cardinality.ThreadSafeDuplex[T](gated[T]{d.(cardinality.Duplex[T]), gate})
	}
	r.objs["A"], r.objs["B"] = mk(), mk()
	r.objs["A"].Add(r.val(0), r.val(1))
	r.objs["B"].Add(r.val(1), r.val(2))
	var mu sync.Mutex
	var log []CEv
	emit := func(e CEv) { mu.Lock(); log = append(log, e); mu.Unlock() }
	var wg sync.WaitGroup
	for t, pr := range [][2]string{{"A", "B"}, {"B", "A"}} {
		wg.Add(1)
		go func(t int, o, p string) {
			defer wg.Done()
			emit(CEv{E: "inv", Hid: hid, T: t, Op: op, O: o, P: p, X: -1, Xs: []int{}, Rs: []int{}, A: []int{}, B: []int{}})
			ev := Ev{}
			r.apply(Op{Op: op, O: o, P: p}, &ev)
			emit(CEv{E: "resp", Hid: hid, T: t, Panic: ev.Panic, Xs: []int{}, Rs: []int{}, A: []int{}, B: []int{}})
		}(t, pr[0], pr[1])
	}
	done := make(chan struct{})
	go func() { wg.Wait(); close(done) }()
	w.Emit(CEv{E: "reset", Hid: hid, Cfg: cfg.String() + "/abba-" + op, A: []int{0, 1}, B: []int{1, 2}, Xs: []int{}, Rs: []int{}})
	select {
	case <-done:
		for _, e := range log {
			w.Emit(e)
		}
		w.Emit(CEv{E: "quiesce", Hid: hid, St: r.state(), Xs: []int{}, Rs: []int{}, A: []int{}, B: []int{}})
	case <-time.After(3 * time.Second):
		mu.Lock()
		for _, e := range log {
			w.Emit(e)
		}
		mu.Unlock()
		w.Emit(CEv{E: "deadlock", Hid: hid, Op: op, Note: "both clients blocked for 3 s after each took its receiver's lock", Xs: []int{}, Rs: []int{}, A: []int{}, B: []int{}})
	}
}

// slowOperand wraps a real bitmap; every Contains takes 2 ms (long enough for a goroutine queued on the wrapper's
// mutex to be handed the lock next) and the first one raises a flag.
type slowOperand[T uint32 | uint64] struct {
	cardinality.Duplex[T]
	first *sync.Once
	flag  chan struct{}
}

func (g slowOperand[T]) Contains(v T) bool {
	g.first.Do(func() { close(g.flag) })
	time.Sleep(2 * time.Millisecond)
	return g.Duplex.Contains(v)
}

// Toggle forces the schedule of IdSetLock.tla's atomicity counterexample: A = {0,1,2,3}, B = {1,2,3}; client 0 runs
// A.And(B) (or AndNot); as soon as its first look at B has happened, client 1 runs B.Add(0); B.Remove(3).  B is
// {1,2,3}, {0,1,2,3}, {0,1,2} over time, so A must end as the intersection (difference) with one of those.
func Toggle(args []string) {
	fs := flag.NewFlagSet("idset toggle", flag.ExitOnError)
	out := fs.String("out", "trace.ndjson", "")
	fs.Parse(args)
	w := tr.Create(*out)
	hid := 0
	for _, op := range []string{"and", "andnot"} {
		for _, width := range []int{64, 32} {
			if width == 64 {
				toggleOne[uint64](w, hid, op, width)
			} else {
				toggleOne[uint32](w, hid, op, width)
			}
			hid++
		}
	}
	w.Close()
	fmt.Printf("{\"histories\":%d,\"events\":%d}\n", hid, w.N)
}

func toggleOne[T uint32 | uint64](w *tr.Writer, hid int, op string, width int) {
	cfg := Config{width, "ts", "ts", "dense"}
	r := &runner[T]{cfg: cfg, objs: map[string]cardinality.Duplex[T]{}, inv: map[T]int{}}
	for i := 0; i < 8; i++ {
		r.inv[r.val(i)] = i
	}
	var d any
	if width == 32 {
		d = cardinality.NewBitmap32()
	} else {
		d = cardinality.NewBitmap64()
	}
	flag := make(chan struct{})
	r.objs["A"] = newProvider[T](width, "ts")
	r.objs["B"] = cardinality.ThreadSafeDuplex[T](slowOperand[T]{d.(cardinality.Duplex[T]), &sync.Once{}, flag})
	r.objs["A"].Add(r.val(0), r.val(1), r.val(2), r.val(3))
	r.objs["B"].Add(r.val(1), r.val(2), r.val(3))
	var mu sync.Mutex
	var log []CEv
	emit := func(e CEv) { mu.Lock(); log = append(log, e); mu.Unlock() }
	do := func(t int, o Op) {
		emit(CEv{E: "inv", Hid: hid, T: t, Op: o.Op, O: o.O, P: o.P, X: o.X, Xs: nz(o.Xs), Rs: []int{}, A: []int{}, B: []int{}})
		ev := Ev{}
		r.apply(o, &ev)
		emit(CEv{E: "resp", Hid: hid, T: t, Rb: ev.Rb, Rn: ev.Rn, Rs: nz(ev.Rs), Panic: ev.Panic, Xs: []int{}, A: []int{}, B: []int{}})
	}
	var wg sync.WaitGroup
	wg.Add(2)
	go func() { defer wg.Done(); do(0, Op{Op: op, O: "A", P: "B", X: -1}) }()
	go func() {
		defer wg.Done()
		select {
		case <-flag:
		case <-time.After(2 * time.Second): // the operation never looked at B through Contains: nothing to interleave with
		}
		do(1, Op{Op: "add", O: "B", X: -1, Xs: []int{0}})
		do(1, Op{Op: "remove", O: "B", X: 3})
	}()
	wg.Wait()
	w.Emit(CEv{E: "reset", Hid: hid, Cfg: cfg.String() + "/toggle-" + op, A: []int{0, 1, 2, 3}, B: []int{1, 2, 3}, Xs: []int{}, Rs: []int{}})
	for _, e := range log {
		w.Emit(e)
	}
	w.Emit(CEv{E: "quiesce", Hid: hid, St: r.state(), Xs: []int{}, Rs: []int{}, A: []int{}, B: []int{}})
}

// Family stresses in-place binary operations in opposite directions between wrappers that are related by Clone: a
// wrapper and its clone, two clones of one wrapper, and (control) two independently constructed wrappers.  Whatever
// the wrappers' history, x.Op(y) racing y.Op(x) must finish, and afterwards both sets must be what the operations,
// in some order, produce (checked through IdSetLin on a short final history).
func Family(args []string) {
	fs := flag.NewFlagSet("idset family", flag.ExitOnError)
	out := fs.String("out", "trace.ndjson", "")
	iters := fs.Int("iters", 100000, "")
	fs.Parse(args)
	w := tr.Create(*out)
	hid := 0
	for _, fam := range []string{"fresh", "clone", "siblings"} {
		for _, width := range []int{64, 32} {
			if width == 64 {
				familyOne[uint64](w, hid, fam, width, *iters)
			} else {
				familyOne[uint32](w, hid, fam, width, *iters)
			}
			hid++
		}
	}
	w.Close()
	fmt.Printf("{\"histories\":%d,\"events\":%d}\n", hid, w.N)
}

func familyOne[T uint32 | uint64](w *tr.Writer, hid int, fam string, width, iters int) {
	cfg := Config{width, "ts", "ts", "dense"}
	r := &runner[T]{cfg: cfg, objs: map[string]cardinality.Duplex[T]{}, inv: map[T]int{}}
	for i := 0; i < 8; i++ {
		r.inv[r.val(i)] = i
	}
	x := newProvider[T](width, "ts")
	x.Add(r.val(0), r.val(1))
	switch fam {
	case "fresh":
		r.objs["A"] = x
		r.objs["B"] = newProvider[T](width, "ts")
		r.objs["B"].Add(r.val(0), r.val(1))
	case "clone":
		r.objs["A"] = x
		r.objs["B"] = x.Clone()
	default:
		r.objs["A"] = x.Clone()
		r.objs["B"] = x.Clone()
	}
	w.Emit(CEv{E: "reset", Hid: hid, Cfg: cfg.String() + "/family-" + fam, A: []int{0, 1}, B: []int{0, 1}, Xs: []int{}, Rs: []int{}})
	// phase 1: many opposing Or calls (idempotent here: both sets stay {0,1}); only progress matters
	var wg sync.WaitGroup
	for _, pr := range [][2]string{{"A", "B"}, {"B", "A"}} {
		wg.Add(1)
		go func(o, p string) {
			defer wg.Done()
			for i := 0; i < iters; i++ {
				r.objs[o].Or(r.objs[p])
			}
		}(pr[0], pr[1])
	}
	done := make(chan struct{})
	go func() { wg.Wait(); close(done) }()
	select {
	case <-done:
		w.Emit(CEv{E: "quiesce", Hid: hid, St: r.state(), Xs: []int{}, Rs: []int{}, A: []int{}, B: []int{}})
	case <-time.After(20 * time.Second):
		w.Emit(CEv{E: "deadlock", Hid: hid, Op: "or", Note: "x.Or(y) racing y.Or(x) between wrappers of family '" + fam + "' made no progress for 20 s", Xs: []int{}, Rs: []int{}, A: []int{}, B: []int{}})
	}
}

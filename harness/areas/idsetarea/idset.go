// Package idsetarea binds spec/IdSet to the duplex providers of github.com/specterops/dawgs/cardinality.
package idsetarea

import (
	"flag"
	"fmt"
	"sort"

	"dawgsverif/internal/tr"

	"github.com/specterops/dawgs/cardinality"
)

type Op struct {
	Op string `json:"op"`
	O  string `json:"o"`
	P  string `json:"p"`
	X  int    `json:"x"`
	Xs []int  `json:"xs"`
}

type Hist struct {
	A   []int `json:"a"`
	B   []int `json:"b"`
	Ops []Op  `json:"ops"`
}

type ObjState struct {
	Xs   []int `json:"xs"`
	Dup  bool  `json:"dup"`
	Card int   `json:"card"`
}

type Ev struct {
	E     string              `json:"e"`
	Hid   int                 `json:"hid"`
	Cfg   string              `json:"cfg"`
	Ci    int                 `json:"ci"`
	Hi    int                 `json:"hi"`
	Op    string              `json:"op"`
	O     string              `json:"o"`
	P     string              `json:"p"`
	X     int                 `json:"x"`
	Xs    []int               `json:"xs"`
	A     []int               `json:"a"`
	B     []int               `json:"b"`
	Rb    bool                `json:"rb"`
	Rn    int                 `json:"rn"`
	Rs    []int               `json:"rs"`
	Rdup  bool                `json:"rdup"`
	St    map[string]ObjState `json:"st"`
	Panic bool                `json:"panic"`
}

// Config = one point of C13's configuration space.
type Config struct {
	Width int    // 32 | 64
	ImplA string // bm | ts   (implementation behind object A; clones inherit their source's)
	ImplB string
	Emb   string // embedding of the abstract universe into integers
}

func (c Config) String() string {
	return fmt.Sprintf("w%d/%s-%s/%s", c.Width, c.ImplA, c.ImplB, c.Emb)
}

var Embeddings = []string{"dense", "x16", "x32", "sparse", "top"}

func AllConfigs() []Config {
	var out []Config
	for _, w := range []int{32, 64} {
		for _, a := range []string{"bm", "ts"} {
			for _, b := range []string{"bm", "ts"} {
				for _, e := range Embeddings {
					out = append(out, Config{w, a, b, e})
				}
			}
		}
	}
	return out
}

// embed maps abstract element i (0..7) to a concrete integer of the given width.
func embed(emb string, width int, i int) uint64 {
	u := uint64(i)
	switch emb {
	case "dense":
		return u
	case "x16": // straddles the 2^16 container boundary
		return 65534 + u
	case "x32": // straddles 2^32 (64 bit) / sits at the top of the range (32 bit)
		if width == 64 {
			return (1 << 32) - 2 + u
		}
		return (1<<32 - 1) - 7 + u
	case "sparse":
		if width == 64 {
			return u * ((1 << 40) + 7)
		}
		return u * ((1 << 27) + 3)
	case "top":
		if width == 64 {
			return ^uint64(0) - u
		}
		return uint64(^uint32(0)) - u*65536
	}
	tr.Fatal("bad embedding %q", emb)
	return 0
}

type runner[T uint32 | uint64] struct {
	cfg  Config
	objs map[string]cardinality.Duplex[T]
	inv  map[T]int
	// clones are taken alternately through the Clone method and through the package helper cardinality.CloneProvider;
	// which one comes first depends on the length of the history only, so that a history replays the same way alone
	hi, nclone int
}

func newProvider[T uint32 | uint64](width int, impl string) cardinality.Duplex[T] {
	var d any
	if width == 32 {
		d = cardinality.NewBitmap32()
	} else {
		d = cardinality.NewBitmap64()
	}
	p := d.(cardinality.Duplex[T])
	if impl == "ts" {
		return cardinality.ThreadSafeDuplex(p)
	}
	return p
}

func (r *runner[T]) val(i int) T { return T(embed(r.cfg.Emb, r.cfg.Width, i)) }

func (r *runner[T]) abs(vs []T) ([]int, bool) {
	out := []int{}
	seen := map[int]bool{}
	dup := false
	for _, v := range vs {
		a, ok := r.inv[v]
		if !ok {
			a = -1
		}
		if seen[a] {
			dup = true
			continue
		}
		seen[a] = true
		out = append(out, a)
	}
	sort.Ints(out)
	return out, dup
}

func (r *runner[T]) state() map[string]ObjState {
	st := map[string]ObjState{}
	for n, o := range r.objs {
		xs, dup := r.abs(o.Slice())
		st[n] = ObjState{Xs: xs, Dup: dup, Card: int(o.Cardinality())}
	}
	return st
}

func (r *runner[T]) apply(o Op, ev *Ev) {
	defer func() {
		if rec := recover(); rec != nil {
			ev.Panic = true
		}
	}()
	obj := r.objs[o.O]
	switch o.Op {
	case "add":
		vs := make([]T, len(o.Xs))
		for i, x := range o.Xs {
			vs[i] = r.val(x)
		}
		obj.Add(vs...)
	case "cadd":
		ev.Rb = obj.CheckedAdd(r.val(o.X))
	case "remove":
		obj.Remove(r.val(o.X))
	case "contains":
		ev.Rb = obj.Contains(r.val(o.X))
	case "card":
		ev.Rn = int(obj.Cardinality())
	case "slice":
		ev.Rs, ev.Rdup = r.abs(obj.Slice())
	case "each":
		var vs []T
		obj.Each(func(v T) bool { vs = append(vs, v); return true })
		ev.Rs, ev.Rdup = r.abs(vs)
	case "each1":
		var vs []T
		obj.Each(func(v T) bool { vs = append(vs, v); return false })
		ev.Rs, ev.Rdup = r.abs(vs)
	case "clear":
		obj.Clear()
	case "clone":
		r.nclone++
		if (r.hi+r.nclone)%2 == 0 {
			r.objs["C"] = obj.Clone()
		} else if c, ok := cardinality.CloneProvider[T](obj).(cardinality.Duplex[T]); ok {
			r.objs["C"] = c
		} else {
			tr.Fatal("CloneProvider of a duplex did not return a duplex")
		}
	case "or":
		obj.Or(r.objs[o.P])
	case "and":
		obj.And(r.objs[o.P])
	case "andnot":
		obj.AndNot(r.objs[o.P])
	case "xor":
		obj.Xor(r.objs[o.P])
	default:
		tr.Fatal("bad op %q", o.Op)
	}
}

func runHist[T uint32 | uint64](w *tr.Writer, hid int, h Hist, cfg Config, ci, hi int) {
	r := &runner[T]{cfg: cfg, objs: map[string]cardinality.Duplex[T]{}, inv: map[T]int{}, hi: len(h.Ops)}
	for i := 0; i < 8; i++ {
		r.inv[r.val(i)] = i
	}
	r.objs["A"] = newProvider[T](cfg.Width, cfg.ImplA)
	r.objs["B"] = newProvider[T](cfg.Width, cfg.ImplB)
	for _, x := range h.A {
		r.objs["A"].Add(r.val(x))
	}
	for _, x := range h.B {
		r.objs["B"].Add(r.val(x))
	}
	nz := func(s []int) []int {
		if s == nil {
			return []int{}
		}
		return s
	}
	w.Emit(Ev{E: "load", Hid: hid, Cfg: cfg.String(), Ci: ci, Hi: hi, A: nz(h.A), B: nz(h.B), St: r.state(), Xs: []int{}, Rs: []int{}})
	for _, o := range h.Ops {
		ev := Ev{E: "op", Hid: hid, Cfg: cfg.String(), Op: o.Op, O: o.O, P: o.P, X: o.X, Xs: nz(o.Xs), A: []int{}, B: []int{}, Rs: []int{}}
		r.apply(o, &ev)
		ev.Rs = nz(ev.Rs)
		ev.St = r.state()
		w.Emit(ev)
	}
}

// Replay runs each history under the configurations selected by -mode: "all" = every configuration,
// "rotate" = one configuration per history, chosen round-robin from (history index + seed).
func Replay(args []string) {
	fs := flag.NewFlagSet("idset replay", flag.ExitOnError)
	in := fs.String("in", "hist.ndjson", "")
	out := fs.String("out", "trace.ndjson", "")
	mode := fs.String("mode", "rotate", "all|rotate|one")
	one := fs.Int("cfg", 0, "configuration index for -mode one")
	seed := fs.Int("seed", 1, "")
	fs.Parse(args)
	hs := tr.ReadLines[Hist](*in)
	cfgs := AllConfigs()
	w := tr.Create(*out)
	hid := 0
	for i, h := range hs {
		var sel []int
		switch *mode {
		case "all":
			for ci := range cfgs {
				sel = append(sel, ci)
			}
		case "one":
			sel = []int{*one % len(cfgs)}
		default:
			sel = []int{(i + *seed*7) % len(cfgs)}
		}
		for _, ci := range sel {
			c := cfgs[ci]
			if c.Width == 32 {
				runHist[uint32](w, hid, h, c, ci, i)
			} else {
				runHist[uint64](w, hid, h, c, ci, i)
			}
			hid++
		}
	}
	w.Close()
	fmt.Printf("{\"histories\":%d,\"runs\":%d,\"events\":%d,\"configs\":%d}\n", len(hs), hid, w.N, len(cfgs))
}

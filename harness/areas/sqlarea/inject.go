// Package sqlarea binds spec/Sql to the SQL text the real translator emits (C04, C03).
package sqlarea

import (
	"context"
	"flag"
	"fmt"
	"reflect"
	"strings"
	"sync"

	"dawgsverif/areas/frontarea"
	"dawgsverif/internal/tr"

	"github.com/specterops/dawgs/cypher/frontend"
	"github.com/specterops/dawgs/cypher/models/pgsql/translate"
	"github.com/specterops/dawgs/drivers/pg/pgutil"
	"github.com/specterops/dawgs/graph"
)

const benign = "zqbenign"

// position: one place where user text enters a query.  text builds the Cypher text for a payload (ok=false: the
// payload cannot be written in that place, e.g. a backtick inside a backticked name); kind says how the payload must
// show up in the SQL: "string" one string literal, "like-contains" / "like-prefix" / "like-suffix" one string literal
// that is a LIKE pattern for it, "ident" one identifier, "same" not at all (the SQL is the benign SQL), "bound" only as
// a bound parameter value, "frag" inside SQL text handed to a server-side function.
type position struct {
	name   string
	kind   string // "frag:<inner kind>" for SQL text handed to a server-side function
	text   func(payload string) (string, bool)
	params func(payload string) map[string]any
}

func cypherString(p string) string {
	return "'" + strings.ReplaceAll(strings.ReplaceAll(p, `\`, `\\`), `'`, `\'`) + "'"
}

func lit(format string) func(string) (string, bool) {
	return func(p string) (string, bool) { return strings.ReplaceAll(format, "%s", cypherString(p)), true }
}

func name(format string) func(string) (string, bool) {
	return func(p string) (string, bool) {
		if p == "" || strings.Contains(p, "`") {
			return "", false
		}
		return strings.ReplaceAll(format, "%s", "`"+p+"`"), true
	}
}

// key writes the payload as a property key: inside backticks, a backtick of the payload doubled (the grammar's
// escaped symbolic name; cypher.EscapePropertyKeyName does the same).
func key(format string) func(string) (string, bool) {
	return func(p string) (string, bool) {
		if p == "" {
			return "", false
		}
		return strings.ReplaceAll(format, "%s", "`"+strings.ReplaceAll(p, "`", "``")+"`"), true
	}
}

func fixed(text string) func(string) (string, bool) {
	return func(string) (string, bool) { return text, true }
}

func param(p string) map[string]any { return map[string]any{"p": p} }

var positions = []position{
	{"where-equals", "string", lit("match (n) where n.name = %s return n"), nil},
	{"where-not-equals-or", "string", lit("match (n) where n.a = 1 or not n.name <> %s return n"), nil},
	{"node-pattern-property", "string", lit("match (n {name: %s}) return n"), nil},
	{"rel-pattern-property", "string", lit("match (a)-[r:E {name: %s}]->(b) return r"), nil},
	{"in-list", "string", lit("match (n) where n.name in [%s, 'c'] return n"), nil},
	{"set-value", "string", lit("match (n) set n.v = %s return n"), nil},
	{"create-property", "string", lit("create (n:K {name: %s}) return n"), nil},
	{"merge-free-create-rel", "string", lit("match (a), (b) where a.x = 1 and b.x = 2 create (a)-[r:E {name: %s}]->(b) return r"), nil},
	{"regex", "string", lit("match (n) where n.name =~ %s return n"), nil},
	{"function-argument", "string", lit("match (n) where toLower(n.name) = toLower(%s) return n"), nil},
	{"concatenation", "string", lit("match (n) where n.name = n.first + %s return n"), nil},
	{"returned-literal", "string", lit("match (n) return %s as v"), nil},
	{"with-literal", "string", lit("match (n) with n, %s as tag where n.name = tag return n"), nil},
	{"expansion-root", "string", lit("match p = (a)-[:E*1..3]->(b) where a.name = %s return p"), nil},
	{"pattern-predicate", "string", lit("match (n) where (n)-[:E]->({name: %s}) return n"), nil},
	{"quantifier", "string", lit("match (n) where any(x in n.list where x = %s) return n"), nil},
	{"coalesce", "string", lit("match (n) where coalesce(n.name, %s) = 'x' return n"), nil},
	{"duration-literal", "string", lit("match (n) where n.seen < datetime() - duration(%s) return n"), nil},
	{"date-literal", "string", lit("match (n) where n.seen < date(%s) return n"), nil},
	{"split-separator", "string", lit("match (n) return split(n.name, %s) as parts"), nil},
	{"contains", "like-contains", lit("match (n) where n.name contains %s return n"), nil},
	{"starts-with", "like-prefix", lit("match (n) where n.name starts with %s return n"), nil},
	{"ends-with", "like-suffix", lit("match (n) where n.name ends with %s return n"), nil},
	{"property-key-where", "string", key("match (n) where n.%s = 1 return n"), nil},
	{"property-key-return", "string", key("match (n) return n.%s as v"), nil},
	{"property-key-order", "string", key("match (n) return n order by n.%s"), nil},
	{"property-key-set", "string", key("match (n) set n.%s = 1 return n"), nil},
	{"property-key-remove", "string", key("match (n) remove n.%s return n"), nil},
	{"property-key-set-second", "string", key("match (n) set n.x = 1, n.%s = 2 return n"), nil},
	{"property-key-set-rel", "string", key("match ()-[r:E]->() set r.%s = 1 return r"), nil},
	{"property-key-remove-second", "string", key("match (n) remove n.x, n.%s return n"), nil},
	{"map-key-pattern", "string", key("match (n {%s: 1}) return n"), nil},
	{"map-key-create", "string", key("create (n:K {%s: 1}) return n"), nil},
	{"result-alias", "ident", name("match (n) return n.name as %s"), nil},
	{"variable-name", "ident", name("match (%s) return %s"), nil},
	{"with-alias", "same", name("match (n) with n as %s return count(%s) as c"), nil},
	{"kind-name", "same", name("match (n:%s) return n"), nil},
	{"parameter-value", "bound", fixed("match (n) where n.name = $p return n"), param},
	{"parameter-in-list", "bound", fixed("match (n) where n.name in [$p, 'c'] return n"), param},
	{"parameter-contains", "bound", fixed("match (n) where n.name contains $p return n"), param},
	{"parameter-properties", "bound", fixed("create (n:K {name: $p}) return n"), param},
	{"shortest-path-root-literal", "frag", lit("match p = shortestPath((a)-[:E*1..]->(b)) where a.name = %s and b.name = 'x' return p"), nil},
	{"shortest-path-terminal-literal", "frag", lit("match p = shortestPath((a)-[:E*1..]->(b)) where a.name = 'x' and b.name = %s return p"), nil},
	{"all-shortest-paths-literal", "frag", lit("match p = allShortestPaths((a)-[:E*1..]->(b)) where a.name = %s and b.objectid = 'x' return p"), nil},
	{"shortest-path-property-key", "frag", key("match p = shortestPath((a)-[:E*1..]->(b)) where a.%s = 'x' and b.name = 'y' return p"), nil},
	{"shortest-path-parameter", "frag", fixed("match p = shortestPath((a)-[:E*1..]->(b)) where a.name = $p and b.name = 'x' return p"), param},
	{"shortest-path-contains", "frag:like-contains", lit("match p = shortestPath((a)-[:E*1..]->(b)) where a.name contains %s and b.name = 'x' return p"), nil},
}

type translated struct {
	ok      bool
	err     string
	sql     string
	params  map[string]any
	comment string // what translate.FromCypher (the driver's entry point) writes in front of the statement: the query as a comment
	hasCmt  bool
}

func run(text string, params map[string]any, mapper *pgutil.InMemoryKindMapper) (out translated) {
	defer func() {
		if r := recover(); r != nil {
			out = translated{err: "panic: " + fmt.Sprint(r)}
		}
	}()
	q, err := frontend.ParseCypher(frontend.NewContext(), text)
	if err != nil {
		return translated{err: "parse: " + err.Error()}
	}
	res, err := translate.Translate(context.Background(), q, mapper, params, 1)
	if err != nil {
		return translated{err: "translate: " + err.Error()}
	}
	sql, err := translate.Translated(res)
	if err != nil {
		return translated{err: "format: " + err.Error()}
	}
	out = translated{ok: true, sql: sql, params: res.Parameters}
	// the driver's entry point prefixes the statement with the query text as a -- comment
	if q2, perr := frontend.ParseCypher(frontend.NewContext(), text); perr == nil {
		if f, ferr := translate.FromCypher(context.Background(), q2, mapper, false, 1); ferr == nil {
			if i := strings.Index(f.Statement, sql); i >= 0 && strings.TrimSpace(f.Statement[i+len(sql):]) == "" {
				out.comment, out.hasCmt = f.Statement[:i], true
			} else if j := strings.LastIndex(f.Statement, "\nwith "); j >= 0 {
				out.comment, out.hasCmt = f.Statement[:j+1], true
			} else if j := strings.LastIndex(f.Statement, "\nselect "); j >= 0 {
				out.comment, out.hasCmt = f.Statement[:j+1], true
			}
		}
	}
	return out
}

func chars(s string) []string {
	out := make([]string, 0, len(s))
	for _, r := range s {
		out = append(out, string(r))
	}
	return out
}

func isIdentByte(b byte) bool {
	return b == '_' || b >= 0x80 || (b >= '0' && b <= '9') || (b >= 'a' && b <= 'z') || (b >= 'A' && b <= 'Z')
}

// windows cuts every token holding the benign payload out of the benign SQL - the payload, LIKE wildcards around it,
// its delimiters and an E prefix - and the corresponding stretches out of the hostile SQL; aligned says that the two
// statements are identical before, between and after those stretches (the stretches of the hostile SQL are found by
// matching the benign text between them, leftmost first).
func windows(b, h string, outer bool) (bws, hws [][]string, aligned bool) {
	var spans [][2]int
	for from := 0; ; {
		j := strings.Index(b[from:], benign)
		if j < 0 {
			break
		}
		j += from
		a, e := j, j+len(benign)
		if outer {
			// the payload sits inside SQL text handed over as a string argument, written ('...')::text: the window is
			// that whole literal
			open, end := strings.LastIndex(b[:j], "('"), strings.Index(b[j:], "')::text")
			if open < 0 || end < 0 {
				return nil, nil, false
			}
			a, e = open+1, j+end+1
			if len(spans) > 0 && spans[len(spans)-1] == [2]int{a, e} {
				from = j + len(benign)
				continue
			}
			spans = append(spans, [2]int{a, e})
			from = j + len(benign)
			continue
		}
		for a > 0 && b[a-1] == '%' {
			a--
		}
		if a > 0 && strings.ContainsRune("'\"`", rune(b[a-1])) {
			a--
			if a > 0 && (b[a-1] == 'e' || b[a-1] == 'E') && (a < 2 || !isIdentByte(b[a-2])) {
				a--
			}
		}
		for e < len(b) && b[e] == '%' {
			e++
		}
		if e < len(b) && strings.ContainsRune("'\"`", rune(b[e])) {
			e++
		}
		spans = append(spans, [2]int{a, e})
		from = e
	}
	if len(spans) == 0 {
		return nil, nil, false
	}
	bws, hws = [][]string{}, [][]string{}
	aligned = strings.HasPrefix(h, b[:spans[0][0]])
	hpos := spans[0][0]
	for k, sp := range spans {
		bws = append(bws, chars(b[sp[0]:sp[1]]))
		next := b[sp[1]:]
		if k+1 < len(spans) {
			next = b[sp[1]:spans[k+1][0]]
		}
		var at int
		if k+1 < len(spans) {
			at = -1
			if aligned && hpos <= len(h) {
				if i := strings.Index(h[hpos:], next); i >= 0 {
					at = hpos + i
				}
			}
		} else {
			at = len(h) - len(next)
			if at < hpos || h[at:] != next {
				at = -1
			}
		}
		if !aligned || at < 0 {
			return bws, [][]string{}, false
		}
		hws = append(hws, chars(h[hpos:at]))
		hpos = at + len(next)
	}
	return bws, hws, aligned
}

// Payload is a sequence of one-character strings as printed by PgLexGen.tla.
type Payload []string

func (p Payload) String() string { return strings.Join(p, "") }

// Inject puts every payload into every position and records what the real translator emits.
func Inject(args []string) {
	fs := flag.NewFlagSet("sql inject", flag.ExitOnError)
	in := fs.String("payloads", "payloads.ndjson", "")
	outp := fs.String("out", "trace.ndjson", "")
	fragMax := fs.Int("frag-max", 2, "longest payload (characters) used in the whole-statement positions")
	identMax := fs.Int("ident-max", 1, "longest payload used in the identifier positions (every one of them is a known finding)")
	workers := fs.Int("workers", 12, "")
	only := fs.String("position", "", "")
	fs.Parse(args)
	payloads := tr.ReadLines[Payload](*in)
	mapper := frontarea.NewMapper()
	for _, p := range payloads {
		mapper.Put(graph.StringKind("`" + p.String() + "`"))
		mapper.Put(graph.StringKind(p.String()))
	}
	mapper.Put(graph.StringKind("`" + benign + "`"))
	mapper.Put(graph.StringKind(benign))
	results := make([][]map[string]any, len(positions))
	var wg sync.WaitGroup
	sem := make(chan struct{}, *workers)
	for pi := range positions {
		if *only != "" && positions[pi].name != *only {
			continue
		}
		wg.Add(1)
		sem <- struct{}{}
		go func(pi int) {
			defer wg.Done()
			defer func() { <-sem }()
			results[pi] = injectPosition(positions[pi], payloads, mapper, *fragMax, *identMax)
		}(pi)
	}
	wg.Wait()
	w := tr.Create(*outp)
	hid := 0
	for _, evs := range results {
		for _, ev := range evs {
			ev["hid"] = hid
			hid++
			w.Emit(ev)
		}
	}
	w.Close()
	fmt.Printf("{\"events\":%d}\n", w.N)
}

func injectPosition(pos position, payloads []Payload, mapper *pgutil.InMemoryKindMapper, fragMax, identMax int) (evs []map[string]any) {
	var bparams map[string]any
	if pos.params != nil {
		bparams = pos.params(benign)
	}
	btext, _ := pos.text(benign)
	kindMapper := func(name string) *pgutil.InMemoryKindMapper {
		if pos.name != "kind-name" {
			return mapper
		}
		m := frontarea.NewMapper() // the kind under test is the next one registered: both runs see the same kind id
		m.Put(graph.StringKind("`" + name + "`"))
		return m
	}
	b := run(btext, bparams, kindMapper(benign))
	for _, pl := range payloads {
		p := pl.String()
		kind, inner := pos.kind, "string"
		if strings.HasPrefix(kind, "frag") {
			if k, in, found := strings.Cut(kind, ":"); found {
				kind, inner = k, in
			}
		}
		if (kind == "frag" && len(pl) > fragMax) || (kind == "ident" && len(pl) > identMax) {
			continue
		}
		text, ok := pos.text(p)
		if !ok {
			continue
		}
		var params map[string]any
		if pos.params != nil {
			params = pos.params(p)
		}
		h := run(text, params, kindMapper(p))
		ev := map[string]any{"e": "inject", "pos": pos.name, "kind": kind, "inner": inner, "payload": []string(pl), "benign": chars(benign), "text": text, "benign_ok": b.ok, "hostile_ok": h.ok,
			"err": h.err, "panic": strings.HasPrefix(h.err, "panic"), "aligned": false, "bws": [][]string{}, "hws": [][]string{}, "same_sql": false, "value_bound": false}
		if h.ok && h.hasCmt {
			cw := chars(h.comment)
			if len(cw) <= 2000 {
				evs = append(evs, map[string]any{"e": "comment", "pos": pos.name, "payload": []string(pl), "text": text, "prefix": cw})
			}
		}
		if b.ok && h.ok {
			ev["same_sql"] = b.sql == h.sql
			switch kind {
			case "frag":
				bws, hws, aligned := windows(b.sql, h.sql, true)
				ev["bws"], ev["hws"], ev["aligned"] = bws, hws, aligned
				if !aligned {
					ev["benign_sql"], ev["hostile_sql"] = b.sql, h.sql
				}
			case "bound":
				// the payload must be the value of some returned parameter, and of none in the benign run
				for _, v := range h.params {
					if reflect.DeepEqual(v, p) {
						ev["value_bound"] = true
					}
				}
			case "same":
			default:
				bws, hws, aligned := windows(b.sql, h.sql, false)
				ev["bws"], ev["hws"], ev["aligned"] = bws, hws, aligned
				if !aligned {
					ev["benign_sql"], ev["hostile_sql"] = b.sql, h.sql
				}
			}
		}
		evs = append(evs, ev)
	}
	return evs
}

// Package transarea binds spec/Translate to the real Cypher -> PostgreSQL translator (C05, C06).
package transarea

import (
	"context"
	"fmt"
	"reflect"
	"regexp"
	"sort"
	"strings"
	"time"

	"dawgsverif/areas/frontarea"

	"github.com/specterops/dawgs/cypher/models/cypher"
	"github.com/specterops/dawgs/cypher/models/pgsql"
	"github.com/specterops/dawgs/cypher/models/pgsql/translate"
	"github.com/specterops/dawgs/cypher/models/walk"
	"github.com/specterops/dawgs/drivers/pg/pgutil"
	"github.com/specterops/dawgs/graph"
)

type outcome struct {
	ok     bool
	panic  string
	err    string
	sql    string
	params map[string]any
	ms     int64
	// abandoned: the call did not return within callDeadline
	abandoned bool
}

// callDeadline: a translation that has not returned after this long is abandoned (its goroutine is left behind) and
// reported with the time it was given, so that a translation that never ends is a recorded observation, not a stuck run.
const callDeadline = 20 * time.Second

func translateOnce(q *cypher.RegularQuery, mapper pgsql.KindMapper, params map[string]any) outcome {
	done := make(chan outcome, 1)
	go func() { done <- translateOnceInline(q, mapper, params) }()
	select {
	case out := <-done:
		return out
	case <-time.After(callDeadline):
		return outcome{err: "abandoned: no result after " + callDeadline.String(), ms: callDeadline.Milliseconds(), abandoned: true}
	}
}

func translateOnceInline(q *cypher.RegularQuery, mapper pgsql.KindMapper, params map[string]any) (out outcome) {
	t := time.Now()
	defer func() {
		out.ms = time.Since(t).Milliseconds()
		if r := recover(); r != nil {
			out = outcome{panic: fmt.Sprint(r), ms: out.ms}
		}
	}()
	res, err := translate.Translate(context.Background(), q, mapper, params, 1)
	if err != nil {
		out.err = err.Error()
		return
	}
	sql, err := translate.Translated(res)
	if err != nil {
		out.err = "format: " + err.Error()
		return
	}
	out.ok, out.sql, out.params = true, sql, res.Parameters
	return
}

// symbols of a model, in order of first appearance in a structural walk: the variable namespace (pattern variables,
// projection aliases, unwind / quantifier variables) and the parameter namespace.
type symbols struct {
	vars   []string
	params []string
	roles  map[string]string // variable symbol -> what binds it: path, node, rel, alias, unwind, quantifier, ref
}

func roleOf(q *cypher.RegularQuery) map[string]string {
	roles := map[string]string{}
	set := func(v *cypher.Variable, role string) {
		if v != nil && v.Symbol != "" {
			if old, has := roles[v.Symbol]; !has || old == "ref" {
				roles[v.Symbol] = role
			}
		}
	}
	_ = walk.CypherStructural(q, walk.NewSimpleVisitor[cypher.SyntaxNode](func(node cypher.SyntaxNode, _ walk.VisitorHandler) {
		switch t := node.(type) {
		case *cypher.PatternPart:
			set(t.Variable, "path")
		case *cypher.NodePattern:
			set(t.Variable, "node")
		case *cypher.RelationshipPattern:
			set(t.Variable, "rel")
		case *cypher.ProjectionItem:
			set(t.Alias, "alias")
		case *cypher.Unwind:
			set(t.Variable, "unwind")
		case *cypher.IDInCollection:
			set(t.Variable, "quantifier")
		case *cypher.Variable:
			set(t, "ref")
		}
	}))
	return roles
}

func symbolsOf(q *cypher.RegularQuery) symbols {
	s := symbols{roles: roleOf(q)}
	seenV, seenP := map[string]bool{}, map[string]bool{}
	_ = walk.CypherStructural(q, walk.NewSimpleVisitor[cypher.SyntaxNode](func(node cypher.SyntaxNode, _ walk.VisitorHandler) {
		switch t := node.(type) {
		case *cypher.Variable:
			if t.Symbol != "" && !seenV[t.Symbol] {
				seenV[t.Symbol] = true
				s.vars = append(s.vars, t.Symbol)
			}
		case *cypher.Parameter:
			if t.Symbol != "" && !seenP[t.Symbol] {
				seenP[t.Symbol] = true
				s.params = append(s.params, t.Symbol)
			}
		}
	}))
	return s
}

// renamed returns a deep copy of the model with every variable and parameter symbol replaced.
func renamed(q *cypher.RegularQuery, vars, params map[string]string) *cypher.RegularQuery {
	c := cypher.Copy(q)
	_ = walk.CypherStructural(c, walk.NewSimpleVisitor[cypher.SyntaxNode](func(node cypher.SyntaxNode, _ walk.VisitorHandler) {
		switch t := node.(type) {
		case *cypher.Variable:
			if n, ok := vars[t.Symbol]; ok {
				t.Symbol = n
			}
		case *cypher.Parameter:
			if n, ok := params[t.Symbol]; ok {
				t.Symbol = n
			}
		}
	}))
	return c
}

var sqlTokenRe = regexp.MustCompile("`[^`]*`|" + `'(?:[^']|'')*'|"(?:[^"]|"")*"|[A-Za-z_][A-Za-z0-9_$]*|@[A-Za-z_][A-Za-z0-9_]*|[0-9]+(?:\.[0-9]+)?|::|<>|<=|>=|\|\||->>|->|@>|<@|&&|[^\s]`)

func sqlTokens(sql string) []string { return sqlTokenRe.FindAllString(sql, -1) }

// sameShape compares the SQL of two renamed twins of one query.  a is the twin whose user symbols are unique fresh
// tokens (names[fresh] = the twin's name for it): wherever a has such a token, b must have the corresponding name
// (bare or double-quoted) and everywhere else the tokens must be equal.
func sameShape(a, b string, names map[string]string) (bool, string) {
	ta, tb := sqlTokens(a), sqlTokens(b)
	if len(ta) != len(tb) {
		return false, fmt.Sprintf("%d tokens vs %d", len(ta), len(tb))
	}
	for i := range ta {
		if want, isName := names[strings.Trim(ta[i], `"`)]; isName {
			if strings.Trim(tb[i], `"`) != want {
				return false, fmt.Sprintf("token %d: %s where %s stands for %s", i, tb[i], want, ta[i])
			}
		} else if ta[i] != tb[i] {
			return false, fmt.Sprintf("token %d: %s vs %s", i, ta[i], tb[i])
		}
	}
	return true, ""
}

func sortedKeys(m map[string]any) []string {
	ks := make([]string, 0, len(m))
	for k := range m {
		ks = append(ks, k)
	}
	sort.Strings(ks)
	return ks
}

func sameParams(a, b map[string]any) bool {
	return reflect.DeepEqual(a, b)
}

// mapperFor returns a kind mapper that knows every kind any of the models mentions, so that whether a query
// translates does not depend on which queries were translated before it.
func mapperFor(ms []frontarea.Model) *pgutil.InMemoryKindMapper {
	mapper := frontarea.NewMapper()
	for _, m := range ms {
		_ = walk.CypherStructural(m.Query, walk.NewSimpleVisitor[cypher.SyntaxNode](func(node cypher.SyntaxNode, _ walk.VisitorHandler) {
			if ks, ok := node.(graph.Kinds); ok {
				for _, k := range ks {
					mapper.Put(k)
				}
			}
		}))
	}
	return mapper
}

func models(limit int) []frontarea.Model {
	ms := frontarea.Models()
	if limit > 0 && len(ms) > limit {
		ms = ms[:limit]
	}
	return ms
}

package transarea

import (
	"flag"
	"fmt"
	"regexp"
	"strings"
	"sync"

	"dawgsverif/areas/frontarea"
	"dawgsverif/areas/walkarea"
	"dawgsverif/internal/tr"

	"github.com/specterops/dawgs/cypher/frontend"
	"github.com/specterops/dawgs/graph"
	"github.com/specterops/dawgs/query"
)

// builderModels: query models assembled with the package query constructors (shapes the parser never builds:
// unnamed parameters carrying values, Parentheticals from Or / Not, KindIn, In with slices).
func builderModels() []frontarea.Model {
	var out []frontarea.Model
	k := func(name string) graph.Kind { return graph.StringKind(name) }
	add := func(tag string, criteria ...graph.Criteria) {
		if q, err := query.NewBuilderWithCriteria(criteria...).Build(false); err == nil {
			out = append(out, frontarea.Model{Text: "<builder> " + tag, Tag: "builder", Query: q})
		} else {
			tr.Fatal("builder model %s: %v", tag, err)
		}
	}
	add("where-and-or", query.Where(query.And(query.Equals(query.NodeProperty("a"), 1), query.Or(query.StringContains(query.NodeProperty("b"), "z"),
		query.Not(query.KindIn(query.Node(), k("A"), k("B")))))), query.Returning(query.Node()))
	add("rel-kinds", query.Where(query.And(query.KindIn(query.Relationship(), k("E")), query.In(query.RelationshipProperty("x"), []string{"u", "v"}),
		query.Equals(query.StartID(), 5))), query.Returning(query.RelationshipID(), query.Property(query.Relationship(), "value")))
	add("in-ids", query.Where(query.InIDs(query.NodeID(), 1, 2, 3)), query.Returning(query.Count(query.Node())))
	add("order-limit", query.Where(query.IsNotNull(query.NodeProperty("a"))), query.Returning(query.Node()), query.OrderBy(query.Order(query.NodeProperty("a"), query.Descending())),
		query.Limit(10), query.Offset(5))
	add("delete", query.Where(query.Equals(query.NodeID(), 7)), query.Delete(query.Node()))
	add("set", query.Where(query.Equals(query.NodeID(), 7)), query.Update(query.SetProperty(query.NodeProperty("x"), 1), query.AddKind(query.Node(), k("A"))))
	return out
}

// Total translates every model repeatedly - twice in sequence, then from 8 goroutines sharing the kind mapper - and
// records: returned without panic, within the budget, the same SQL and parameters every time, and the caller's
// model and parameter map left as they were.
func Total(args []string) {
	fs := flag.NewFlagSet("trans total", flag.ExitOnError)
	outp := fs.String("out", "trace.ndjson", "")
	limit := fs.Int("limit", 0, "")
	workers := fs.Int("workers", 8, "")
	repeats := fs.Int("repeats", 6, "further sequential repetitions")
	fs.Parse(args)
	w := tr.Create(*outp)
	ms := models(*limit)
	mapper := mapperFor(ms)
	func() {
		defer func() {
			if r := recover(); r != nil {
				tr.Fatal("builder models: %v", r)
			}
		}()
		ms = append(ms, builderModels()...)
	}()
	for _, text := range []string{"match (n) where n.name = $n return n", "match (n) where n.a = $p and n.b = $p return n", "match (n) with n as m where m.x = $m return m",
		"match (s)-[r]->(e) where r.x = $r and e.y = $s return s, r, e", "match (n $props) return n", "match (n) where id(n) in $ids return n", "match (n) return n skip $s limit $l",
		"match (n) where n.x = $1 with n match (m) where m.y = $1 return n, m", "unwind $list as x return x", "match (n) set n.x = $v return n", "match (n) set n += $m", "create (n:A $p) return n"} {
		if q, err := frontend.ParseCypher(frontend.NewContext(), text); err == nil {
			ms = append(ms, frontarea.Model{Text: text, Tag: "parameters", Query: q})
		}
	}
	// string literals with escapes, every one different (decoded per call: the place for pooled or cached scratch space)
	for i, esc := range []string{`a\\'b`, `c\\\\d`, `e\\nf`, `g\\th`, `\\u0041i`, `j\\"k`, `l\\rm`, `\\'`, `\\\\`, `n\\\\\\'o`, `p\\bq`, `r\\fs`, `\\u00e9t`, `u\\'\\'v`, `w\\\\n`, `x\\ty\\nz`} {
		text := fmt.Sprintf("match (n) where n.name = '%s' and n.k%d = '%s%d' return n", esc, i, esc, i)
		if q, err := frontend.ParseCypher(frontend.NewContext(), text); err == nil {
			ms = append(ms, frontarea.Model{Text: text, Tag: "escaped-literal", Query: q})
		}
	}
	// every read query of the corpus once more as a two-part query: its pattern variables handed through a WITH to
	// the original RETURN, so that whatever the optimiser rewrites sits in a non-final part
	lastReturn := regexp.MustCompile(`(?i)\breturn\b`)
	for _, m := range append([]frontarea.Model{}, ms...) {
		sq := m.Query.SingleQuery
		if sq == nil || sq.SinglePartQuery == nil || sq.SinglePartQuery.Return == nil || len(sq.SinglePartQuery.UpdatingClauses) > 0 || len(sq.SinglePartQuery.ReadingClauses) == 0 {
			continue
		}
		syms := symbolsOf(m.Query)
		var carried []string
		for _, v := range syms.vars {
			if r := syms.roles[v]; r == "node" || r == "rel" || r == "path" {
				carried = append(carried, v)
			}
		}
		locs := lastReturn.FindAllStringIndex(m.Text, -1)
		if len(carried) == 0 || len(locs) == 0 {
			continue
		}
		at := locs[len(locs)-1][0]
		text := m.Text[:at] + "with " + strings.Join(carried, ", ") + " " + m.Text[at:]
		if q, err := frontend.ParseCypher(frontend.NewContext(), text); err == nil {
			ms = append(ms, frontarea.Model{Text: text, Tag: "two-part-variant", Query: q})
		}
	}
	// every corpus query once more with one trailing modifier taken away: guards that assume "this shape always has a LIMIT"
	dropRes := []*regexp.Regexp{regexp.MustCompile(`(?i)\s+limit\s+\S+`), regexp.MustCompile(`(?i)\s+skip\s+\S+`), regexp.MustCompile(`(?i)\bdistinct\s+`),
		regexp.MustCompile(`(?i)\s+order\s+by\s+[^;]*?(\s+(?:skip|limit)\b|$)`), regexp.MustCompile(`(?i)\s+desc(?:ending)?\b`)}
	seenVariant := map[string]bool{}
	for _, m := range append([]frontarea.Model{}, ms...) {
		for ri, re := range dropRes {
			text := re.ReplaceAllString(m.Text, map[bool]string{true: "$1", false: " "}[ri == 3])
			text = strings.TrimSpace(strings.Join(strings.Fields(text), " "))
			if text == strings.Join(strings.Fields(m.Text), " ") || seenVariant[text] {
				continue
			}
			seenVariant[text] = true
			if q, err := frontend.ParseCypher(frontend.NewContext(), text); err == nil {
				ms = append(ms, frontarea.Model{Text: text, Tag: "modifier-dropped", Query: q})
			}
		}
	}
	// several items wherever the translator keeps items in a map or a set
	for _, text := range []string{"match (n) remove n.alpha, n.beta, n.gamma, n.delta return n", "match (n) set n.a = 1, n.b = 2, n.c = 3, n.d = 4, n.e = 5 return n",
		"match (n) set n:A:B:K:K0 return n", "match (n) remove n:A:B:K return n", "match (n) set n:A, n.x = 1 remove n:B, n.y, n.z return n",
		"create (n:A:B:K {a: 1, b: 2, c: 3, d: 4, e: 5}) return n", "match (n {a: 1, b: 2, c: 3, d: 4}) return n", "match (n) set n += {a: 1, b: 2, c: 3, d: 4} return n",
		"match (n) where n.a = $a and n.b = $b and n.c = $c and n.d = $d and n.e = $e return n", "match (a), (b), (c), (d) where a.x = b.x and c.x = d.x return a, b, c, d",
		"match (a)-[r]->(b) set a.x = 1, b.y = 2, r.z = 3 remove a.p, b.q, r.s return a, b, r", "match (a)-[r]->(b) delete r, a, b",
		"match (n) where n:A or n:B or n:K or n:K0 return n", "match (n) return n.a, n.b, n.c, n.d, count(n)", "match (n) with n.a as a, n.b as b, n.c as c, collect(n) as ns return a, b, c, ns",
		"match (a)-[r:E|E0|E1]->(b) where r.x = 1 and r.y = 2 return a, r, b", "match (n) where n.x in [$a, $b, $c] or n.y in [$d, $e] return n",
		"match (a)-[r]->(b) set r.a = 1, r.b = 2 remove r.c, r.d, r.e return r", "merge (n:A {k: 1}) on create set n.a = 1, n.b = 2, n.c = 3 on match set n.d = 4, n.e = 5 return n"} {
		if q, err := frontend.ParseCypher(frontend.NewContext(), text); err == nil {
			ms = append(ms, frontarea.Model{Text: text, Tag: "multi-item", Query: q})
		}
	}
	mapper = mapperFor(ms)
	hid, abandoned := 0, 0
models:
	for _, m := range ms {
		syms := symbolsOf(m.Query)
		variants := []string{"plain"}
		if len(syms.params) > 0 {
			variants = append(variants, "nil-map", "nil-values", "odd-types", "extra-keys")
		}
		for _, variant := range variants {
			var params map[string]any
			if variant != "nil-map" {
				params = map[string]any{}
				for j, p := range syms.params {
					switch variant {
					case "nil-values":
						params[p] = nil
					case "odd-types":
						params[p] = []any{struct{ X int }{1}, map[string]any{"k": []any{1, "a", nil}}, []any{}, int8(3), uint64(1) << 63, 1.5, true, [2]int{1, 2}}[(j+hid)%8]
					default:
						params[p] = []any{fmt.Sprintf("value-%d", j), j, []string{"a", "b"}, []int64{1, 2}, map[string]any{"k": "v"}}[(j+hid)%5]
					}
				}
				if variant == "extra-keys" {
					params["unused"], params[""], params["n0"], params["pi0"] = 1, 2, 3, 4
				}
			}
			modelBefore, paramsBefore := walkarea.DumpOf(m.Query), walkarea.DumpOf(params)
			first := translateOnce(m.Query, mapper, params)
			if first.abandoned {
				// it did not come back: recorded with the time it was given; asking again would only pile up abandoned calls
				w.Emit(map[string]any{"e": "total", "hid": hid, "text": m.Text, "class": m.Tag, "params": variant, "ok": false, "err": first.err, "panic": false, "panicmsg": "",
					"deterministic": true, "concurrent_same": true, "model_unchanged": true, "params_unchanged": true, "ms": first.ms, "budget_ms": 5000, "nparams": len(syms.params)})
				hid++
				abandoned++
				if abandoned >= 3 {
					break models
				}
				continue
			}
			second := translateOnce(m.Query, mapper, params)
			for rep := 0; rep < *repeats && second.ok == first.ok && second.sql == first.sql; rep++ {
				second = translateOnce(m.Query, mapper, params)
			}
			outs := make([]outcome, *workers)
			var wg sync.WaitGroup
			for g := range outs {
				wg.Add(1)
				go func(g int) {
					defer wg.Done()
					outs[g] = translateOnce(m.Query, mapper, params)
				}(g)
			}
			wg.Wait()
			same := func(a, b outcome) bool {
				return a.ok == b.ok && a.sql == b.sql && a.err == b.err && a.panic == b.panic && sameParams(a.params, b.params)
			}
			deterministic, concurrent, panicked, worst := same(first, second), true, first.panic != "" || second.panic != "", max(first.ms, second.ms)
			panicmsg := first.panic
			for _, o := range outs {
				concurrent = concurrent && same(first, o)
				if o.panic != "" {
					panicked, panicmsg = true, o.panic
				}
				worst = max(worst, o.ms)
			}
			w.Emit(map[string]any{"e": "total", "hid": hid, "text": m.Text, "class": m.Tag, "params": variant, "ok": first.ok, "err": clip(first.err), "panic": panicked, "panicmsg": clip(panicmsg),
				"deterministic": deterministic, "concurrent_same": concurrent, "model_unchanged": walkarea.DumpOf(m.Query) == modelBefore,
				"params_unchanged": walkarea.DumpOf(params) == paramsBefore, "ms": worst, "budget_ms": 5000, "nparams": len(syms.params)})
			hid++
		}
	}
	// different queries at the same time: groups of models, one goroutine each, three rounds; every translation must equal
	// what the same model gave when it was translated alone (shared pools and caches are the suspects here)
	var solo []outcome
	var soloModels []frontarea.Model
	for _, m := range ms {
		if len(symbolsOf(m.Query).params) > 0 {
			continue
		}
		if o := translateOnce(m.Query, mapper, nil); !o.abandoned && o.ok {
			solo = append(solo, o)
			soloModels = append(soloModels, m)
		}
	}
	for start := 0; start < len(soloModels); start += *workers {
		end := min(start+*workers, len(soloModels))
		sameAll := make([]bool, end-start)
		var wg sync.WaitGroup
		for g := start; g < end; g++ {
			wg.Add(1)
			go func(g int) {
				defer wg.Done()
				same := true
				for round := 0; round < 3; round++ {
					o := translateOnce(soloModels[g].Query, mapper, nil)
					same = same && o.ok == solo[g].ok && o.sql == solo[g].sql && sameParams(o.params, solo[g].params)
				}
				sameAll[g-start] = same
			}(g)
		}
		wg.Wait()
		for g := start; g < end; g++ {
			w.Emit(map[string]any{"e": "total", "hid": hid, "text": soloModels[g].Text, "class": "mixed-concurrency", "params": "plain", "ok": true, "err": "", "panic": false, "panicmsg": "",
				"deterministic": true, "concurrent_same": sameAll[g-start], "model_unchanged": true, "params_unchanged": true, "ms": 0, "budget_ms": 5000, "nparams": 0})
			hid++
		}
	}
	w.Close()
	fmt.Printf("{\"events\":%d}\n", w.N)
}

package transarea

import (
	"flag"
	"fmt"
	"strings"
	"sync"

	"dawgsverif/areas/frontarea"
	"dawgsverif/internal/tr"

	"github.com/specterops/dawgs/cypher/frontend"

	"github.com/specterops/dawgs/drivers/pg/pgutil"
)

// Pattern is a renaming pattern as printed by HygieneGen.tla: the new name of the i-th variable symbol and of the
// j-th parameter symbol of a query ("" = a fresh unique name; "#v<i>" = the name given to variable i).
type Pattern struct {
	Vars   []string `json:"vars"`
	Params []string `json:"params"`
}

func fresh(kind string, i int) string { return fmt.Sprintf("zq%s%dx", kind, i) }

func (p Pattern) apply(s symbols) (vars, params map[string]string, ok bool) {
	vars, params = map[string]string{}, map[string]string{}
	usedV, usedP := map[string]bool{}, map[string]bool{}
	for i, sym := range s.vars {
		n := fresh("v", i)
		if i < len(p.Vars) && p.Vars[i] != "" {
			n = p.Vars[i]
		}
		if usedV[n] {
			return nil, nil, false // not injective on this query
		}
		usedV[n] = true
		vars[sym] = n
	}
	for j, sym := range s.params {
		n := fresh("p", j)
		if j < len(p.Params) && p.Params[j] != "" {
			n = p.Params[j]
			if strings.HasPrefix(n, "#v") {
				var vi int
				fmt.Sscanf(n, "#v%d", &vi)
				if vi >= len(s.vars) {
					return nil, nil, false
				}
				n = vars[s.vars[vi]]
			}
		}
		if usedP[n] {
			return nil, nil, false
		}
		usedP[n] = true
		params[sym] = n
	}
	return vars, params, true
}

// Hygiene translates every corpus query three times - as written, with every user symbol replaced by a fresh unique
// name, and with the symbols renamed by each pattern - and records whether the pattern twin still translates and
// whether its SQL differs from the fresh twin's only where the fresh twin shows a user name.
func Hygiene(args []string) {
	fs := flag.NewFlagSet("trans hygiene", flag.ExitOnError)
	in := fs.String("patterns", "patterns.ndjson", "")
	outp := fs.String("out", "trace.ndjson", "")
	limit := fs.Int("limit", 0, "")
	stride := fs.Int("stride", 1, "use every stride-th (pattern, query) pair")
	workers := fs.Int("workers", 12, "")
	dense := fs.Int("dense", 0, "the first N patterns are applied to every query regardless of stride")
	only := fs.String("text", "", "only the model with exactly this text")
	fs.Parse(args)
	patterns := tr.ReadLines[Pattern](*in)
	var ms []frontarea.Model
	if *only != "" {
		// one query: parse it directly instead of building the whole corpus to pick it out
		if q, err := frontend.ParseCypher(frontend.NewContext(), *only); err == nil && q != nil {
			ms = []frontarea.Model{{Text: *only, Tag: "only", Query: q}}
		}
	} else {
		ms = models(*limit)
	}
	mapper := mapperFor(ms)
	results := make([][]map[string]any, len(ms))
	var wg sync.WaitGroup
	sem := make(chan struct{}, *workers)
	for mi := range ms {
		wg.Add(1)
		sem <- struct{}{}
		go func(mi int) {
			defer wg.Done()
			defer func() { <-sem }()
			results[mi] = hygieneOf(ms[mi], mi, patterns, mapper, *stride, *dense)
		}(mi)
	}
	wg.Wait()
	w := tr.Create(*outp)
	hid := 0
	for _, evs := range results {
		for _, ev := range evs {
			ev["hid"] = hid
			hid++
			w.Emit(ev)
		}
	}
	w.Close()
	fmt.Printf("{\"events\":%d}\n", w.N)
}

func hygieneOf(m frontarea.Model, mi int, patterns []Pattern, mapper *pgutil.InMemoryKindMapper, stride, dense int) (evs []map[string]any) {
	syms := symbolsOf(m.Query)
	if len(syms.vars)+len(syms.params) == 0 {
		return nil
	}
	paramValues := func(names map[string]string) map[string]any {
		out := map[string]any{}
		for j, sym := range syms.params {
			out[names[sym]] = fmt.Sprintf("value-%d", j)
		}
		return out
	}
	ident := map[string]string{}
	for _, p := range syms.params {
		ident[p] = p
	}
	base := translateOnce(m.Query, mapper, paramValues(ident))
	fv, fp, _ := Pattern{}.apply(syms)
	freshTwin := translateOnce(renamed(m.Query, fv, fp), mapper, paramValues(fp))
	for pi, p := range patterns {
		if pi >= dense && (pi+mi)%stride != 0 {
			continue
		}
		vars, params, ok := p.apply(syms)
		if !ok || (len(p.Vars) > len(syms.vars) && len(p.Params) > len(syms.params)) {
			continue
		}
		twin := translateOnce(renamed(m.Query, vars, params), mapper, paramValues(params))
		names := map[string]string{}
		for sym, f := range fv {
			names[f] = vars[sym]
		}
		for sym, f := range fp {
			names[f] = params[sym]
		}
		// the adversarial part of the renaming: what binds each symbol that did not get a fresh name
		adversarial, index := map[string]string{}, map[string]int{}
		for i, sym := range syms.vars {
			if n := vars[sym]; !strings.HasPrefix(n, "zqv") {
				adversarial[syms.roles[sym]+":"+sym] = n
				index[syms.roles[sym]+":"+sym] = i
			}
		}
		for j, sym := range syms.params {
			if n := params[sym]; !strings.HasPrefix(n, "zqp") {
				adversarial["param:"+sym] = n
				index["param:"+sym] = j
			}
		}
		ev := map[string]any{"e": "hyg", "text": m.Text, "pattern": pi, "vars": vars, "params": params, "adversarial": adversarial, "index": index, "nvars": len(syms.vars), "nparams": len(syms.params),
			"base_ok": base.ok, "fresh_ok": freshTwin.ok, "twin_ok": twin.ok, "panic": base.panic == "" && (twin.panic != "" || freshTwin.panic != ""), "panicmsg": clip(twin.panic + freshTwin.panic),
			"twin_err": clip(twin.err), "same_shape": false, "same_params": false, "diff": ""}
		if freshTwin.ok && twin.ok {
			same, diff := sameShape(freshTwin.sql, twin.sql, names)
			ev["same_shape"], ev["diff"] = same, diff
			ev["same_params"] = sameParams(freshTwin.params, twin.params)
			if !same {
				ev["fresh_sql"], ev["twin_sql"] = clip(freshTwin.sql), clip(twin.sql)
			}
		}
		evs = append(evs, ev)
	}
	return evs
}

func clip(s string) string {
	if len(s) > 600 {
		return s[:600] + "..."
	}
	return s
}

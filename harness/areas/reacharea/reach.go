// Package reacharea binds spec/Reach to algo.StronglyConnectedComponents / algo.ReachabilityCache.
package reacharea

import (
	"context"
	"encoding/json"
	"flag"
	"fmt"
	"sort"

	"dawgsverif/internal/tr"

	"github.com/specterops/dawgs/algo"
	"github.com/specterops/dawgs/cardinality"
	"github.com/specterops/dawgs/container"
	"github.com/specterops/dawgs/graph"
)

type Hist struct {
	Mode  string            `json:"mode"`
	K     int               `json:"k"`
	Edges [][2]int          `json:"edges"`
	Cap   int               `json:"cap"`
	Qs    []json.RawMessage `json:"qs"` // [component, "out"|"in"]
}

type Ev struct {
	E     string   `json:"e"`
	Hid   int      `json:"hid"`
	Hi    int      `json:"hi"`
	Cont  string   `json:"container,omitempty"`
	Nodes []int    `json:"nodes,omitempty"`
	Edges [][2]int `json:"edges,omitempty"`
	Cap   int      `json:"cap"`
	Comps [][]int  `json:"comps,omitempty"`
	CEdge [][2]int `json:"cedges,omitempty"`
	M     int      `json:"m"`
	A     int      `json:"a"`
	B     int      `json:"b"`
	Node  int      `json:"node"`
	Dir   string   `json:"dir,omitempty"`
	Pre   []int    `json:"pre,omitempty"`
	Ans   any      `json:"ans,omitempty"`
	Dup   bool     `json:"dup"`
	Api   string   `json:"api,omitempty"`
	Panic bool     `json:"panic"`
}

func dirOf(s string) graph.Direction {
	switch s {
	case "out":
		return graph.DirectionOutbound
	case "in":
		return graph.DirectionInbound
	}
	return graph.DirectionBoth
}

type world struct {
	nodes []int
	edges [][2]int
	id    map[int]uint64
	abs   map[uint64]int
}

// embed picks the concrete uint64 behind abstract node a: three layouts (dense from 0, gapped, above 2^32), and a
// layout-dependent order so that container iteration order differs from abstract order.
func (w *world) embed(layout int) {
	w.id, w.abs = map[int]uint64{}, map[uint64]int{}
	n := len(w.nodes)
	for i, a := range w.nodes {
		var v uint64
		switch layout % 3 {
		case 0:
			v = uint64(a)
		case 1:
			v = 1000 + uint64((n-1-i))*7 // reversed, with gaps
		default:
			v = (1 << 33) + uint64((i*5+3)%(2*n+1))*3 // above 2^32, scrambled (injective: 5 is coprime to odd 2n+1 unless it divides it)
			if (2*n+1)%5 == 0 {
				v = (1 << 33) + uint64(i)*11
			}
		}
		w.id[a] = v
		w.abs[v] = a
	}
}

func (w *world) absList(vs []uint64) ([]int, bool) {
	out := []int{}
	seen := map[int]bool{}
	dup := false
	for _, v := range vs {
		a, ok := w.abs[v]
		if !ok {
			a = -1
		}
		if seen[a] {
			dup = true
			continue
		}
		seen[a] = true
		out = append(out, a)
	}
	sort.Ints(out)
	return out, dup
}

func (w *world) build(cont string) container.DirectedGraph {
	switch cont {
	case "adj":
		g := container.NewAdjacencyMapGraph()
		for _, a := range w.nodes {
			g.AddNode(w.id[a])
		}
		for _, e := range w.edges {
			g.AddEdge(w.id[e[0]], w.id[e[1]])
		}
		return g
	default:
		b := container.NewCSRDigraphBuilder()
		for _, a := range w.nodes {
			b.AddNode(w.id[a])
		}
		for _, e := range w.edges {
			b.AddEdge(w.id[e[0]], w.id[e[1]])
		}
		return b.Build()
	}
}

// lift turns a history into a node-level graph.  In dag mode component c becomes one node (c) or, when bit c of
// fat is set, the 2-cycle {c, K+c}; an inter-component edge leaves through the last member and enters the first.
func lift(h Hist, fat int) (*world, func(c int) int) {
	w := &world{}
	if h.Mode != "dag" {
		for i := 0; i < h.K; i++ {
			w.nodes = append(w.nodes, i)
		}
		w.edges = h.Edges
		return w, func(c int) int { return c }
	}
	isFat := func(c int) bool { return fat&(1<<c) != 0 }
	for c := 0; c < h.K; c++ {
		w.nodes = append(w.nodes, c)
		if isFat(c) {
			w.nodes = append(w.nodes, h.K+c)
			w.edges = append(w.edges, [2]int{c, h.K + c}, [2]int{h.K + c, c})
		}
	}
	for _, e := range h.Edges {
		from := e[0]
		if isFat(from) {
			from = h.K + e[0]
		}
		w.edges = append(w.edges, [2]int{from, e[1]})
	}
	return w, func(c int) int {
		if isFat(c) && c%2 == 1 {
			return h.K + c
		}
		return c
	}
}

type session struct {
	w     *world
	out   *tr.Writer
	hid   int
	hi    int
	cache *algo.ReachabilityCache
	nq    int
}

// toMap keeps exactly the fields the event kind has (ndJsonDeserialize rejects null, so no nil slices).
func (ev *Ev) toMap() map[string]any {
	m := map[string]any{"e": ev.E, "hid": ev.Hid, "hi": ev.Hi, "panic": ev.Panic}
	switch ev.E {
	case "graph":
		m["container"], m["nodes"], m["edges"], m["cap"] = ev.Cont, ev.Nodes, ev.Edges, ev.Cap
	case "scc":
		m["comps"], m["cedges"] = ev.Comps, ev.CEdge
	case "reach":
		m["m"], m["dir"], m["ans"], m["dup"], m["api"] = ev.M, ev.Dir, ev.Ans, ev.Dup, ev.Api
	case "can":
		m["a"], m["b"], m["dir"], m["ans"] = ev.A, ev.B, ev.Dir, ev.Ans
	case "or", "xor":
		m["node"], m["dir"], m["pre"], m["ans"], m["dup"] = ev.Node, ev.Dir, ev.Pre, ev.Ans, ev.Dup
	}
	return m
}

func (s *session) guard(ev *Ev, f func()) {
	defer func() {
		if r := recover(); r != nil {
			ev.Panic = true
		}
		s.out.Emit(ev.toMap())
	}()
	f()
}

func (s *session) reach(m int, dir string) {
	ev := Ev{E: "reach", Hid: s.hid, Hi: s.hi, M: m, Dir: dir, Ans: []int{}}
	s.guard(&ev, func() {
		id, ok := s.w.id[m]
		if !ok {
			id = 1 << 50 // a node the graph does not know
		}
		var vs []uint64
		s.nq++
		if s.nq%2 == 0 {
			ev.Api = "ReachSliceOfComponentContainingMember"
			for _, bm := range s.cache.ReachSliceOfComponentContainingMember(id, dirOf(dir)) {
				vs = append(vs, bm.Slice()...)
			}
		} else {
			ev.Api = "ReachOfComponentContainingMember"
			vs = s.cache.ReachOfComponentContainingMember(id, dirOf(dir)).Slice()
		}
		ev.Ans, ev.Dup = s.w.absList(vs)
	})
}

func (s *session) can(a, b int, dir string) {
	ev := Ev{E: "can", Hid: s.hid, Hi: s.hi, A: a, B: b, Dir: dir, Ans: false}
	s.guard(&ev, func() {
		ia, oka := s.w.id[a]
		ib, okb := s.w.id[b]
		if !oka {
			ia = 1 << 50
		}
		if !okb {
			ib = 1 << 50
		}
		ev.Ans = s.cache.CanReach(ia, ib, dirOf(dir))
	})
}

func (s *session) orxor(kind string, node int, dir string, pre []int) {
	ev := Ev{E: kind, Hid: s.hid, Hi: s.hi, Node: node, Dir: dir, Pre: pre, Ans: []int{}}
	if ev.Pre == nil {
		ev.Pre = []int{}
	}
	s.guard(&ev, func() {
		d := cardinality.NewBitmap64()
		for _, p := range pre {
			d.Add(s.w.id[p])
		}
		if kind == "or" {
			s.cache.OrReach(s.w.id[node], dirOf(dir), d)
		} else {
			s.cache.XorReach(s.w.id[node], dirOf(dir), d)
		}
		ev.Ans, ev.Dup = s.w.absList(d.Slice())
	})
}

func runOne(out *tr.Writer, hid, hi int, h Hist, cont string, variant int) {
	w, member := lift(h, variant)
	w.embed(variant)
	nodes := append([]int{}, w.nodes...)
	sort.Ints(nodes)
	edges := w.edges
	if edges == nil {
		edges = [][2]int{}
	}
	gev := Ev{E: "graph", Hid: hid, Hi: hi, Cont: cont, Nodes: nodes, Edges: edges, Cap: h.Cap}
	var dg container.DirectedGraph
	s := &session{w: w, out: out, hid: hid, hi: hi}
	s.guard(&gev, func() { dg = w.build(cont) })
	if gev.Panic {
		return
	}
	// SCC decomposition and component graph
	sev := Ev{E: "scc", Hid: hid, Hi: hi, Comps: [][]int{}, CEdge: [][2]int{}}
	s.guard(&sev, func() {
		cg := algo.NewComponentGraph(context.Background(), dg)
		ncomp := int(cg.Digraph().NumNodes())
		for c := 0; c < ncomp; c++ {
			members := cg.ComponentMembers(uint64(c)).Slice()
			l := make([]int, 0, len(members))
			for _, m := range members {
				a, ok := w.abs[m]
				if !ok {
					a = -1
				}
				l = append(l, a)
			}
			sort.Ints(l)
			sev.Comps = append(sev.Comps, l)
		}
		seen := map[[2]int]bool{}
		for c := 0; c < ncomp; c++ {
			cg.Digraph().EachAdjacentNode(uint64(c), graph.DirectionOutbound, func(adj uint64) bool {
				// TLA+ sequences are 1-based
				e := [2]int{c + 1, int(adj) + 1}
				if !seen[e] {
					seen[e] = true
					sev.CEdge = append(sev.CEdge, e)
				}
				return true
			})
		}
	})
	if sev.Panic {
		return
	}
	cev := Ev{E: "newcache", Hid: hid, Hi: hi}
	func() {
		defer func() {
			if r := recover(); r != nil {
				cev.Panic = true
				cev.E = "reach" // a panic in the constructor: surfaces as a rejected event
				cev.Ans = []int{}
				out.Emit(cev.toMap())
			}
		}()
		s.cache = algo.NewReachabilityCache(context.Background(), dg, h.Cap)
	}()
	if s.cache == nil {
		return
	}
	if h.Mode == "dag" {
		for _, raw := range h.Qs {
			var q []any
			json.Unmarshal(raw, &q)
			s.reach(member(int(q[0].(float64))), q[1].(string))
		}
		// sweep: read every entry the history may have left in either cache
		for c := 0; c < h.K; c++ {
			s.reach(member((c+variant)%h.K), "out")
		}
		for c := 0; c < h.K; c++ {
			s.reach(member((c+variant)%h.K), "in")
		}
		a, b := variant%h.K, (variant/3+1)%h.K
		for _, d := range []string{"out", "in", "both"} {
			s.can(a, b, d)
			s.can(b, a, d)
		}
		s.orxor("or", a, "out", []int{b, a})
		s.orxor("xor", b, "in", []int{a, b})
		s.reach(99, "out")
		s.can(a, 99, "out")
	} else {
		// rand mode: the generated query sequence first (it decides what the cache holds), then every question
		for _, raw := range h.Qs {
			var q []any
			json.Unmarshal(raw, &q)
			s.reach(int(q[0].(float64)), q[1].(string))
		}
		for _, d := range []string{"out", "in"} {
			for i := range nodes {
				s.reach(nodes[(i+variant)%len(nodes)], d)
			}
		}
		for _, d := range []string{"out", "in", "both"} {
			for _, a := range nodes {
				for _, b := range nodes {
					s.can(a, b, d)
				}
			}
		}
		for _, a := range nodes {
			s.orxor("or", a, "out", []int{nodes[0]})
			s.orxor("xor", a, "in", nodes)
		}
		s.reach(nodes[0], "both")
	}
}

func Replay(args []string) {
	fs := flag.NewFlagSet("reach replay", flag.ExitOnError)
	in := fs.String("in", "hist.ndjson", "")
	outp := fs.String("out", "trace.ndjson", "")
	seed := fs.Int("seed", 1, "")
	conts := fs.String("containers", "rotate", "rotate|both|adj|csr")
	fixvar := fs.Int("variant", -1, "fixed variant (replay)")
	fs.Parse(args)
	hs := tr.ReadLines[Hist](*in)
	out := tr.Create(*outp)
	hid := 0
	for hi, h := range hs {
		variant := hi*7 + *seed*13
		if *fixvar >= 0 {
			variant = *fixvar
		}
		var cs []string
		switch *conts {
		case "both":
			cs = []string{"adj", "csr"}
		case "rotate":
			cs = []string{[]string{"adj", "csr"}[(hi+*seed)%2]}
		default:
			cs = []string{*conts}
		}
		for _, c := range cs {
			runOne(out, hid, hi, h, c, variant)
			hid++
		}
	}
	out.Close()
	fmt.Printf("{\"histories\":%d,\"runs\":%d,\"events\":%d}\n", len(hs), hid, out.N)
}

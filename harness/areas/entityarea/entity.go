// Package entityarea binds spec/EntityDelta to graph.Properties / graph.Node / graph.Relationship.
package entityarea

import (
	"flag"
	"fmt"
	"sort"

	"dawgsverif/internal/tr"

	"github.com/specterops/dawgs/graph"
)

type Op struct {
	Op    string   `json:"op"`
	Ent   string   `json:"ent"`
	Other string   `json:"other"`
	K     string   `json:"k"`
	V     int      `json:"v"`
	M     [][]any  `json:"m"`
	Ks    []string `json:"ks"`
}

type Hist struct {
	LMap   [][]any  `json:"lmap"`
	LKinds []string `json:"lkinds"`
	Ops    []Op     `json:"ops"`
}

// Proj is the abstract state of one entity as seen through its public fields and accessors.
type Proj struct {
	Map     [][]any  `json:"map"`
	Mod     [][]any  `json:"mod"` // ModifiedProperties(), with values
	Del     []string `json:"del"`
	Kinds   []string `json:"kinds"`
	Added   []string `json:"added"`
	Removed []string `json:"removed"`
	Dup     bool     `json:"dup"` // a duplicate in any kind list, or in DeletedProperties()
}

type Ev struct {
	E      string          `json:"e"`
	Hid    int             `json:"hid"`
	Var    string          `json:"variant"`
	Op     string          `json:"op"`
	Ent    string          `json:"ent"`
	Other  string          `json:"other"`
	K      string          `json:"k"`
	V      int             `json:"v"`
	M      [][]any         `json:"m"`
	Ks     []string        `json:"ks"`
	LMap   [][]any         `json:"lmap"`
	LKinds []string        `json:"lkinds"`
	Ret    int             `json:"ret"` // GetOrDefault's answer
	St     map[string]Proj `json:"st"`
	Panic  bool            `json:"panic"`
}

func pairs(m map[string]any) [][]any {
	out := [][]any{}
	keys := make([]string, 0, len(m))
	for k := range m {
		keys = append(keys, k)
	}
	sort.Strings(keys)
	for _, k := range keys {
		v := m[k]
		if v == nil {
			v = -1
		}
		out = append(out, []any{k, v})
	}
	return out
}

func kindStrings(ks graph.Kinds) ([]string, bool) {
	out := []string{}
	seen := map[string]bool{}
	dup := false
	for _, k := range ks {
		if k == nil {
			out = append(out, "<nil>")
			continue
		}
		if seen[k.String()] {
			dup = true
			continue
		}
		seen[k.String()] = true
		out = append(out, k.String())
	}
	sort.Strings(out)
	return out, dup
}

// entity wraps the three carriers of tracked properties.
type entity struct {
	variant string
	node    *graph.Node
	rel     *graph.Relationship
	props   *graph.Properties
}

func (e *entity) P() *graph.Properties {
	switch e.variant {
	case "node":
		return e.node.Properties
	case "rel":
		return e.rel.Properties
	}
	return e.props
}

func (e *entity) setP(p *graph.Properties) {
	switch e.variant {
	case "node":
		e.node.Properties = p
	case "rel":
		e.rel.Properties = p
	default:
		e.props = p
	}
}

func projProps(p *graph.Properties) Proj {
	pr := Proj{Kinds: []string{}, Added: []string{}, Removed: []string{}}
	pr.Map = pairs(p.MapOrEmpty())
	pr.Mod = pairs(p.ModifiedProperties())
	pr.Del = []string{}
	seen := map[string]bool{}
	for _, k := range p.DeletedProperties() {
		if seen[k] {
			pr.Dup = true
			continue
		}
		seen[k] = true
		pr.Del = append(pr.Del, k)
	}
	sort.Strings(pr.Del)
	return pr
}

func (e *entity) proj() Proj {
	pr := projProps(e.P())
	if e.variant == "node" {
		var d1, d2, d3 bool
		pr.Kinds, d1 = kindStrings(e.node.Kinds)
		pr.Added, d2 = kindStrings(e.node.AddedKinds)
		pr.Removed, d3 = kindStrings(e.node.DeletedKinds)
		pr.Dup = pr.Dup || d1 || d2 || d3
	}
	return pr
}

func loadProps(lmap [][]any, style int) *graph.Properties {
	if len(lmap) == 0 && style%2 == 0 {
		return graph.NewProperties()
	}
	m := map[string]any{}
	for _, p := range lmap {
		m[p[0].(string)] = int(p[1].(float64))
	}
	return graph.AsProperties(m)
}

func newEntity(variant string, h Hist, style int, id int) *entity {
	e := &entity{variant: variant}
	switch variant {
	case "node":
		// a fresh kind slice per node, as a driver would build it
		e.node = graph.NewNode(graph.ID(id), loadProps(h.LMap, style), graph.StringsToKinds(h.LKinds)...)
	case "rel":
		e.rel = graph.NewRelationship(graph.ID(id), 1, 2, loadProps(h.LMap, style), graph.StringKind("R"))
	default:
		e.props = loadProps(h.LMap, style)
	}
	return e
}

func toInt(v any) int {
	switch t := v.(type) {
	case int:
		return t
	case int64:
		return int(t)
	case float64:
		return int(t)
	}
	return -1
}

// Replay executes every history on real entities of the requested carrier and logs, after each call, the
// full projection of every live object (including the object a clone was taken from), so that an edit
// leaking into another object is visible.
func Replay(args []string) {
	fs := flag.NewFlagSet("entity replay", flag.ExitOnError)
	in := fs.String("in", "hist.ndjson", "")
	out := fs.String("out", "trace.ndjson", "")
	variant := fs.String("variant", "node", "node|rel|props")
	seed := fs.Int("seed", 1, "")
	fs.Parse(args)
	hs := tr.ReadLines[Hist](*in)
	w := tr.Create(*out)
	skipped := 0
	for hid, h := range hs {
		if *variant != "node" {
			kindy := len(h.LKinds) > 0
			for _, o := range h.Ops {
				if o.Op == "addk" || o.Op == "delk" {
					kindy = true
				}
			}
			if kindy {
				skipped++
				continue
			}
		}
		ents := map[string]*entity{"X": newEntity(*variant, h, *seed+hid, 1), "Y": newEntity(*variant, h, *seed+hid+1, 2)}
		var shadow *graph.Properties
		state := func() map[string]Proj {
			st := map[string]Proj{"X": ents["X"].proj(), "Y": ents["Y"].proj()}
			if shadow != nil {
				st["S"] = projProps(shadow)
			}
			return st
		}
		w.Emit(Ev{E: "load", Hid: hid, Var: *variant, LMap: h.LMap, LKinds: h.LKinds, St: state(), M: [][]any{}, Ks: []string{}})
		for _, o := range h.Ops {
			ev := Ev{E: "op", Hid: hid, Var: *variant, Op: o.Op, Ent: o.Ent, Other: o.Other, K: o.K, V: o.V, M: o.M, Ks: o.Ks,
				LMap: [][]any{}, LKinds: []string{}}
			if ev.M == nil {
				ev.M = [][]any{}
			}
			if ev.Ks == nil {
				ev.Ks = []string{}
			}
			func() {
				defer func() {
					if r := recover(); r != nil {
						ev.Panic = true
					}
				}()
				e := ents[o.Ent]
				switch o.Op {
				case "set":
					e.P().Set(o.K, o.V)
				case "del":
					e.P().Delete(o.K)
				case "setall":
					m := map[string]any{}
					for _, p := range o.M {
						m[p[0].(string)] = toInt(p[1])
					}
					e.P().SetAll(m)
				case "getdef":
					if v, err := e.P().GetOrDefault(o.K, o.V).Int(); err == nil {
						ev.Ret = v
					} else {
						ev.Ret = -1
					}
				case "clone":
					shadow = e.P()
					e.setP(shadow.Clone())
				case "pmerge":
					e.P().Merge(ents[o.Other].P())
				case "nmerge":
					switch *variant {
					case "node":
						e.node.Merge(ents[o.Other].node)
					case "rel":
						e.rel.Merge(ents[o.Other].rel)
					default:
						e.props.Merge(ents[o.Other].props)
					}
				case "addk":
					e.node.AddKinds(graph.StringsToKinds(o.Ks)...)
				case "delk":
					e.node.DeleteKinds(graph.StringsToKinds(o.Ks)...)
				default:
					tr.Fatal("bad op %q", o.Op)
				}
			}()
			ev.St = state()
			w.Emit(ev)
		}
	}
	w.Close()
	fmt.Printf("{\"histories\":%d,\"skipped\":%d,\"events\":%d}\n", len(hs)-skipped, skipped, w.N)
}

package travarea

import (
	"context"
	"flag"
	"fmt"
	"sort"
	"sync"

	"dawgsverif/fakedb"
	"dawgsverif/internal/tr"

	"github.com/specterops/dawgs/graph"
	"github.com/specterops/dawgs/traversal"
)

// FGraph is a small directed multigraph as printed by PathsGen.tla: edge i (1-based) goes from edges[i].s to edges[i].t.
type FGraph struct {
	N     int              `json:"n"`
	Edges []map[string]int `json:"edges"`
}

func edgeSeq(seg *graph.PathSegment) []int {
	var out []int
	for cur := seg; cur != nil && cur.Trunk != nil; cur = cur.Trunk {
		out = append([]int{int(cur.Edge.ID)}, out...)
	}
	return out
}

// Filters runs traversal.BreadthFirst from every node of every graph with a driver that expands along the graph's edges
// and lets the real segment filters of package traversal (AcyclicNodeFilter, UniquePathSegmentFilter) decide what to
// descend into; it records the set of segments the driver was called on.  It also asks PathSegment.IsCycle about every
// walk of up to 3 edges.
func Filters(args []string) {
	fs := flag.NewFlagSet("trav filters", flag.ExitOnError)
	in := fs.String("in", "graphs.ndjson", "")
	outp := fs.String("out", "trace.ndjson", "")
	stride := fs.Int("stride", 1, "")
	fs.Parse(args)
	w := tr.Create(*outp)
	hid := 0
	for gi, g := range tr.ReadLines[FGraph](*in) {
		if gi%*stride != 0 {
			continue
		}
		out := map[int][]int{} // node -> edge ids leaving it, ascending
		for i, e := range g.Edges {
			out[e["s"]] = append(out[e["s"]], i+1)
		}
		nodes := map[int]*graph.Node{}
		for i := 1; i <= g.N; i++ {
			nodes[i] = graph.NewNode(graph.ID(i), graph.NewProperties())
		}
		rel := func(id int) *graph.Relationship {
			e := g.Edges[id-1]
			return graph.NewRelationship(graph.ID(id), graph.ID(e["s"]), graph.ID(e["t"]), graph.NewProperties(), graph.StringKind("E"))
		}
		// IsCycle on every walk of up to 3 edges from every node
		var walk func(seg *graph.PathSegment, nodesSoFar []int, depth int)
		walk = func(seg *graph.PathSegment, nodesSoFar []int, depth int) {
			if depth > 0 {
				w.Emit(map[string]any{"e": "iscycle", "hid": hid, "nodes": nodesSoFar, "got": seg.IsCycle()})
				hid++
			}
			if depth == 3 {
				return
			}
			for _, id := range out[nodesSoFar[len(nodesSoFar)-1]] {
				t := g.Edges[id-1]["t"]
				walk(seg.Descend(nodes[t], rel(id)), append(append([]int{}, nodesSoFar...), t), depth+1)
			}
		}
		for root := 1; root <= g.N; root++ {
			walk(graph.NewRootPathSegment(nodes[root]), []int{root}, 0)
		}
		for _, mode := range []string{"acyclic", "unique"} {
			for _, workers := range []int{1, 3} {
				for root := 1; root <= g.N; root++ {
					var mu sync.Mutex
					var visited [][]int
					accept := func(*graph.PathSegment) bool { return true }
					filter := traversal.AcyclicNodeFilter(accept)
					if mode == "unique" {
						filter = traversal.UniquePathSegmentFilter(accept)
					}
					driver := func(ctx context.Context, tx graph.Transaction, seg *graph.PathSegment) ([]*graph.PathSegment, error) {
						mu.Lock()
						visited = append(visited, edgeSeq(seg))
						mu.Unlock()
						var next []*graph.PathSegment
						for _, id := range out[int(seg.Node.ID)] {
							if n := seg.Descend(nodes[g.Edges[id-1]["t"]], rel(id)); filter(n) {
								next = append(next, n)
							}
						}
						return next, nil
					}
					err := traversal.New(fakedb.New(), workers).BreadthFirst(context.Background(), traversal.Plan{Root: nodes[root], Driver: driver})
					sort.Slice(visited, func(i, j int) bool { return fmt.Sprint(visited[i]) < fmt.Sprint(visited[j]) })
					if visited == nil {
						visited = [][]int{}
					}
					for i := range visited {
						if visited[i] == nil {
							visited[i] = []int{}
						}
					}
					w.Emit(map[string]any{"e": "paths", "hid": hid, "mode": mode, "workers": workers, "n": g.N, "edges": g.Edges, "root": root, "visited": visited, "err": err != nil})
					hid++
				}
			}
		}
	}
	w.Close()
	fmt.Printf("{\"events\":%d}\n", w.N)
}

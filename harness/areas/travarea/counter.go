package travarea

import (
	"flag"
	"fmt"
	"sync"
	"sync/atomic"

	"dawgsverif/internal/tr"

	"github.com/specterops/dawgs/graph"
	"github.com/specterops/dawgs/traversal"
	"github.com/specterops/dawgs/util/atomics"
)

// Counter drives the bounded counter of util/atomics (both widths) and the skip / limit segment filter that
// traversal.BreadthFirst workers share, from several goroutines released together, and records the totals: how many
// calls were told "not yet at the maximum", whether a goroutine was told so after it had been told "at the maximum",
// how many segments were visited.
func Counter(args []string) {
	fs := flag.NewFlagSet("trav counter", flag.ExitOnError)
	outp := fs.String("out", "trace.ndjson", "")
	rounds := fs.Int("rounds", 200, "")
	fs.Parse(args)
	w := tr.Create(*outp)
	hid := 0
	run := func(threads, per int, call func() bool) (falses int64, late bool) {
		var wg sync.WaitGroup
		var start sync.WaitGroup
		var nf atomic.Int64
		var lateFlag atomic.Bool
		start.Add(1)
		for t := 0; t < threads; t++ {
			wg.Add(1)
			go func() {
				defer wg.Done()
				start.Wait()
				sawTrue := false
				for i := 0; i < per; i++ {
					if call() {
						sawTrue = true
					} else {
						nf.Add(1)
						if sawTrue {
							lateFlag.Store(true)
						}
					}
				}
			}()
		}
		start.Done()
		wg.Wait()
		return nf.Load(), lateFlag.Load()
	}
	for r := 0; r < *rounds; r++ {
		for _, threads := range []int{1, 2, 4, 16} {
			per := 40
			calls := threads * per
			for _, max := range []int{0, 1, calls / 2, calls - 1, calls, calls + 5} {
				for _, width := range []int{32, 64} {
					var c atomics.Counter
					if width == 32 {
						c = atomics.NewCounter(uint32(max))
					} else {
						c = atomics.NewCounter(uint64(max))
					}
					f, late := run(threads, per, c)
					w.Emit(map[string]any{"e": "counter", "hid": hid, "width": width, "max": max, "threads": threads, "calls": calls, "falses": f, "late_false": late})
					hid++
				}
			}
			for _, sl := range [][2]int{{0, 0}, {0, calls / 2}, {calls / 3, 0}, {calls / 4, calls / 2}, {calls + 1, 3}, {0, calls + 5}} {
				var visited, offered atomic.Int64
				filter := traversal.FilteredSkipLimit(func(*graph.PathSegment) (bool, bool) { offered.Add(1); return true, true },
					func(*graph.PathSegment) { visited.Add(1) }, sl[0], sl[1])
				seg := graph.NewRootPathSegment(graph.NewNode(1, graph.NewProperties()))
				descended, _ := run(threads, per, func() bool { return !filter(seg) })
				w.Emit(map[string]any{"e": "skiplimit", "hid": hid, "skip": sl[0], "limit": sl[1], "threads": threads, "calls": calls, "offered": offered.Load(),
					"visited": visited.Load(), "descended": descended})
				hid++
			}
		}
	}
	w.Close()
	fmt.Printf("{\"events\":%d}\n", w.N)
}

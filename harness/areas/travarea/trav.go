// Package travarea binds spec/Traversal to traversal.Traversal.BreadthFirst and channels.BufferedPipe.
package travarea

import (
	"context"
	"errors"
	"flag"
	"fmt"
	"math/rand"
	"runtime"
	"sync"
	"time"

	"dawgsverif/fakedb"
	"dawgsverif/internal/tr"

	"github.com/specterops/dawgs/graph"
	"github.com/specterops/dawgs/traversal"
	"github.com/specterops/dawgs/util/channels"
	"github.com/specterops/dawgs/util/verifhook"
)

type Plan struct {
	N       int   `json:"n"`
	Parents []int `json:"parents"` // parents[i-1] = parent of segment i (as TLC's function 1..n-1 prints)
	Fail    int   `json:"fail"`
	Cancel  bool  `json:"cancel"`
}

type evlog struct {
	mu  sync.Mutex
	evs []map[string]any
}

func (l *evlog) add(m map[string]any) {
	l.mu.Lock()
	l.evs = append(l.evs, m)
	l.mu.Unlock()
}

// gate controller: goroutines block inside the verif hooks; when nothing has arrived for a quiescence window the
// controller releases the waiter the policy prefers.  It only shapes the schedule; it never produces a verdict.
type waiter struct {
	point  string
	worker int
	c      chan struct{}
}

type gates struct {
	mu      sync.Mutex
	waiting []*waiter
	last    time.Time
	policy  int
	rng     *rand.Rand
	stop    chan struct{}
	off     bool
}

func (g *gates) hook(point string, args ...any) {
	g.mu.Lock()
	if g.off {
		g.mu.Unlock()
		return
	}
	w := &waiter{point: point, worker: -1, c: make(chan struct{})}
	if len(args) > 0 {
		if id, ok := args[0].(int); ok {
			w.worker = id
		}
	}
	g.waiting = append(g.waiting, w)
	g.last = time.Now()
	g.mu.Unlock()
	<-w.c
}

// rank: higher = released later.
func (g *gates) rank(w *waiter) int {
	switch g.policy {
	case 0: // starve a worker that has just submitted a child (window: child queued, parent not yet decremented)
		if w.point == "bf.w.submitted" {
			return 3
		}
	case 1: // starve a worker that has incremented but not yet submitted
		if w.point == "bf.w.incremented" {
			return 3
		}
	case 2: // let the coordinator look at the counter as late as possible
		if w.point == "bf.c.waiting" {
			return 3
		}
	case 3: // let the coordinator look as early as possible, starve decrements
		if w.point == "bf.c.waiting" {
			return 0
		}
		if w.point == "bf.w.decremented" {
			return 3
		}
		return 1
	}
	return 1
}

func (g *gates) run() {
	for {
		select {
		case <-g.stop:
			g.mu.Lock()
			g.off = true
			for _, w := range g.waiting {
				close(w.c)
			}
			g.waiting = nil
			g.mu.Unlock()
			return
		case <-time.After(100 * time.Microsecond):
		}
		g.mu.Lock()
		if len(g.waiting) > 0 && time.Since(g.last) > 300*time.Microsecond {
			best := -1
			for i, w := range g.waiting {
				if best < 0 || g.rank(w) < g.rank(g.waiting[best]) || (g.rank(w) == g.rank(g.waiting[best]) && g.policy == 4 && g.rng.Intn(2) == 0) {
					best = i
				}
			}
			w := g.waiting[best]
			g.waiting = append(g.waiting[:best], g.waiting[best+1:]...)
			g.last = time.Now()
			close(w.c)
		}
		g.mu.Unlock()
	}
}

func runPlan(w *tr.Writer, hid int, p Plan, workers int, mode string, policy int, memlimit bool, rng *rand.Rand) {
	kids := map[int][]int{}
	for i, par := range p.Parents {
		kids[par] = append(kids[par], i+1)
	}
	log := &evlog{}
	ctx, cancel := context.WithCancel(context.Background())
	defer cancel()
	calls := 0
	cancelAt := -1
	if p.Cancel {
		cancelAt = 1 + rng.Intn(p.N)
	}
	var cmu sync.Mutex
	jitter := mode == "free"
	seeds := make([]int64, 64)
	for i := range seeds {
		seeds[i] = rng.Int63()
	}
	// block mode: one segment that can run next to the failing one sits in its driver call until the context the
	// traversal handed it is cancelled (a long database call); the failing call waits until that one has started.
	blockSeg := -1
	entered := make(chan struct{})
	var enteredOnce sync.Once
	if mode == "block" {
		for s := 1; s < p.N; s++ {
			if s != p.Fail && !related(p, s, p.Fail) {
				blockSeg = s
				break
			}
		}
	}
	// free mode: every worker also hands the segment it expands to the library's own collectors (shared by all workers)
	nodeCollector, pathCollector := traversal.NewNodeCollector(), traversal.NewPathCollector()
	driver := func(dctx context.Context, _ graph.Transaction, seg *graph.PathSegment) ([]*graph.PathSegment, error) {
		id := int(seg.Node.ID)
		log.add(map[string]any{"e": "dstart", "hid": hid, "seg": id})
		if mode == "free" {
			nodeCollector.Collect(seg)
			nodeCollector.Add(seg.Node)
			pathCollector.Add(graph.Path{Nodes: []*graph.Node{seg.Node}})
		}
		if id == blockSeg {
			enteredOnce.Do(func() { close(entered) })
			select {
			case <-dctx.Done():
			case <-time.After(6 * time.Second):
			}
			log.add(map[string]any{"e": "dend", "hid": hid, "seg": id})
			return nil, dctx.Err()
		}
		if id == p.Fail && blockSeg >= 0 {
			select {
			case <-entered:
			case <-time.After(300 * time.Millisecond):
			}
		}
		cmu.Lock()
		calls++
		c := calls
		cmu.Unlock()
		if c == cancelAt {
			log.add(map[string]any{"e": "cancel", "hid": hid})
			cancel()
		}
		if jitter {
			switch seeds[id%64] % 4 {
			case 0:
				runtime.Gosched()
			case 1:
				time.Sleep(time.Duration(seeds[id%64]%50) * time.Microsecond)
			}
		}
		if id == p.Fail {
			log.add(map[string]any{"e": "dend", "hid": hid, "seg": id})
			return nil, errors.New("injected driver failure")
		}
		var out []*graph.PathSegment
		for _, k := range kids[id] {
			n := graph.NewNode(graph.ID(k), graph.NewProperties())
			if memlimit {
				out = append(out, seg.Descend(n, graph.NewRelationship(graph.ID(1000+k), graph.ID(id), graph.ID(k), graph.NewProperties(), graph.StringKind("E"))))
			} else {
				out = append(out, &graph.PathSegment{Node: n, Trunk: seg})
			}
		}
		log.add(map[string]any{"e": "dend", "hid": hid, "seg": id})
		return out, nil
	}
	db := fakedb.New()
	if memlimit {
		db.MemLimit = 1
	}
	parents := p.Parents
	if parents == nil {
		parents = []int{}
	}
	w.Emit(map[string]any{"e": "plan", "hid": hid, "n": p.N, "parents": parents, "fail": p.Fail, "cancel": p.Cancel, "workers": workers,
		"memlimit": memlimit, "mode": mode, "policy": policy})
	var g *gates
	if mode == "gate" {
		g = &gates{policy: policy, rng: rng, stop: make(chan struct{}), last: time.Now()}
		verifhook.Install(g.hook)
		go g.run()
	}
	runtime.GC()
	base := runtime.NumGoroutine()
	started := time.Now()
	budget := 15000
	if blockSeg >= 0 {
		budget = 2000 // the unchanged tree returns within milliseconds of the failure
	}
	done := make(chan error, 1)
	go func() {
		done <- traversal.New(db, workers).BreadthFirst(ctx, traversal.Plan{Root: graph.NewNode(0, graph.NewProperties()), Driver: driver})
	}()
	var err error
	hung := false
	select {
	case err = <-done:
	case <-time.After(20 * time.Second):
		hung = true
	}
	elapsed := time.Since(started)
	if g != nil {
		close(g.stop)
		verifhook.Install(nil)
	}
	if hung {
		for _, e := range log.snapshot() {
			w.Emit(e)
		}
		w.Emit(map[string]any{"e": "hang", "hid": hid})
		return
	}
	// goroutines left behind: poll briefly, the pipe goroutine and workers exit asynchronously to nobody
	leaked := 0
	for i := 0; i < 200; i++ {
		leaked = runtime.NumGoroutine() - base
		if g != nil {
			leaked-- // the controller goroutine may still be winding down
			if leaked < 0 {
				leaked = 0
			}
		}
		if leaked <= 0 {
			leaked = 0
			break
		}
		time.Sleep(time.Millisecond)
	}
	evs := log.snapshot()
	nBefore := len(evs)
	for _, e := range evs {
		w.Emit(e)
	}
	w.Emit(map[string]any{"e": "ret", "hid": hid, "err": err != nil, "leaked": leaked, "elapsed_ms": int(elapsed / time.Millisecond), "budget_ms": budget,
		"blocking": blockSeg})
	time.Sleep(2 * time.Millisecond)
	for _, e := range log.snapshot()[nBefore:] { // expansions that started after the call returned
		w.Emit(e)
	}
	if mode == "free" && err == nil && !p.Cancel && p.Fail < 0 {
		// a complete traversal: the shared collectors hold every segment's node once and one path per expansion
		w.Emit(map[string]any{"e": "collected", "hid": hid, "n": p.N, "nodes": nodeCollector.Nodes.Len(), "paths": pathCollector.Paths.Len()})
	}
}

// related: is a an ancestor or a descendant of b (or equal)?
func related(p Plan, a, b int) bool {
	anc := func(x, y int) bool { // x ancestor-or-self of y
		for y >= 0 {
			if x == y {
				return true
			}
			if y == 0 {
				return false
			}
			y = p.Parents[y-1]
		}
		return false
	}
	return anc(a, b) || anc(b, a)
}

func (l *evlog) snapshot() []map[string]any {
	l.mu.Lock()
	defer l.mu.Unlock()
	return append([]map[string]any{}, l.evs...)
}

// Run replays every plan with several worker counts: free-running with seed-driven jitter inside the driver, and
// (mode gate) under the adversarial gate policies.
func Run(args []string) {
	fs := flag.NewFlagSet("trav run", flag.ExitOnError)
	in := fs.String("in", "plans.ndjson", "")
	outp := fs.String("out", "trace.ndjson", "")
	mode := fs.String("mode", "free", "free|gate")
	seed := fs.Int64("seed", 1, "")
	reps := fs.Int("reps", 1, "free mode: repetitions per plan and worker count")
	maxw := fs.Int("workers", 4, "")
	fs.Parse(args)
	plans := tr.ReadLines[Plan](*in)
	rng := rand.New(rand.NewSource(*seed))
	w := tr.Create(*outp)
	hid := 0
	for pi, p := range plans {
		if *mode == "gate" {
			if p.Cancel {
				continue // cancellation timing is not gate controlled
			}
			workers := 2 + (pi+int(*seed))%2
			for policy := 0; policy < 5; policy++ {
				runPlan(w, hid, p, workers, "gate", policy, false, rng)
				hid++
			}
			continue
		}
		for workers := 1; workers <= *maxw; workers++ {
			for r := 0; r < *reps; r++ {
				runPlan(w, hid, p, workers, "free", -1, false, rng)
				hid++
			}
		}
		if !p.Cancel && p.Fail < 0 && pi%3 == 0 {
			runPlan(w, hid, p, 1+pi%3, "free", -1, true, rng)
			hid++
		}
		if !p.Cancel && p.Fail > 0 && p.N >= 3 {
			runPlan(w, hid, p, 2+pi%2, "block", -1, false, rng)
			hid++
		}
	}
	w.Close()
	fmt.Printf("{\"plans\":%d,\"runs\":%d,\"events\":%d}\n", len(plans), hid, w.N)
}

// Pipe drives channels.BufferedPipe directly: eager reader, reader that only shows up after the writer is done,
// cancellation with unread values.
func Pipe(args []string) {
	fs := flag.NewFlagSet("trav pipe", flag.ExitOnError)
	outp := fs.String("out", "trace.ndjson", "")
	seed := fs.Int64("seed", 1, "")
	n := fs.Int("n", 200, "scenarios")
	fs.Parse(args)
	rng := rand.New(rand.NewSource(*seed))
	w := tr.Create(*outp)
	for hid := 0; hid < *n; hid++ {
		nv := rng.Intn(7)
		reader := []string{"eager", "late", "cancel", "slow"}[hid%4]
		log := &evlog{}
		ctx, cancel := context.WithCancel(context.Background())
		wc, rc := channels.BufferedPipe[int](ctx)
		allSent := make(chan struct{})
		go func() {
			for v := 1; v <= nv; v++ {
				log.add(map[string]any{"e": "psend", "hid": hid, "v": v}) // invocation: the value cannot be received before this
				select {
				case wc <- v:
				case <-ctx.Done():
					return
				}
			}
			close(allSent)
		}()
		sentOK := true
		read := func() {
			for v := range rc {
				log.add(map[string]any{"e": "precv", "hid": hid, "v": v})
				if reader == "slow" {
					time.Sleep(50 * time.Microsecond)
				}
			}
			log.add(map[string]any{"e": "prclosed", "hid": hid})
		}
		switch reader {
		case "eager", "slow":
			rd := make(chan struct{})
			go func() { read(); close(rd) }()
			select {
			case <-allSent:
			case <-time.After(5 * time.Second):
				sentOK = false
			}
			log.add(map[string]any{"e": "pclose", "hid": hid})
			close(wc)
			select {
			case <-rd:
			case <-time.After(5 * time.Second):
				sentOK = false
			}
		case "late": // nobody reads until the writer has submitted everything: the writer must not block
			select {
			case <-allSent:
			case <-time.After(5 * time.Second):
				sentOK = false
			}
			log.add(map[string]any{"e": "pclose", "hid": hid})
			close(wc)
			read()
		case "cancel":
			select {
			case <-allSent:
			case <-time.After(5 * time.Second):
				sentOK = false
			}
			log.add(map[string]any{"e": "pcancel", "hid": hid})
			cancel()
			read()
		}
		cancel()
		w.Emit(map[string]any{"e": "pipe", "hid": hid, "n": nv, "reader": reader})
		for _, e := range log.snapshot() {
			w.Emit(e)
		}
		w.Emit(map[string]any{"e": "pdone", "hid": hid, "allsent": sentOK})
	}
	w.Close()
	fmt.Printf("{\"scenarios\":%d,\"events\":%d}\n", *n, w.N)
}

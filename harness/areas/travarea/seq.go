package travarea

import (
	"flag"
	"fmt"
	"sort"
	"strings"

	"dawgsverif/internal/tr"

	"github.com/specterops/dawgs/cypher/models/cypher"
	"github.com/specterops/dawgs/cypher/models/walk"
	"github.com/specterops/dawgs/graph"
	"github.com/specterops/dawgs/ops"
	"github.com/specterops/dawgs/query"
	"github.com/specterops/dawgs/util/size"
)

// seqTx is the part of graph.Transaction the sequential traversal helpers of package ops use: Relationships() with a
// criteria filter and FetchDirection, over an in-memory edge list.  Every other method panics (nil embedded interface).
type seqTx struct {
	graph.Transaction
	nodes map[graph.ID]*graph.Node
	rels  []*graph.Relationship // ascending id
	calls int
}

func (s *seqTx) GraphQueryMemoryLimit() size.Size { return 0 }

func (s *seqTx) Relationships() graph.RelationshipQuery { return &seqRelQuery{tx: s} }

type seqRelQuery struct {
	graph.RelationshipQuery
	tx      *seqTx
	crit    []graph.Criteria
	ordered bool
}

func (q *seqRelQuery) Filter(c graph.Criteria) graph.RelationshipQuery {
	q.crit = append(q.crit, c)
	return q
}

func (q *seqRelQuery) Filterf(p graph.CriteriaProvider) graph.RelationshipQuery {
	q.crit = append(q.crit, p())
	return q
}

func (q *seqRelQuery) OrderBy(...graph.Criteria) graph.RelationshipQuery {
	q.ordered = true
	return q
}

type seqCursor struct{ ch chan graph.DirectionalResult }

func (c *seqCursor) Error() error                       { return nil }
func (c *seqCursor) Close()                             {}
func (c *seqCursor) Chan() chan graph.DirectionalResult { return c.ch }

// what the criteria ask for: id(s) in [...] / id(e) in [...] and relationship kinds
type seqFilter struct {
	startIDs, endIDs map[graph.ID]bool
	kinds            graph.Kinds
	unknown          []string
}

func readCriteria(crit []graph.Criteria) seqFilter {
	var f seqFilter
	for _, c := range crit {
		node, ok := c.(cypher.SyntaxNode)
		if !ok {
			f.unknown = append(f.unknown, fmt.Sprintf("%T", c))
			continue
		}
		_ = walk.Cypher(node, walk.NewSimpleVisitor[cypher.SyntaxNode](func(n cypher.SyntaxNode, _ walk.VisitorHandler) {
			switch t := n.(type) {
			case *cypher.Comparison:
				fn, isFn := t.Left.(*cypher.FunctionInvocation)
				if !isFn || strings.ToLower(fn.Name) != "id" || len(fn.Arguments) != 1 || len(t.Partials) != 1 {
					f.unknown = append(f.unknown, "comparison")
					return
				}
				v, isVar := fn.Arguments[0].(*cypher.Variable)
				p, isParam := t.Partials[0].Right.(*cypher.Parameter)
				if !isVar || !isParam || t.Partials[0].Operator != cypher.OperatorIn {
					f.unknown = append(f.unknown, "comparison operands")
					return
				}
				ids, isIDs := p.Value.([]graph.ID)
				if !isIDs {
					f.unknown = append(f.unknown, fmt.Sprintf("parameter %T", p.Value))
					return
				}
				set := map[graph.ID]bool{}
				for _, id := range ids {
					set[id] = true
				}
				switch v.Symbol {
				case query.EdgeStartSymbol:
					f.startIDs = set
				case query.EdgeEndSymbol:
					f.endIDs = set
				default:
					f.unknown = append(f.unknown, "id of "+v.Symbol)
				}
			case *cypher.KindMatcher:
				f.kinds = append(f.kinds, t.Kinds...)
			}
		}))
	}
	return f
}

func (q *seqRelQuery) FetchDirection(direction graph.Direction, delegate func(cursor graph.Cursor[graph.DirectionalResult]) error) error {
	q.tx.calls++
	f := readCriteria(q.crit)
	if len(f.unknown) > 0 {
		return fmt.Errorf("seqTx: criteria this fake does not understand: %v", f.unknown)
	}
	var out []graph.DirectionalResult
	for _, r := range q.tx.rels {
		if f.startIDs != nil && !f.startIDs[r.StartID] || f.endIDs != nil && !f.endIDs[r.EndID] {
			continue
		}
		if len(f.kinds) > 0 && !f.kinds.ContainsOneOf(r.Kind) {
			continue
		}
		n := q.tx.nodes[r.EndID]
		if direction == graph.DirectionOutbound {
			n = q.tx.nodes[r.StartID]
		}
		out = append(out, graph.NewDirectionalResult(direction, r, n))
	}
	if !q.ordered {
		// no ORDER BY: the database may answer in any order; hand the rows back reversed
		for i, j := 0, len(out)-1; i < j; i, j = i+1, j-1 {
			out[i], out[j] = out[j], out[i]
		}
	}
	ch := make(chan graph.DirectionalResult, len(out))
	for _, r := range out {
		ch <- r
	}
	close(ch)
	return delegate(&seqCursor{ch: ch})
}

// Seq runs the sequential traversal helpers of package ops (TraversePaths, TraverseIntermediaryPaths,
// AcyclicTraverseNodes, AcyclicTraverseTerminals; both directions; a branch query on the relationship kind; skip/limit)
// from every node of every graph and records what they return in terms of the effective edge list: the edges the plan
// admits, oriented the way the traversal walks them, numbered from 1.
func Seq(args []string) {
	fs := flag.NewFlagSet("trav seq", flag.ExitOnError)
	in := fs.String("in", "graphs.ndjson", "")
	outp := fs.String("out", "trace.ndjson", "")
	stride := fs.Int("stride", 1, "")
	fs.Parse(args)
	w := tr.Create(*outp)
	hid := 0
	kindA, kindB := graph.StringKind("A"), graph.StringKind("B")
	for gi, g := range tr.ReadLines[FGraph](*in) {
		if gi%*stride != 0 {
			continue
		}
		for _, dir := range []string{"out", "in"} {
			for _, branch := range []bool{false, true} {
				tx := &seqTx{nodes: map[graph.ID]*graph.Node{}}
				for i := 1; i <= g.N; i++ {
					tx.nodes[graph.ID(i)] = graph.NewNode(graph.ID(i), graph.NewProperties())
				}
				// edge i has kind A, except every third edge (kind B) when the plan carries a branch query on kind A
				eff := []map[string]int{}
				effIdx := map[graph.ID]int{}
				for i, e := range g.Edges {
					k := kindA
					if i%3 == 2 {
						k = kindB
					}
					id := graph.ID(100 + i)
					tx.rels = append(tx.rels, graph.NewRelationship(id, graph.ID(e["s"]), graph.ID(e["t"]), graph.NewProperties(), k))
					if branch && k != kindA {
						continue
					}
					s, t := e["s"], e["t"]
					if dir == "in" {
						s, t = t, s
					}
					eff = append(eff, map[string]int{"s": s, "t": t})
					effIdx[id] = len(eff)
				}
				pathOf := func(p graph.Path) []int {
					out := []int{}
					for _, r := range p.Edges {
						out = append(out, effIdx[r.ID])
					}
					return out
				}
				plan := func(root int) ops.TraversalPlan {
					pl := ops.TraversalPlan{Root: tx.nodes[graph.ID(root)], Direction: graph.DirectionOutbound}
					if dir == "in" {
						pl.Direction = graph.DirectionInbound
					}
					if branch {
						pl.BranchQuery = func() graph.Criteria { return query.KindIn(query.Relationship(), kindA) }
					}
					return pl
				}
				for root := 1; root <= g.N; root++ {
					emit := func(helper string, skip, limit int, f func(m map[string]any) error) {
						m := map[string]any{"e": "seq", "hid": hid, "helper": helper, "n": g.N, "g": g, "edges": eff, "root": root, "dir": dir, "branch": branch,
							"skip": skip, "limit": limit, "paths": [][]int{}, "nodes": []int{}, "err": false, "panic": false, "note": ""}
						func() {
							defer func() {
								if r := recover(); r != nil {
									m["panic"], m["note"] = true, fmt.Sprint(r)
								}
							}()
							if err := f(m); err != nil {
								m["err"], m["note"] = true, err.Error()
							}
						}()
						w.Emit(m)
					}
					pathsOf := func(ps graph.PathSet) [][]int {
						out := [][]int{}
						for _, p := range ps {
							out = append(out, pathOf(p))
						}
						return out
					}
					nodesOf := func(ns graph.NodeSet) []int {
						out := []int{}
						for id := range ns {
							out = append(out, int(id))
						}
						sort.Ints(out)
						return out
					}
					for _, sl := range [][2]int{{0, 0}, {0, 1}, {1, 0}, {1, 2}} {
						pl := plan(root)
						pl.Skip, pl.Limit = sl[0], sl[1]
						emit("TraversePaths", sl[0], sl[1], func(m map[string]any) error {
							ps, err := ops.TraversePaths(tx, pl)
							m["paths"] = pathsOf(ps)
							return err
						})
					}
					emit("TraverseIntermediaryPaths", 0, 0, func(m map[string]any) error {
						pl := plan(root)
						pl.DescentFilter = func(_ *ops.TraversalContext, segment *graph.PathSegment) bool { return !segment.IsCycle() }
						ps, err := ops.TraverseIntermediaryPaths(tx, pl, func(*graph.Node) bool { return true })
						m["paths"] = pathsOf(ps)
						return err
					})
					emit("AcyclicTraverseNodes", 0, 0, func(m map[string]any) error {
						ns, err := ops.AcyclicTraverseNodes(tx, plan(root), nil)
						m["nodes"] = nodesOf(ns)
						return err
					})
					emit("AcyclicTraverseTerminals", 0, 0, func(m map[string]any) error {
						ns, err := ops.AcyclicTraverseTerminals(tx, plan(root))
						m["nodes"] = nodesOf(ns)
						return err
					})
					hid++
				}
			}
		}
	}
	w.Close()
	fmt.Printf("{\"events\":%d}\n", w.N)
}

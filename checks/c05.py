"""C05 — translation is a total, deterministic, side-effect-free function.  DESIGN.md 4/C06+C05 (exploration level)."""
import json, os, re
from lib.vcheck import ToolFailure, validate_histories

AREA = "Translate"


def classify(ev):
    t = ev["text"].lower()
    if ev["panic"]:
        where = "quantifier-outside-pattern" if any(q in t for q in ("all(", "any(", "none(", "single(")) and ("nil pointer" in ev["panicmsg"]) else \
                "nil-parameter" if "Parameter" in ev["panicmsg"] else ev["panicmsg"].split(":")[0][:40].replace(" ", "-")
        return "panic/%s" % where
    for f, name in (("deterministic", "not-deterministic"), ("concurrent_same", "differs-under-concurrency"), ("model_unchanged", "caller-model-modified"), ("params_unchanged", "caller-parameters-modified")):
        if not ev[f]:
            return "%s/%s/params-%s" % (name, ev["class"].split(":")[0], ev["params"])
    return "time-budget-exceeded/%s" % ev["class"].split(":")[0]


def run(ctx):
    ctx.assumptions += ["TLC 1.8.0 + CommunityModules (the spec is a per-call history monitor: same input => same output, input unchanged, no panic, within budget)",
                        "inputs: every accepted text of the corpora and of the harness's input classes (incl. shapes the translator rejects), six models assembled with the package query "
                        "builder, twelve parameter-heavy texts; parameter maps: plain, nil map, nil values, odd value types, extra keys",
                        "each input is translated twice in sequence and from 8 goroutines sharing one kind mapper, under the race detector; goroutine interleavings are sampled, not enumerated",
                        "time budget 5 s per call"]
    trace = os.path.join(ctx.work, "total.ndjson")
    args = ["trans", "total", "--out", trace, "--workers", "8" if ctx.tier == "quick" else "16"]
    ctx.grammar_corpus(stride=48 if ctx.tier == "quick" else 4, skstride=6 if ctx.tier == "quick" else 1)
    p = ctx.vh(args, race=True, check=False, timeout=3000)
    race = "DATA RACE" in p.stdout
    if p.returncode not in (0, 66) or (p.returncode == 66 and not race):
        raise ToolFailure("vh trans total failed: %s" % p.stdout[-2000:])
    if race:
        m = re.search(r"WARNING: DATA RACE(.*?)={10,}", p.stdout, re.S)
        txt = m.group(1) if m else p.stdout[:3000]
        frames = re.findall(r"github.com/specterops/dawgs/([\w/]+)\.", txt)
        if frames:   # a race inside the repository's code (the race detector has no false positives): concurrent calls share mutable state
            ctx.report("data-race/%s" % frames[0], "race detector, concurrent Translate calls sharing one kind mapper: " + txt[:1500], {"args": args})
        else:
            raise ToolFailure("race outside the repository's packages (harness bug?):\n" + txt[:2000])
        if not os.path.exists(trace):
            return
    n_ok, rejected = validate_histories(ctx, AREA, "TransTrace", trace, chunk_events=20000, max_cand=60, parallel=4)
    ctx.cov["traces_validated_against_impl"] += n_ok
    ctx.cov["evaluations"] += n_ok + len(rejected)
    ok = errs = 0
    variants = {}
    for ln in open(trace):
        e = json.loads(ln)
        ok += e["ok"]
        errs += (not e["ok"])
        variants[e["params"]] = variants.get(e["params"], 0) + 1
    ctx.cov["translated"], ctx.cov["rejected_with_error"], ctx.cov["parameter_variants"] = ok, errs, variants
    ctx.cov["distinct_nontrivial"] = ok
    ctx.cov["samples"] += [json.loads(x) for x in open(trace).read().splitlines()[50:52]]
    ctx.cov["rule"] = ("each record = one (query model, parameter map) translated 2 + 8 times; it violates the monitor when any call panicked, two calls disagreed (SQL text, parameters, "
                       "error), the caller's model or parameter map changed, or a call exceeded the budget; the race detector aborts the harness on a data race (reported as tool failure "
                       "with the race report, then investigated).  non-trivial = inputs that translate")
    seen = set()
    for hid, ev, events, pos in rejected:
        key = classify(ev)
        if key in seen:
            continue
        seen.add(key)
        ctx.report(key, "Translate(%r, params=%s): ok=%s err=%r panic=%r deterministic=%s same under concurrency=%s model unchanged=%s parameters unchanged=%s worst ms=%s" % (
            ev["text"][:160], ev["params"], ev["ok"], ev["err"][:120], ev["panicmsg"][:160] if ev["panic"] else False, ev["deterministic"], ev["concurrent_same"], ev["model_unchanged"],
            ev["params_unchanged"], ev["ms"]), {"text": ev["text"], "params": ev["params"]})


def selftest(ctx):
    t = os.path.join(ctx.work, "t.ndjson")
    ctx.vh(["trans", "total", "--out", t, "--limit", "30"])
    ok, _, _ = ctx.validate_trace(AREA, "TransTrace", t)
    lines = open(t).read().splitlines()
    e = json.loads(lines[5]); e["model_unchanged"] = False; lines[5] = json.dumps(e)
    open(t, "w").write("\n".join(lines) + "\n")
    ok2, stuck, _ = ctx.validate_trace(AREA, "TransTrace", t)
    print("selftest C05: clean accepted=%s corrupted accepted=%s stuck=%s" % (ok, ok2, stuck))
    return 0 if ok and not ok2 else 1

"""C18 — dump followed by load reproduces the graph.  DESIGN.md 4/C18."""
import json, os, random
from lib.vcheck import ToolFailure, validate_histories, write_ndjson
from checks.c19 import cfggen_cfg, CODECS

AREA = "Retriever"


def classify(events, pos):
    ev = events[pos]
    if ev["e"] == "dumped":
        return "dump/%s" % ("failed" if not ev["ok"] else "manifest-or-metrics-do-not-describe-files")
    if ev["e"] == "loaded":
        if not ev["ok"]:
            return "load/failed-on-own-dump"
        for g in ev["graphs"]:
            if sorted(g["src_nodes"]) != sorted(g["dst_nodes"]):
                # which aspect differs for the first differing node
                s, d = set(g["src_nodes"]), set(g["dst_nodes"])
                a, b = sorted(s - d), sorted(d - s)
                if a and b and a[0].split("|")[0] == b[0].split("|")[0]:
                    fa, fb = a[0].split("|", 2), b[0].split("|", 2)
                    if fa[1] != fb[1]:
                        return "load/node-kinds-differ"
                    if "filetime" in fa[2]:
                        return "load/property-value/integer-beyond-2^53"
                    return "load/node-property-values-differ"
                return "load/node-set-differs"
            if sorted(g["src_edges"]) != sorted(g["dst_edges"]):
                return "load/edges-differ"
        return "load/write-count"
    if ev["e"] == "verify":
        return "verify/%s/%s" % (ev["mutation"], "accepted" if ev["ok"] else "rejected")
    return ev["e"]


def batch(ctx, cfgs, tag, extra):
    cfgp = os.path.join(ctx.work, "cfgs-%s.ndjson" % tag)
    write_ndjson(cfgp, cfgs)
    trace = os.path.join(ctx.work, "rt-%s.ndjson" % tag)
    ctx.vh(["dump", "roundtrip", "--in", cfgp, "--out", trace] + extra, timeout=2400)
    n_ok, rejected = validate_histories(ctx, AREA, "LoadTrace", trace, chunk_events=4000, max_cand=10, parallel=8)
    ctx.cov["traces_validated_against_impl"] += n_ok
    ctx.cov["evaluations"] += n_ok + len(rejected)
    for hid, ev, events, pos in rejected:
        one = os.path.join(ctx.work, "one-cfg.ndjson")
        write_ndjson(one, [events[0]["cfg"]])
        t1 = os.path.join(ctx.work, "one-rt.ndjson")
        ctx.vh(["dump", "roundtrip", "--in", one, "--out", t1] + extra)
        ok, _, _ = ctx.validate_trace(AREA, "LoadTrace", t1)
        if ok:
            raise ToolFailure("UNREPRODUCED candidate %s" % json.dumps(events[0]["cfg"]))
        short = {k: v for k, v in ev.items() if k not in ("hid", "dir")}
        ctx.report(classify(events, pos), "cfg=%s: %s event contradicts the statement: %s" % (
            json.dumps(events[0]["cfg"]), ev["e"], json.dumps(short)[:900]), {"cfg": events[0]["cfg"], "extra": extra})
    return trace


def run(ctx):
    quick = ctx.tier == "quick"
    ctx.assumptions += ["TLC 1.8.0 + CommunityModules", "source and target are the in-memory fake database (keyset Fetch, Count, bulk CreateNodes "
                        "with order-correlated ids, CreateRelationshipByIDs, AssertSchema)", "entities carry a unique marker property, through which "
                        "the harness states the node correspondence; property maps compared as canonical JSON",
                        "value-level fidelity is explored over a fixed catalogue (nested lists/maps, unicode, floats, large ints), not model-checked"]
    if ctx.replay:
        rep = json.load(open(ctx.replay))["replay"]
        batch(ctx, [rep["cfg"]], "replay", rep.get("extra", []))
        return
    # 1. the structural machine, every configuration in the bound
    r = ctx.tlc_check(AREA, "DumpLoad", workers=12, timeout=1500)
    if not r.clean:
        raise ToolFailure("DumpLoad M-spec failed:\n" + r.out[-2500:])
    # 2. configurations
    rng = random.Random(ctx.seed)
    g = ctx.tlc(AREA, "DumpCfgGen", cfg_text=cfggen_cfg(2, 3, 2, 3), workers=4, timeout=600)
    allcfgs = ctx.printed_json(g.out)
    rng.shuffle(allcfgs)
    chosen = allcfgs[: (60 if quick else len(allcfgs))]
    for i, c in enumerate(chosen):
        c["codec"] = CODECS[(i + ctx.seed) % 3]
    # bigger graphs exercise the value catalogue and parallel edges
    for i, codec in enumerate(CODECS):
        chosen.append({"graphs": [{"name": "g0", "nodes": 8, "edges": 6}, {"name": "g1", "nodes": 5, "edges": 6}], "shard": 3, "batch": 2 + i, "codec": codec})
    ctx.cov["configurations_total"] = len(allcfgs)
    ctx.cov["configurations_explored"] = len(chosen)
    t = batch(ctx, chosen, "main", [])
    batch(ctx, chosen[-3:], "loadbatch1", ["--load-batch", "1"])
    batch(ctx, chosen[-3:], "big", ["--bigints"])
    # database ids start at 0 (a legal id), and dump targets named in an order that is not sorted by name
    two = [c for c in chosen if len(c["graphs"]) >= 2][:20] + chosen[-3:]
    batch(ctx, chosen[:30] + [dict(c, batch=1) for c in chosen[:10]] + chosen[-3:], "zeroids", ["--zero-ids"])
    batch(ctx, two, "reversed", ["--reverse-targets"])
    nt = 0
    sample = None
    for ln in open(t):
        e = json.loads(ln)
        if e["e"] == "loaded" and any(len(x["src_edges"]) >= 2 for x in e["graphs"]):
            nt += 1
            if sample is None:
                sample = {"loaded": {"graphs": [{"name": x["name"], "src_nodes": x["src_nodes"][:3], "dst_nodes": x["dst_nodes"][:3],
                                                  "src_edges": x["src_edges"][:2], "dst_edges": x["dst_edges"][:2]} for x in e["graphs"]]}}
    ctx.cov["distinct_nontrivial"] = nt
    if sample:
        ctx.cov["samples"].append(sample)
    ctx.cov["exhaustive"] = False
    ctx.cov["rule"] = ("DumpLoad.tla is checked for every configuration with <=3 nodes, <=2 relationships, shard/batch 1..3 and every corrupt "
                       "fragment position; on the real code %d of the %d TLC-enumerated configurations (all in thorough) plus three larger "
                       "ones run Dump -> Load -> Verify on the fake database with the value catalogue, once more with load batch size 1 and "
                       "once with integers beyond 2^53, once with database ids starting at 0 (and batch size 1), once with the dump targets named in reverse order; Verify is also run after adding a node, changing a kind and removing an edge.  "
                       "non-trivial = a graph with at least two relationships" % (len(chosen) - 3, len(allcfgs)))


def selftest(ctx):
    cfg = {"graphs": [{"name": "g0", "nodes": 3, "edges": 2}], "shard": 2, "batch": 2, "codec": "none"}
    write_ndjson(os.path.join(ctx.work, "c.ndjson"), [cfg])
    t = os.path.join(ctx.work, "t.ndjson")
    ctx.vh(["dump", "roundtrip", "--in", os.path.join(ctx.work, "c.ndjson"), "--out", t])
    ok, _, _ = ctx.validate_trace(AREA, "LoadTrace", t)
    lines = open(t).read().splitlines()
    for i, ln in enumerate(lines):
        e = json.loads(ln)
        if e["e"] == "loaded":
            e["graphs"][0]["dst_nodes"][0] = e["graphs"][0]["dst_nodes"][0].replace("K0", "KX")
            lines[i] = json.dumps(e)
    open(t, "w").write("\n".join(lines) + "\n")
    ok2, stuck, _ = ctx.validate_trace(AREA, "LoadTrace", t)
    print("selftest C18: clean accepted=%s corrupted accepted=%s stuck=%s" % (ok, ok2, stuck))
    return 0 if ok and not ok2 else 1

"""C14 — all directed-graph containers present the same graph.  DESIGN.md 4/C14."""
import json, os
from lib.vcheck import ToolFailure, validate_histories, write_ndjson

AREA = "Digraph"


def gen_cfg(nn, maxt, proj):
    return """SPECIFICATION GSpec
CONSTANTS
  NN = %d
  MaxT = %d
  Proj = %s
CHECK_DEADLOCK FALSE
""" % (nn, maxt, "TRUE" if proj else "FALSE")


def proj_graph(b):
    deln, dele = set(b["deln"]), set(b["dele"])
    T = [t for t in b["triples"] if t[0] not in dele and t[1] not in deln and t[2] not in deln]
    return T


def adj(T, n, d):
    out = {t[2] for t in T if t[1] == n}
    inn = {t[1] for t in T if t[2] == n}
    return out if d == "out" else inn if d == "in" else out | inn


def classify(events, pos):
    b, ev = events[0], events[pos]
    c = b["container"]
    if ev.get("panic"):
        return "%s/%s/panic" % (c, ev["e"])
    T = proj_graph(b)
    if ev["e"] == "adj":
        for r in ev["rows"]:
            if set(r[2]) != adj(T, r[0], r[1]) or set(r[3]) != adj(T, r[0], r[1]):
                shape = "self" if r[0] in r[2] and r[0] not in adj(T, r[0], r[1]) else "other"
                return "%s/adj/%s/%s" % (c, r[1], shape)
    if ev["e"] == "segs":
        for r in ev["rows"]:
            if r[1] != r[0]:
                return "%s/segs/marshal-roundtrip" % c
            if r[2] != r[0]:
                return "segs/SerializedSegment.ToSegment" + ("/panic" if r[2]["nodes"] == [-3] else "")
    if ev["e"] == "zone":
        if ev.get("readerr") or (ev.get("numpaths", 0) > 0 and not ev["read"]):
            return "zone/ReadEach/unreadable"
        if ev.get("nlbyte"):
            return "zone/ReadEach/id-with-newline-byte"
        return "zone/ReadEach/mangled"
    if ev["e"] in ("reach", "bfs", "walks"):
        for r in ev["rows"]:
            d = r[1] if ev["e"] != "walks" else r[2]
            if d == "both":
                return "%s/%s/both" % (c, ev["e"])
        return "%s/%s" % (c, ev["e"])
    return "%s/%s" % (c, ev["e"])


def batch(ctx, hist_path, tag, deep=False, layout=None, base=0):
    trace = os.path.join(ctx.work, "trace-%s.ndjson" % tag)
    args = ["digraph", "replay", "--in", hist_path, "--out", trace, "--seed", str(ctx.seed)]
    if deep:
        args.append("--deep")
    if layout is not None:
        args += ["--layout", str(layout)]
    if base:
        args += ["--base", str(base)]
    ctx.vh(args, timeout=1800)
    # Zone-file events of graphs whose ids contain a newline byte exhibit the recorded finding (known_findings.json).  They
    # are validated on their own (a bounded sample of them), so that their rejections do not cost re-validation of the
    # main trace, which is expected to be accepted as a whole.
    main, side, cur_build, n_side, skipped = [], [], None, 0, 0
    for ln in open(trace):
        if '"e":"build"' in ln:
            cur_build = ln
        if '"e":"zone"' in ln and '"nlbyte":true' in ln:
            if n_side < 6 and '"numpaths":0' not in ln:
                b = json.loads(cur_build)
                z = json.loads(ln)
                b["hid"] = z["hid"] = 10 ** 6 + n_side
                side += [json.dumps(b), json.dumps(z)]
                n_side += 1
            else:
                skipped += 1
            continue
        main.append(ln.rstrip("\n"))
    open(trace, "w").write("\n".join(main) + "\n")
    n_ok, rejected = validate_histories(ctx, AREA, "DigraphTrace", trace, chunk_events=40000, max_cand=40, parallel=8)
    if side:
        sp = trace + ".side"
        open(sp, "w").write("\n".join(side) + "\n")
        n2, rej2 = validate_histories(ctx, AREA, "DigraphTrace", sp, chunk_events=2, max_cand=1, parallel=6, quiet=True)
        n_ok += 0
        rejected += rej2
        ctx.cov["zone_newline_byte_events"] = ctx.cov.get("zone_newline_byte_events", 0) + n_side + skipped
    ctx.cov["traces_validated_against_impl"] += n_ok
    ctx.cov["evaluations"] += n_ok + len(rejected)
    nt, sample = 0, None
    for ln in open(trace):
        if '"e":"build"' not in ln:
            continue
        e = json.loads(ln)
        ts = e["triples"]
        pairs = [(t[1], t[2]) for t in ts]
        if any(a == b for a, b in pairs) or len(set(pairs)) < len(pairs) or any((b, a) in pairs for a, b in pairs if a != b) \
                or len(e["nodes"]) > len({x for p in pairs for x in p}) or e["deln"] or e["dele"]:
            nt += 1
            if sample is None and e["container"] == "ts" and len(ts) >= 2:
                sample = e
    ctx.cov["distinct_nontrivial"] += nt
    if sample and len(ctx.cov["samples"]) < 3:
        ctx.cov["samples"].append(sample)
    hists = open(hist_path).read().splitlines()
    for hid, ev, events, pos in rejected:
        hi = events[0]["hi"] - base
        one = os.path.join(ctx.work, "one.ndjson")
        open(one, "w").write(hists[hi] + "\n")
        t1 = os.path.join(ctx.work, "one-trace.ndjson")
        lay = events[0]["layout"]
        ctx.vh(["digraph", "replay", "--in", one, "--out", t1, "--seed", str(ctx.seed), "--layout", str(lay), "--base", str(hi + base)] + (["--deep"] if deep else []))
        ok, stuck, _ = ctx.validate_trace(AREA, "DigraphTrace", t1)
        if ok:
            raise ToolFailure("UNREPRODUCED candidate %s" % hists[hi])
        key = classify(events, pos)
        short = {k: v for k, v in ev.items() if k not in ("hid", "hi")}
        ctx.report(key, "%s (layout %s) graph nodes=%s triples=%s deln=%s dele=%s: %s event differs from the edge list: %s" % (
            events[0]["container"], lay, events[0]["nodes"], events[0]["triples"], events[0]["deln"], events[0]["dele"], ev["e"],
            json.dumps(short)[:700]), {"history": json.loads(hists[hi]), "layout": lay, "deep": deep, "base": hi + base})


def run(ctx):
    quick = ctx.tier == "quick"
    ctx.assumptions += ["TLC 1.8.0 + CommunityModules", "harness: abstract node/edge ids embedded into uint64 under four layouts (dense, "
                        "gapped/reversed, above 2^32, ids containing the byte 0x0A); observations logged as abstract ids",
                        "adjacency compared as sets (CSR reports a self loop twice under 'both')",
                        "TSBFS/TSDFS only with a positive depth bound and directions out/in"]
    if ctx.replay:
        rep = json.load(open(ctx.replay))["replay"]
        hp = os.path.join(ctx.work, "h.ndjson")
        open(hp, "w").write(json.dumps(rep["history"]) + "\n")
        batch(ctx, hp, "replay", deep=rep.get("deep", False), layout=rep.get("layout"), base=rep.get("base", 0))
        return
    plans = [(3, 3, False), (3, 2, True)] if quick else [(3, 3, False), (3, 3, True), (4, 4, False)]
    for i, (nn, maxt, proj) in enumerate(plans):
        r = ctx.tlc(AREA, "DigraphGen", cfg_text=gen_cfg(nn, maxt, proj), workers=8, timeout=1800)
        if not r.clean:
            raise ToolFailure("generator failed: " + r.out[-2000:])
        ctx.cov["states"] += r.distinct
        ctx.cov["transitions"] += r.generated
        hp = os.path.join(ctx.work, "hist-%d.ndjson" % i)
        write_ndjson(hp, ctx.printed_json(r.out))
        batch(ctx, hp, "p%d" % i, deep=not quick and nn <= 3)
        os.unlink(hp)
    # sampled larger graphs (5..7 nodes, 4..9 triples drawn uniformly; tlc -simulate of DigraphRandGen.tla): breadth-first levels with several nodes and
    # several discoveries per node do not exist on four nodes
    n_rand = 200 if quick else 2000
    r = ctx.tlc(AREA, "DigraphRandGen", cfg_text="SPECIFICATION GSpec\nCONSTANTS\n  NMin = 5\n  NMax = 7\n  MMin = 4\n  MMax = 9\nCHECK_DEADLOCK FALSE\n", workers=1,
                simulate="num=%d" % n_rand, depth=14, timeout=1800)
    hs = ctx.printed_json(r.out)
    if len(hs) < n_rand // 2:
        raise ToolFailure("sampling generator printed %d graphs:\n%s" % (len(hs), r.out[-1500:]))
    hp = os.path.join(ctx.work, "hist-rand.ndjson")
    write_ndjson(hp, hs)
    batch(ctx, hp, "rand", deep=False)
    os.unlink(hp)
    ctx.cov["sampled_larger_graphs"] = len(hs)
    ctx.cov["exhaustive"] = True
    ctx.cov["rule"] = ("TLC enumerates every directed multigraph with (node ids, triples, all deletion projections) = %s: isolated nodes, self "
                       "loops, parallel and antiparallel edges; each is built into the adjacency-map graph, the CSR graph, the triple store, "
                       "its projection and a nested projection, and node set, adjacency in three directions, Reach, BFSTree, Normalize, "
                       "EachEdge/EachAdjacentEdge, TSBFS/TSDFS walks, segment round trips and the zone BFS tree file are compared with the "
                       "Digraph.tla operators.  states/transitions = the generator's state graph.  non-trivial = self loop, parallel or "
                       "antiparallel edges, an isolated node or a non-empty deletion set; plus %d sampled multigraphs on 5..7 nodes with 4..9 uniformly drawn triples" % (plans, n_rand))


def selftest(ctx):
    hp = os.path.join(ctx.work, "h.ndjson")
    open(hp, "w").write(json.dumps({"extra": [2], "triples": [[0, 1], [1, 0]], "deln": [], "dele": []}) + "\n")
    t = os.path.join(ctx.work, "t.ndjson")
    ctx.vh(["digraph", "replay", "--in", hp, "--out", t, "--layout", "0"])
    ok, _, _ = ctx.validate_trace(AREA, "DigraphTrace", t)
    lines = open(t).read().splitlines()
    e = json.loads(lines[2]); e["rows"][0][2] = []; lines[2] = json.dumps(e)
    open(t, "w").write("\n".join(lines) + "\n")
    ok2, stuck, _ = ctx.validate_trace(AREA, "DigraphTrace", t)
    print("selftest C14: clean accepted=%s corrupted accepted=%s stuck=%s" % (ok, ok2, stuck))
    return 0 if ok and not ok2 else 1

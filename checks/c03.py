"""C03 — emitted SQL is closed: every name, column and parameter it uses is defined.  DESIGN.md 4/C03."""
import json, os, re
from lib.vcheck import ToolFailure, validate_histories

AREA = "Sql"

CLAUSES = ("optional match", "match", "unwind", "with", "create", "merge", "set", "detach delete", "delete", "remove", "return")


def skeleton(text):
    t = re.sub(r"'(?:[^'\\]|\\.)*'|\"(?:[^\"\\]|\\.)*\"|`[^`]*`", "''", text.lower())
    out = []
    for m in re.finditer(r"\b(optional\s+match|match|unwind|with|create|merge|set|detach\s+delete|delete|remove|return)\b", t):
        w = re.sub(r"\s+", " ", m.group(1))
        if w == "with" and t[max(0, m.start() - 7):m.start()].strip().endswith(("starts", "ends")):
            continue
        out.append(w)
    return out


def classify(ev, events, pos):
    stmt = events[0]
    sk = skeleton(stmt["text"])
    low = re.sub(r"'(?:[^'\\]|\\.)*'|\"(?:[^\"\\]|\\.)*\"", "''", stmt["text"].lower())
    # what the query is made of: the finding is named after the features that meet in it
    feats = []
    if "with" in sk:
        feats.append("multi-part")
    for c in ("create", "merge", "set", "delete", "remove"):
        if c in sk or (c == "delete" and "detach delete" in sk):
            feats.append(c)
    if "unwind" in sk:
        feats.append("unwind")
    if "optional match" in sk:
        feats.append("optional-match")
    if re.search(r"\[[^\]]*\*", low):
        feats.append("variable-length")
    if re.search(r"\b\w+\s*=\s*\(", low) and re.search(r"match\s+\w+\s*=\s*\(", low):
        feats.append("path-variable")
    if re.search(r"where\b[^;]*?(?:not\s+)?\(\w*(?::\w+)?(?:\s*\{[^}]*\})?\)\s*(?:<-|-)\s*\[", low):
        feats.append("pattern-predicate")
    # a relationship pattern used as a value (in a projection, an ORDER BY or an UNWIND) and path functions
    for m in re.finditer(r"\b(return|with|unwind|order\s+by)\b(.*?)(?=\b(?:optional\s+match|match|unwind|with|create|merge|set|detach\s+delete|delete|remove|return|order\s+by|where)\b|$)", low):
        if re.search(r"\(\s*\w*\s*\)\s*(?:<-|-)\s*(?:\[|-)", m.group(2)):
            feats.append("pattern-as-value")
            break
    if re.search(r"\b(nodes|relationships|length)\s*\(\s*\(*\s*p\b", low):
        feats.append("path-function")
    if re.search(r"\bunwind\s+\(*\s*id\s*\(", low):
        feats.append("unwind-of-id")
    if re.search(r"\b(starts\s+with|ends\s+with|contains)\s+\(*\s*id\s*\(", low):
        feats.append("string-operator-on-id")
    if re.search(r"\*[^\]]*\]\s*-\s*>?\s*\(\s*\w*(?::\w+)*\s*\)\s*<?\s*-\s*\[", low):
        feats.append("expansion-then-step")
    if re.search(r"\{[^}]*\b(any|all|none|single)\s*\(", low):
        feats.append("quantifier-in-inline-map")
    if re.search(r"\b(?!id\b)[a-z]\w*\s*\(\s*(?:distinct\s+)?\(*\s*id\s*\(", low):
        feats.append("id-as-function-argument")
    # a projection item that is a conjunction / disjunction (the translator splits it into an item and a filter)
    for m in re.finditer(r"\b(return|with)\b(.*?)(?=\b(?:optional\s+match|match|unwind|with|create|merge|set|detach\s+delete|delete|remove|return|order\s+by|where)\b|$)", low):
        if re.search(r"\b(and|or|xor)\b", m.group(2)) and not re.search(r"\bwhere\b", m.group(2)):
            feats.append("boolean-projection")
            break
    dml = []
    for e in events[1:pos]:
        if e["e"] == "dml_push":
            dml.append(e["kind"])
        elif e["e"] == "dml_pop" and dml:
            dml.pop()
    shape = "in-%s/%s" % (dml[-1] if dml else "select", "+".join(feats) or "plain")
    defined = [e["name"] for e in events if e["e"] == "cte_begin"]
    open_ctes = []
    for e in events[1:pos]:
        if e["e"] == "cte_begin":
            open_ctes.append(e["name"])
        elif e["e"] == "cte_end" and open_ctes:
            open_ctes.pop()

    def where(name):
        if name in open_ctes:
            return "its-own-definition"
        if name in defined:
            return "a-cte-defined-later-or-out-of-scope"
        if any(e["e"] in ("from_end", "from_table") and (e.get("alias") or (e.get("name") or [""])[0]) == name for e in events[pos:]):
            return "a-from-item-that-appears-later"
        return "never-defined"

    def family(name):
        """what kind of generated name it is: n (node), e (edge), s (frame), i (unwind / projection), pc (path composite), ..."""
        m = re.fullmatch(r"([a-z_]+?)\d+(_\w+)?", name)
        return m.group(1) if m else "user"

    if ev["e"] == "from_table":
        return "from-names-unknown-table-or-cte/%s/%s" % (where(ev["name"][0]), shape)
    if ev["e"] == "ref":
        if len(ev["parts"]) == 2:
            q = ev["parts"][0]
            visible = any(e["e"] in ("from_table", "from_end", "dml_push") and (e.get("alias") or (e.get("name") or [""])[0]) == q for e in events[1:pos])
            return "%s:%s/%s/%s" % ("column-not-provided-or-item-hidden" if visible else "qualifier-not-in-scope", family(q), where(q), shape)
        return "bare-name-unresolved:%s/%s/%s" % (family(ev["parts"][0]), where(ev["parts"][0]), shape)
    if ev["e"] == "cte_end":
        return "cte-column-list-arity/%s" % shape
    if ev["e"] == "param":
        return "parameter-without-value/%s" % shape
    if ev["e"] == "stmt_end":
        return "data-modifying-statement-for-a-read-query/%s" % shape
    if ev["e"] in ("dml_push", "target_col"):
        return "dml-target/%s/%s" % (ev["e"], shape)
    return "%s/%s" % (ev["e"], shape)


def run(ctx):
    quick = ctx.tier == "quick"
    ctx.assumptions += ["TLC 1.8.0 + CommunityModules", "the harness linearises the pgsql syntax tree the translator returns (Result.Statement), not the SQL text; SQL kept as text inside the tree "
                        "(formatting literals, the text arguments of the traversal harness functions) is opaque",
                        "schema objects: node, edge, kind, graph with the columns of drivers/pg/query/sql/schema_up.sql; composite fields id, kind_ids, properties, start_id, end_id, kind_id, nodes, edges",
                        "bare (unqualified) names are resolved leniently; the column lists of function calls in FROM and of SELECT * are unknown and accept any column",
                        "queries: every accepted text of the corpora and of the harness's input classes that translates"]
    trace = os.path.join(ctx.work, "scope.ndjson")
    ctx.grammar_corpus(stride=4 if quick else 1)
    ctx.vh(["scope", "run", "--out", trace], timeout=3000)
    n_ok, rejected = validate_histories(ctx, AREA, "SqlScope", trace, chunk_events=4000, max_cand=400, parallel=12, timeout=1800)
    ctx.cov["traces_validated_against_impl"] += n_ok
    ctx.cov["evaluations"] += n_ok + len(rejected)
    kinds, nontrivial = {}, 0
    sample, cur = None, None
    for ln in open(trace):
        e = json.loads(ln)
        kinds[e["e"]] = kinds.get(e["e"], 0) + 1
        if e["e"] == "stmt":
            cur = [e]
        elif cur is not None:
            cur.append(e)
            if e["e"] == "stmt_end":
                if sum(1 for x in cur if x["e"] == "cte_begin") >= 2:
                    nontrivial += 1
                    if sample is None and 25 < len(cur) < 45:
                        sample = [{k: v for k, v in x.items() if k not in ("hid", "sql")} for x in cur]
                cur = None
    ctx.cov["programs"] = kinds.get("stmt", 0)                      # translated statements validated
    ctx.cov["disagreements_checked"] = len(rejected)                # statements the resolver rejected, each classified (all known findings on the unchanged tree)
    ctx.cov["events_by_kind"] = kinds
    ctx.cov["distinct_nontrivial"] = nontrivial
    if sample:
        ctx.cov["samples"].append(sample)
    ctx.cov["exhaustive"] = False
    ctx.cov["rule"] = ("one history per translated statement; every reference, FROM item, CTE, parameter and DML node of the statement's syntax tree is an event that the resolver in "
                       "SqlScope.tla must accept.  non-trivial = statements with at least two common table expressions")
    seen = set()
    if os.environ.get("C03_DUMP"):      # development aid: every rejected statement with its class
        with open(os.environ["C03_DUMP"], "w") as f:
            for hid, ev, events, pos in rejected:
                f.write(json.dumps({"key": classify(ev, events, pos), "text": events[0]["text"], "ev": ev}) + "\n")
    for hid, ev, events, pos in rejected:
        key = classify(ev, events, pos)
        if key in seen:
            continue
        seen.add(key)
        ctx.report(key, "%r: %s is not resolvable at that point of the emitted statement (after %s); SQL: %s" % (
            events[0]["text"][:200], json.dumps({k: v for k, v in ev.items() if k != "hid"}), json.dumps([{k: v for k, v in e.items() if k != "hid"} for e in events[max(1, pos - 3):pos]]),
            events[0]["sql"][:900]), {"text": events[0]["text"]})


def selftest(ctx):
    t = os.path.join(ctx.work, "t.ndjson")
    ctx.vh(["scope", "run", "--out", t, "--limit", "60"])
    # keep the statements the resolver accepts (some of the first 60 are known findings), then break one reference
    n_ok, rejected = validate_histories(ctx, AREA, "SqlScope", t, chunk_events=100000, max_cand=30, parallel=1)
    bad = {hid for hid, _, _, _ in rejected}
    lines = [ln for ln in open(t).read().splitlines() if json.loads(ln)["hid"] not in bad]
    open(t, "w").write("\n".join(lines) + "\n")
    ok, _, _ = ctx.validate_trace(AREA, "SqlScope", t)
    i = next(i for i, ln in enumerate(lines) if '"e":"ref"' in ln and '"s0"' in ln)
    e = json.loads(lines[i]); e["parts"][0] = "s9"; lines[i] = json.dumps(e)
    open(t, "w").write("\n".join(lines) + "\n")
    ok2, stuck, _ = ctx.validate_trace(AREA, "SqlScope", t)
    print("selftest C03: clean accepted=%s corrupted accepted=%s stuck=%s" % (ok, ok2, stuck))
    return 0 if ok and not ok2 else 1

"""C17 — parallel traversal delivers every result exactly once and always terminates.  DESIGN.md 4/C17."""
import json, os, re
from concurrent.futures import ThreadPoolExecutor
from lib.vcheck import ToolFailure, validate_histories, write_ndjson

AREA = "Traversal"


def bf_cfg(n, fail, cancel, incfirst=True, liveness=True):
    return """SPECIFICATION Spec
CONSTANTS
  N = %d
  Kids <- McKidsX
  Root = 0
  FailSegs = {%s}
  AllowCancel = %s
  IncFirst = %s
INVARIANTS AtMostOnce Complete ErrReported NoLateExpansion CountNonNeg
%sCHECK_DEADLOCK FALSE
""" % (n, "" if fail < 0 else str(fail), "TRUE" if cancel else "FALSE", "TRUE" if incfirst else "FALSE",
       "PROPERTIES Terminates\n" if liveness else "")


def kids_expr(plan):
    kids = {i: [] for i in range(plan["n"])}
    for i, p in enumerate(plan["parents"]):
        kids[p].append(i + 1)
    parts = []
    for s in range(plan["n"]):
        parts.append("s = %d -> <<%s>>" % (s, ", ".join(map(str, kids[s]))))
    return "[s \\in 0..%d |-> CASE %s]" % (plan["n"] - 1, " [] ".join(parts))


def run_bf(ctx, plan, n, idx):
    suffix = "-bf%d" % idx
    d = ctx.spec_copy(AREA, suffix)
    p = os.path.join(d, "BreadthFirst.tla")
    s = open(p).read()
    if "McKidsX" not in s:
        s = s.replace("Segs == DOMAIN Kids", "McKidsX == %s\nSegs == DOMAIN Kids" % kids_expr(plan), 1)
        open(p, "w").write(s)
    return ctx.tlc(AREA, "BreadthFirst", cfg_text=bf_cfg(n, plan["fail"], plan["cancel"]), workers=2, timeout=900,
                   copy_suffix=suffix, record=False)


def classify(events, pos):
    ev = events[pos]
    plan = events[0]
    mode = plan.get("mode", "pipe")
    if ev["e"] == "ret":
        if ev.get("elapsed_ms", 0) > ev.get("budget_ms", 10 ** 9):
            return "ret/not-prompt-after-failure"
        if ev.get("leaked"):
            return "ret/goroutine-left-behind"
        started = {e["seg"] for e in events[:pos] if e["e"] == "dstart"}
        if not ev["err"] and len(started) < plan["n"]:
            return "ret/nil-with-unexpanded-segments"
        if ev["err"]:
            return "ret/error-without-failure"
        return "ret/failure-not-reported"
    if ev["e"] == "dstart":
        if any(e["e"] == "ret" for e in events[:pos]):
            return "dstart/after-return"
        if any(e["e"] == "dstart" and e["seg"] == ev["seg"] for e in events[:pos]):
            return "dstart/segment-expanded-twice"
        return "dstart/before-parent"
    if ev["e"] == "iscycle":
        return "iscycle/%s" % ("self-loop" if len(ev["nodes"]) >= 2 and ev["nodes"][-1] == ev["nodes"][-2] else "longer-cycle" if ev["nodes"][-1] in ev["nodes"][:-1] else "no-cycle")
    if ev["e"] == "paths":
        return "filter/%s/workers-%s" % (ev["mode"], "1" if ev["workers"] == 1 else "n")
    if ev["e"] == "collected":
        return "collectors/%s" % ("nodes" if ev["nodes"] != ev["n"] else "paths")
    if ev["e"] == "counter":
        return "counter/uint%d/%s/threads-%s" % (ev["width"], "told-not-at-maximum-after-maximum" if ev["late_false"] else "more-than-maximum-admitted" if ev["falses"] > min(ev["max"], ev["calls"]) else "fewer-than-maximum-admitted", "1" if ev["threads"] == 1 else "n")
    if ev["e"] == "skiplimit":
        return "skip-limit/%s/threads-%s" % ("visited-too-many" if ev["visited"] > (min(ev["limit"], max(ev["calls"] - ev["skip"], 0)) if ev["limit"] else max(ev["calls"] - ev["skip"], 0)) else "visited-too-few", "1" if ev["threads"] == 1 else "n")
    if ev["e"] == "seq":
        cyc = "cyclic" if any(e["s"] == e["t"] for e in ev["edges"]) or len(ev["edges"]) > len({(min(e["s"], e["t"]), max(e["s"], e["t"])) for e in ev["edges"]}) or ev["n"] <= len(ev["edges"]) else "acyclic"
        return "sequential/%s/%s/%s%s" % (ev["helper"], "panic" if ev["panic"] else "error" if ev["err"] else "wrong-result", cyc, "/skip-limit" if ev["skip"] or ev["limit"] else "")
    if ev["e"] == "hang":
        return "hang/%s" % mode
    if ev["e"].startswith("p"):
        return "pipe/%s" % ev["e"]
    return "%s/%s" % (mode, ev["e"])


def validate(ctx, trace, what):
    n_ok, rejected = validate_histories(ctx, AREA, "TraversalTrace", trace, chunk_events=60000, max_cand=8, parallel=6)
    ctx.cov["traces_validated_against_impl"] += n_ok
    ctx.cov["evaluations"] += n_ok + len(rejected)
    for hid, ev, events, pos in rejected:
        one = os.path.join(ctx.work, "one.ndjson")
        write_ndjson(one, events)
        ok, _, _ = ctx.validate_trace(AREA, "TraversalTrace", one)
        if ok:
            raise ToolFailure("UNREPRODUCED candidate (%s) %s" % (what, json.dumps(events[0])))
        ctx.report(classify(events, pos), "%s run %s: event %s contradicts the statement; recorded execution: %s" % (
            what, json.dumps({k: v for k, v in events[0].items() if k != "hid"}), json.dumps(ev),
            json.dumps([{k: v for k, v in e.items() if k != "hid"} for e in events[1:]])[:1500]), {"events": events, "what": what})
    return n_ok


def run(ctx):
    quick = ctx.tier == "quick"
    ctx.assumptions += ["TLC 1.8.0 + CommunityModules", "Go race detector (free-running mode)",
                        "events logged by the harness-supplied Driver under one mutex in real-time order; BreadthFirst's return logged after "
                        "it returns; goroutine count compared with the count before the call",
                        "gate mode: verifhook points in traversal.go used as scheduler gates - shapes schedules, never produces verdicts",
                        "the helpers of ops/traversal.go (TraversePaths, TraverseIntermediaryPaths, AcyclicTraverseNodes, AcyclicTraverseTerminals) run over a fake graph.Transaction that evaluates "
                        "exactly the criteria they build (id(s)/id(e) in [...], a relationship kind matcher); their building blocks - PathSegment.IsCycle on every walk and the segment filters "
                        "(AcyclicNodeFilter, UniquePathSegmentFilter) under BreadthFirst - on every small graph; AcyclicTraverseTerminals is only bounded (every reachable sink, only reached nodes): "
                        "it also reports nodes reached a second time, which the statement does not settle"]
    if ctx.replay:
        rep = json.load(open(ctx.replay))["replay"]
        one = os.path.join(ctx.work, "one.ndjson")
        if rep.get("what") == "seq":        # sequential helpers are deterministic: run them again on the recorded graph
            gp = os.path.join(ctx.work, "g.ndjson")
            write_ndjson(gp, [rep["events"][0]["g"]])
            ctx.vh(["trav", "seq", "--in", gp, "--out", one], timeout=600)
        else:
            write_ndjson(one, rep["events"])
        validate(ctx, one, "replay")
        return
    # 1. mechanism models
    for mod, cfgs in (("BreadthFirst", ["BreadthFirst.cfg"] + ([] if quick else ["BreadthFirstFaults.cfg"])), ("Pipe", ["Pipe.cfg", "PipeNoReader.cfg"])):
        for c in cfgs:
            r = ctx.tlc_check(AREA, mod, c, workers=12, timeout=1500)
            if not r.clean:
                raise ToolFailure("%s %s failed:\n%s" % (mod, c, r.out[-2500:]))
    r = ctx.tlc(AREA, "BreadthFirst", "BreadthFirstSubmitFirst.cfg", workers=8, timeout=600)
    if "Complete" not in r.invariant_violated:
        raise ToolFailure("negative control failed: submit-before-increment satisfies Complete")
    ctx.cov["negative_control"] = "BreadthFirstSubmitFirst.cfg (child submitted before the counter increment) violates Complete"
    # 2. plans
    r = ctx.tlc(AREA, "TreeGen", cfg_text="SPECIFICATION GSpec\nCONSTANTS MaxSeg = %d\nCHECK_DEADLOCK FALSE\n" % (4 if quick else 5),
                workers=4, timeout=600)
    plans = ctx.printed_json(r.out)
    if not plans:
        raise ToolFailure("no plans generated")
    for p in plans:
        p["parents"] = list(p["parents"]) if isinstance(p["parents"], list) else []
    # M-spec per plan (safety + termination), thorough: all plans of <= 4 segments with 2 workers
    sel = [p for p in plans if p["n"] == 4][: (6 if quick else 10 ** 6)]
    with ThreadPoolExecutor(max_workers=6) as ex:
        rs = list(ex.map(lambda ip: run_bf(ctx, ip[1], 2, ip[0]), enumerate(sel)))
    for p, rr in zip(sel, rs):
        if not rr.clean:
            raise ToolFailure("BreadthFirst M-spec fails for plan %s:\n%s" % (json.dumps(p), rr.out[-2000:]))
        ctx.cov["states"] += rr.distinct
        ctx.cov["transitions"] += rr.generated
    ctx.cov["plans_model_checked"] = len(sel)
    pp = os.path.join(ctx.work, "plans.ndjson")
    write_ndjson(pp, plans)
    # 3. the real code: gate mode (verif hooks), free-running under -race, the pipe alone
    t = os.path.join(ctx.work, "gate.ndjson")
    ctx.vh(["trav", "run", "--in", pp, "--out", t, "--mode", "gate", "--seed", str(ctx.seed)], timeout=1500)
    n_gate = validate(ctx, t, "gate")
    t = os.path.join(ctx.work, "free.ndjson")
    p = ctx.vh(["trav", "run", "--in", pp, "--out", t, "--mode", "free", "--seed", str(ctx.seed), "--reps", "2" if quick else "12",
                "--workers", "4" if quick else "8"], race=True, check=False, timeout=2400)
    if "DATA RACE" in p.stdout:
        m = re.search(r"WARNING: DATA RACE(.*?)={10,}", p.stdout, re.S)
        txt = m.group(1) if m else p.stdout[:3000]
        if "/traversal/" in txt or "/util/channels/" in txt:
            ctx.report("data-race/traversal-protocol", "race detector: " + txt[:1500], {"events": [], "what": "race"})
        else:
            ctx.notes.append("race report outside traversal/channels (informational): " + txt[:400])
    elif p.returncode != 0:
        raise ToolFailure("vh trav run failed: " + p.stdout[-2000:])
    n_free = validate(ctx, t, "free")
    t = os.path.join(ctx.work, "pipe.ndjson")
    ctx.vh(["trav", "pipe", "--out", t, "--seed", str(ctx.seed), "--n", "200" if quick else "2000"], race=True, timeout=1500)
    n_pipe = validate(ctx, t, "pipe")
    # segment filters and cycle detection: every graph with <= 3 nodes and <= 4 edges (self loops, 2-cycles), every root
    gg = ctx.tlc(AREA, "PathsGen", "PathsGen.cfg", workers=4, timeout=900)
    fgraphs = ctx.printed_json(gg.out)
    if len(fgraphs) < 200:
        raise ToolFailure("PathsGen printed %d graphs:\n%s" % (len(fgraphs), gg.out[-1500:]))
    fgp = os.path.join(ctx.work, "fgraphs.ndjson")
    write_ndjson(fgp, fgraphs)
    t = os.path.join(ctx.work, "filters.ndjson")
    ctx.vh(["trav", "filters", "--in", fgp, "--out", t, "--stride", "2" if quick else "1"], timeout=1500)
    n_filters = validate(ctx, t, "filters")
    # the sequential helpers of package ops over a fake transaction that evaluates the criteria they build: every graph, every root,
    # both directions, with and without a branch query, skip / limit
    t = os.path.join(ctx.work, "seq.ndjson")
    ctx.vh(["trav", "seq", "--in", fgp, "--out", t, "--stride", "3" if quick else "1"], timeout=1500)
    n_seq = validate(ctx, t, "seq")
    # the bounded counter and the skip / limit filter under real parallelism
    t = os.path.join(ctx.work, "counter.ndjson")
    ctx.vh(["trav", "counter", "--out", t, "--rounds", "300" if quick else "3000"], timeout=1500)
    n_counter = validate(ctx, t, "counter")
    ctx.cov["runs"] = {"gate": n_gate, "free": n_free, "pipe": n_pipe, "filters": n_filters, "sequential": n_seq, "counter": n_counter}
    nt = sum(1 for p in plans if p["n"] >= 3)
    ctx.cov["distinct_nontrivial"] = nt * 5
    ctx.cov["samples"].append({"plan": plans[len(plans) // 2]})
    ctx.cov["exhaustive"] = False
    ctx.cov["rule"] = ("TLC enumerates every segment tree with <= %d segments x optional failing segment x optional cancellation (%d plans); "
                       "each is run on the real BreadthFirst with 1..N workers free-running under -race with seed-driven jitter in the driver, "
                       "and under 5 adversarial gate policies at the verifhook points; the buffered pipe is driven alone with eager / late / "
                       "slow / cancelled readers.  distinct_nontrivial = plans with >= 3 segments x gate policies" % (4 if quick else 5, len(plans)))


def selftest(ctx):
    t = os.path.join(ctx.work, "t.ndjson")
    write_ndjson(os.path.join(ctx.work, "p.ndjson"), [{"n": 3, "parents": [0, 0], "fail": -1, "cancel": False}])
    ctx.vh(["trav", "run", "--in", os.path.join(ctx.work, "p.ndjson"), "--out", t, "--mode", "free", "--workers", "2"])
    ok, _, _ = ctx.validate_trace(AREA, "TraversalTrace", t)
    lines = [l for l in open(t).read().splitlines() if '"seg":2' not in l or '"dstart"' not in l and '"dend"' not in l]
    open(t, "w").write("\n".join(lines) + "\n")
    ok2, stuck, _ = ctx.validate_trace(AREA, "TraversalTrace", t)
    print("selftest C17: clean accepted=%s hook-dropped accepted=%s stuck=%s" % (ok, ok2, stuck))
    return 0 if ok and not ok2 else 1

"""C11 — query-model utilities are structure-preserving: deep copy and complete traversal.  DESIGN.md 4/C11."""
import json, os
from lib.vcheck import ToolFailure, validate_histories, write_ndjson

AREA = "Walk"


def walk_cfg(nodes, react, variant="code"):
    return ('SPECIFICATION Spec\nCONSTANTS\n  MaxNodes = %d\n  MaxReact = %d\n  Variant = "%s"\n  NilBranches = TRUE\nINVARIANT Inv\nCHECK_DEADLOCK FALSE\n'
            % (nodes, react, variant))


def gen_cfg(nodes, react):
    return 'SPECIFICATION GSpec\nCONSTANTS\n  MaxNodes = %d\n  MaxReact = %d\n  Variant = "code"\n  NilBranches = TRUE\nCHECK_DEADLOCK FALSE\n' % (nodes, react)


def classify(ev, events, pos):
    if ev["e"] == "copy":
        what = ("panic" if ev["panic"] else "not-equal" if not ev["equal"] else "shares:" + ev["shared_at"].split("(")[0].rsplit(".", 1)[-1].split("[")[0].split("{")[0] if ev["shared"] else
                "original-changed-by-mutating-copy" if not ev["orig_unchanged"] else "copy-changed-by-mutating-original")
        return "copy/%s/%s" % (ev["type"].replace("*cypher.", ""), what)
    tree = events[0]
    mode = tree["mode"]
    scripted = any(e.get("r", "none") != "none" for e in events[:pos + 1])
    tag = "%s%s" % (mode, "+reactions" if scripted else "")
    if ev["e"] == "cb":
        if ev["n"] == 0 and mode != "free":
            return "walk/%s/%s-of-a-node-outside-the-model/%s" % (tag, ev["cb"], ev.get("t", "?"))
        prev = events[pos - 1] if pos > 1 else {}
        if ev["cb"] == "exit" and prev.get("r", "none") == "none":
            return "walk/%s/exit-before-all-children-were-walked/%s" % (tag, ev.get("t", "?"))
        return "walk/%s/%s-out-of-protocol-after-%s(%s)/%s" % (tag, ev["cb"], prev.get("cb", "start"), prev.get("r", "none"), ev.get("t", "?"))
    if ev["e"] == "end":
        prev = events[pos - 1] if pos > 1 else {}
        return "walk/%s/result-%s-after-%s(%s)%s" % (tag, ev["res"].split(":")[0], prev.get("cb", "start"), prev.get("r", "none"), "/nil-branch" if tree.get("nilpar") else "")
    return "walk/%s/%s" % (tag, ev["e"])


def report_rejected(ctx, rejected, what):
    seen = set()
    for hid, ev, events, pos in rejected:
        key = classify(ev, events, pos)
        if key in seen:
            continue
        seen.add(key)
        if ev["e"] == "copy":
            ctx.report(key, "cypher.Copy of a %s (from %r): panic=%s equal=%s shared mutable parts=%s (first at %s) original unchanged after mutating the copy=%s, copy unchanged "
                       "after mutating the original=%s" % (ev["type"], ev["text"][:120], ev.get("panicmsg", False), ev["equal"], ev["shared"], ev["shared_at"], ev["orig_unchanged"], ev["copy_unchanged"]),
                       {"text": ev["text"], "type": ev["type"]})
        else:
            tree = events[0]
            ctx.report(key, "%s walk of %s %r: event %d %s is not allowed after %s" % (
                tree["mode"], tree.get("roottype", "a generated tree"), tree.get("text", json.dumps({k: tree[k] for k in ("n", "par", "nilpar")}))[:140], pos,
                json.dumps({k: v for k, v in ev.items() if k != "hid"}), json.dumps([{k: v for k, v in e.items() if k != "hid"} for e in events[max(1, pos - 3):pos]])),
                {"tree": {k: v for k, v in tree.items() if k != "hid"}, "events": [{k: v for k, v in e.items() if k != "hid"} for e in events[1:pos + 1]]})


def run(ctx):
    quick = ctx.tier == "quick"
    ctx.assumptions += ["TLC 1.8.0 + CommunityModules",
                        "'modelled child' = a field, slice element or map entry whose type is a node type of package cypher (pointer to a model struct, Expression, MapLiteral with one "
                        "MapItem per key, *ListLiteral, graph.Kinds, Operator), found by reflection; scalars and the opaque payloads Literal.Value / Parameter.Value are attributes",
                        "copy: 'mutable part' = model nodes, backing arrays of non-empty slices, maps, *int64 targets; opaque payload values are user data and excluded",
                        "models: every text of the repository's corpora, the grammar-form statements, 31 expression kinds x 19 positions and multi-part queries that the real parser accepts"]
    # 1. the walking protocol, exhaustively, on every small tree with every placement of reactions
    n, k = (4, 2) if quick else (6, 3)
    r = ctx.tlc_check(AREA, "Walk", cfg_text=walk_cfg(n, k), workers=12, timeout=2400)
    if not r.clean:
        raise ToolFailure("Walk.tla (the loop of walk.Generic) violates its protocol properties:\n" + r.out[-2500:])
    if not quick:
        for v in ("KeepConsumedAfterExit", "DoneUnwinds", "NoVisit"):
            r2 = ctx.tlc(AREA, "Walk", cfg_text=walk_cfg(4, 2, v), workers=8, timeout=900, copy_suffix=v)
            if "Inv" not in r2.invariant_violated:
                raise ToolFailure("negative control failed: mutant %s of the loop satisfies the protocol properties" % v)
        ctx.cov["negative_control"] = "loop mutants KeepConsumedAfterExit, DoneUnwinds, NoVisit each violate Inv"
    # 2. every finished walk of the model, replayed on the real walk.Generic
    gn, gk = (4, 2) if quick else (5, 3)
    g = ctx.tlc(AREA, "WalkGen", cfg_text=gen_cfg(gn, gk), workers=8, timeout=2400)
    hists = ctx.printed_json(g.out)
    if not hists:
        raise ToolFailure("WalkGen printed no walks:\n" + g.out[-1500:])
    hp = os.path.join(ctx.work, "hist.ndjson")
    write_ndjson(hp, hists)
    t1 = os.path.join(ctx.work, "generic.ndjson")
    out = ctx.vh(["walk", "generic", "--in", hp, "--out", t1], timeout=1800)
    n_ok, rejected = validate_histories(ctx, AREA, "WalkTrace", t1, chunk_events=200000, max_cand=20, parallel=8)
    ctx.cov["traces_validated_against_impl"] += n_ok
    ctx.cov["evaluations"] += n_ok + len(rejected)
    report_rejected(ctx, rejected, "generic")
    drift = sum(1 for ln in open(t1) if '"as_model":false' in ln.replace(" ", ""))
    ctx.cov["generic_walks"] = len(hists)
    ctx.cov["model_drift"] = drift
    if drift and not rejected:
        raise ToolFailure("model drift: %d of %d walks of the real walk.Generic satisfy the protocol but differ from Walk.tla's walk" % (drift, len(hists)))
    # 3. the real cypher walkers over real models, against the reflection tree
    t2 = os.path.join(ctx.work, "models.ndjson")
    ctx.grammar_corpus(stride=12 if quick else 4, skstride=4 if quick else 2)
    ctx.vh(["walk", "models", "--out", t2, "--seed", str(ctx.seed), "--reacts", "4" if quick else "24", "--nils", "2" if quick else "10"], timeout=3000)
    n_ok, rejected = validate_histories(ctx, AREA, "WalkTrace", t2, chunk_events=150000, max_cand=30, parallel=10)
    ctx.cov["traces_validated_against_impl"] += n_ok
    ctx.cov["evaluations"] += n_ok + len(rejected)
    report_rejected(ctx, rejected, "models")
    modes, nontrivial = {}, 0
    sample = None
    cur = None
    for ln in open(t2):
        e = json.loads(ln)
        if e["e"] == "tree":
            modes[e["mode"]] = modes.get(e["mode"], 0) + 1
            if e["n"] >= 10:
                nontrivial += 1
            cur = [e] if (sample is None and e["mode"] == "structural" and 8 <= e["n"] <= 14) else None
            if cur:
                sample = cur
        elif cur is not None and len(cur) < 14:
            cur.append(e)
    ctx.cov["walks_by_mode"] = modes
    ctx.cov["distinct_nontrivial"] = nontrivial
    if sample:
        ctx.cov["samples"].append([{k: v for k, v in x.items() if k != "hid"} for x in sample])
    # 4. cypher.Copy of every node of every model
    t3 = os.path.join(ctx.work, "copy.ndjson")
    ctx.vh(["walk", "copy", "--out", t3], timeout=3000)
    n_ok, rejected = validate_histories(ctx, AREA, "WalkTrace", t3, chunk_events=20000, max_cand=30, parallel=8)
    ctx.cov["traces_validated_against_impl"] += n_ok
    ctx.cov["evaluations"] += n_ok + len(rejected)
    ctx.cov["copies_checked"] = n_ok + len(rejected)
    report_rejected(ctx, rejected, "copy")
    ctx.cov["exhaustive"] = False
    ctx.cov["rule"] = ("Walk.tla exhaustive for trees <= %d nodes with <= %d reactions and one optional nil branch; all %d finished walks of trees <= %d nodes replayed on the real "
                       "walk.Generic; %s walks of real models (undisturbed, with scripted consume/done/error at sampled callbacks, with a slice element set to nil, from sub-tree roots, "
                       "nil roots; walk.PgSQL over the translated SQL under the protocol alone); cypher.Copy of every pointer node of every model.  non-trivial = walks over trees "
                       "of >= 10 nodes" % (n, k, len(hists), gn, modes))


def selftest(ctx):
    t = os.path.join(ctx.work, "m.ndjson")
    ctx.vh(["walk", "models", "--out", t, "--limit", "20", "--reacts", "1", "--nils", "1"])
    ok, _, _ = ctx.validate_trace(AREA, "WalkTrace", t)
    lines = open(t).read().splitlines()
    # drop one Exit callback: the walk is no longer properly nested
    idx = next(i for i, ln in enumerate(lines) if '"cb":"exit"' in ln)
    del lines[idx]
    open(t, "w").write("\n".join(lines) + "\n")
    ok2, stuck, _ = ctx.validate_trace(AREA, "WalkTrace", t)
    print("selftest C11: clean accepted=%s corrupted accepted=%s stuck=%s" % (ok, ok2, stuck))
    return 0 if ok and not ok2 else 1

"""C12 — entity change tracking records exactly the delta.  DESIGN.md section 4/C12."""
import json, os
from lib.vcheck import ToolFailure, validate_histories

AREA = "EntityDelta"


def gen_cfg(depth, mode):
    return """SPECIFICATION GSpec
CONSTANTS
  Keys = {"a", "b"}
  Vals = {1, 2}
  KindSet = {"K1", "K2"}
  Ents = {"X", "Y"}
  Fixed = TRUE
  Depth = %d
  Mode = "%s"
CHECK_DEADLOCK FALSE
""" % (depth, mode)


def classify(ev, loaded):
    """canonical key from the failing call: operation + which clause of the statement its post-state breaks"""
    if ev.get("panic"):
        return "%s/panic" % ev["op"]
    if ev["e"] == "load":
        return "load/not-fresh"
    p = ev["st"].get(ev["ent"])
    if p is None:
        return "%s/missing-entity" % ev["op"]
    m = {k: v for k, v in p["map"]}
    mod = {k for k, _ in p["mod"]}
    dl = set(p["del"])
    L = {k: v for k, v in loaded["lmap"]}
    KL = set(loaded["lkinds"])
    if p["dup"]:
        return "%s/duplicate" % ev["op"]
    if mod & dl:
        return "%s/key-both-written-and-removed" % ev["op"]
    if dl & set(m):
        return "%s/deleted-key-present" % ev["op"]
    if not mod <= set(m):
        return "%s/modified-key-absent" % ev["op"]
    if any(m.get(k) != v for k, v in p["mod"]):
        return "%s/modified-value-stale" % ev["op"]
    exp = {k: v for k, v in L.items() if k not in dl}
    exp.update({k: m[k] for k in mod})
    if exp != m:
        return "%s/props-delta-not-exact" % ev["op"]
    ad, rm, ks = set(p["added"]), set(p["removed"]), set(p["kinds"])
    if ad & rm:
        return "%s/kind-both-added-and-removed" % ev["op"]
    if (KL - rm) | ad != ks:
        return "%s/kinds-delta-not-exact" % ev["op"]
    return "%s/post-state-or-frame" % ev["op"]


def run(ctx):
    quick = ctx.tier == "quick"
    ctx.assumptions += ["TLC 1.8.0 + CommunityModules", "harness projection of Map/ModifiedProperties()/DeletedProperties()/"
                        "Kinds/AddedKinds/DeletedKinds after every call, for every live object",
                        "loaded values are interchangeable (the code never compares values); X and Y are interchangeable",
                        "merge partners are two entities loaded from the same state"]
    # 1. exhaustive check of the mechanism model (the code as repaired) against the statement
    r = ctx.tlc_check(AREA, "EntityDelta", workers=12, timeout=1500)
    if not r.clean:
        raise ToolFailure("EntityDelta.tla (Fixed=TRUE) violates DeltaExact: the model no longer matches\n" + r.out[-2500:])
    if not quick:
        # negative control: the pinned, unrepaired Merge must violate the statement in the model
        r2 = ctx.tlc(AREA, "EntityDelta", "EntityDeltaPinned.cfg", workers=12, timeout=600)
        if not r2.invariant_violated:
            raise ToolFailure("negative control failed: the unrepaired Merge model satisfies DeltaExact")
        ctx.cov["negative_control"] = "EntityDeltaPinned.cfg (Merge as pinned) violates DeltaExact as expected"
    # 2. histories
    plans = [("props", 3), ("kinds", 3)] if quick else [("props", 4), ("kinds", 4)]
    hist = os.path.join(ctx.work, "hist.ndjson")
    n = 0
    with open(hist, "w") as f:
        if ctx.replay:
            f.write(json.dumps(json.load(open(ctx.replay))["replay"]["history"]) + "\n")
            n = 1
        else:
            for mode, depth in plans:
                r = ctx.tlc(AREA, "EntityGen", cfg_text=gen_cfg(depth, mode), workers=8, timeout=1500)
                if not r.clean:
                    raise ToolFailure("generator failed: " + r.out[-2000:])
                for h in ctx.printed_json(r.out):
                    f.write(json.dumps(h) + "\n")
                    n += 1
                walks = 3000 if quick else 30000
                r = ctx.tlc(AREA, "EntityGen", cfg_text=gen_cfg(10, mode), workers=1, simulate="num=%d" % walks,
                            depth=12, timeout=900)
                for h in ctx.printed_json(r.out):
                    f.write(json.dumps(h) + "\n")
                    n += 1
    if n == 0:
        raise ToolFailure("no histories generated")
    hists = open(hist).read().splitlines()
    ctx.cov["exhaustive"] = not ctx.replay
    ctx.cov["rule"] = ("all M-spec histories (mode, operations) = %s over keys {a,b}, values {1,2}, kinds {K1,K2}, two entities "
                       "loaded from every loaded state of the mode, plus random M-spec walks of 10 operations; replayed on "
                       "*graph.Node, *graph.Relationship and bare *graph.Properties.  non-trivial = the history contains a "
                       "merge, or a delete/re-set of a key (kind) that was edited before" % (plans,))
    # 3./4. replay and validate
    for variant in ("node", "rel", "props"):
        trace = os.path.join(ctx.work, "trace-%s.ndjson" % variant)
        ctx.vh(["entity", "replay", "--in", hist, "--out", trace, "--variant", variant, "--seed", str(ctx.seed)])
        n_ok, rejected = validate_histories(ctx, AREA, "EntityTrace", trace, chunk_events=150000)
        ctx.cov["traces_validated_against_impl"] += n_ok
        ctx.cov["evaluations"] += n_ok + len(rejected)
        # non-triviality
        nt = set()
        cur = None
        sample = None
        for ln in open(trace):
            e = json.loads(ln)
            if e["e"] == "load":
                cur = [e]
                touched = set()
                flag = False
                continue
            cur.append(e)
            tk = (e["ent"], e["k"] or ",".join(e["ks"]))
            if e["op"] in ("pmerge", "nmerge") or (e["op"] in ("set", "del", "addk", "delk") and tk in touched):
                if not flag:
                    flag = True
                    nt.add(e["hid"])
                    if sample is None and e["op"] in ("pmerge", "nmerge") and len(cur) > 2:
                        sample = list(cur)
            touched.add(tk)
        ctx.cov["distinct_nontrivial"] += len(nt)
        if sample and len(ctx.cov["samples"]) < 3:
            ctx.cov["samples"].append({"variant": variant, "events": [
                {"op": x["op"], "ent": x["ent"], "k": x["k"], "v": x["v"], "ks": x["ks"], "lmap": x["lmap"],
                 "st": {n: [p["map"], [m[0] for m in p["mod"]], p["del"], p["kinds"], p["added"], p["removed"]]
                        for n, p in x["st"].items()}} for x in sample]})
        for hid, ev, events, pos in rejected:
            one = os.path.join(ctx.work, "one.ndjson")
            open(one, "w").write(hists[hid] + "\n")
            t1 = os.path.join(ctx.work, "one-trace.ndjson")
            ctx.vh(["entity", "replay", "--in", one, "--out", t1, "--variant", variant, "--seed", str(ctx.seed + hid)])
            ok, stuck, _ = ctx.validate_trace(AREA, "EntityTrace", t1)
            if ok:
                raise ToolFailure("UNREPRODUCED candidate for history %s (%s)" % (hid, variant))
            key = classify(ev, events[0])
            ctx.report(key, "%s: history %s breaks the statement at call %d (%s)" % (
                variant, hists[hid], pos, json.dumps({k: ev[k] for k in ("op", "ent", "other", "k", "v", "st")})),
                {"variant": variant, "history": json.loads(hists[hid])})


def selftest(ctx):
    hist = os.path.join(ctx.work, "h.ndjson")
    open(hist, "w").write(json.dumps({"lmap": [["a", 1]], "lkinds": ["K1"], "ops": [
        {"op": "set", "ent": "X", "other": "", "k": "b", "v": 2, "m": [], "ks": []},
        {"op": "delk", "ent": "Y", "other": "", "k": "", "v": 0, "m": [], "ks": ["K1"]},
        {"op": "nmerge", "ent": "X", "other": "Y", "k": "", "v": 0, "m": [], "ks": []}]}) + "\n")
    t = os.path.join(ctx.work, "t.ndjson")
    ctx.vh(["entity", "replay", "--in", hist, "--out", t, "--variant", "node"])
    ok, _, _ = ctx.validate_trace(AREA, "EntityTrace", t)
    lines = open(t).read().splitlines()
    e = json.loads(lines[3]); e["st"]["X"]["removed"] = []; lines[3] = json.dumps(e)
    open(t, "w").write("\n".join(lines) + "\n")
    ok2, stuck, _ = ctx.validate_trace(AREA, "EntityTrace", t)
    print("selftest C12: clean accepted=%s corrupted accepted=%s stuck=%s" % (ok, ok2, stuck))
    return 0 if ok and not ok2 else 1

"""C19 — an interrupted dump resumes to the same result or refuses; never a partial dump.  DESIGN.md 4/C19."""
import json, os, random
from concurrent.futures import ThreadPoolExecutor
from lib.vcheck import ToolFailure, validate_histories, write_ndjson

AREA = "Retriever"
CODECS = ["none", "gzip", "zstd"]


def cfggen_cfg(maxg, maxn, maxe, maxsb):
    return """SPECIFICATION GSpec
CONSTANTS
  MaxGraphs = %d
  MaxNodes = %d
  MaxEdges = %d
  MaxSB = %d
CHECK_DEADLOCK FALSE
""" % (maxg, maxn, maxe, maxsb)


def mspec_cfg(cfg, maxcrash, track):
    graphs = "<<" + ", ".join("[nodes |-> %d, edges |-> %d]" % (g["nodes"], g["edges"]) for g in cfg["graphs"]) + ">>"
    return graphs, """SPECIFICATION Spec
CONSTANTS
  Graphs <- McGraphsX
  Shard = %d
  Batch = %d
  MaxCrash = %d
  RecordBeforePublish = FALSE
  RefuseStray = TRUE
  TrackSteps = %s
INVARIANTS ManifestMeansComplete OkMeansEquivalent NeverOkWithStray CkNeverListsUnpublished%s
%sCHECK_DEADLOCK FALSE
""" % (cfg["shard"], cfg["batch"], maxcrash, "TRUE" if track else "FALSE", " StepsOut" if track else "",
       "" if track else "PROPERTIES Ends\n")


def run_mspec(ctx, cfg, maxcrash, track, idx):
    """model-check the M-spec for one configuration (own copy of the module with the graphs constant patched in)"""
    graphs, cfgtext = mspec_cfg(cfg, maxcrash, track)
    d = ctx.spec_copy(AREA, "-m%d%s" % (idx, "t" if track else ""))
    p = os.path.join(d, "DumpCrash.tla")
    s = open(p).read()
    if "McGraphsX" not in s:
        s = s.replace("NONE == [none |-> TRUE]\n", "NONE == [none |-> TRUE]\nMcGraphsX == %s\n" % graphs, 1)
        open(p, "w").write(s)
    r = ctx.tlc(AREA, "DumpCrash", cfg_text=cfgtext, workers=2, timeout=900, copy_suffix="-m%d%s" % (idx, "t" if track else ""),
                record=False)
    return r


def classify(events, pos):
    ev, scen = events[pos], events[0]["scen"]
    d = ev["dir"]
    point = events[1].get("point", "") if len(events) > 1 else ""
    if ev["kind"] == "resume" and ev["how"] == "returned" and ev["ok"] and ev["changed"] != "none":
        return "resume-accepted-after-%s-change" % ev["changed"]
    if d["has_manifest"] and not (ev["how"] == "returned" and ev["ok"]):
        return "%s/manifest-for-incomplete-dump/after-%s" % (ev["kind"], point or "start")
    if ev["how"] == "returned" and ev["ok"] and not ev.get("manifest_same", True):
        return "%s/manifest-differs-from-the-uninterrupted-dump/after-%s" % (ev["kind"], point or "none")
    if ev["how"] == "returned" and ev["ok"]:
        return "%s/reported-success-not-equivalent/after-%s" % (ev["kind"], point or "none")
    if ev["kind"] == "resume" and ev["how"] == "returned" and not ev["ok"]:
        return "resume/refusal-damaged-committed-fragment/after-%s" % (point or "start")
    return "%s/%s" % (scen, ev["kind"])


def run(ctx):
    quick = ctx.tier == "quick"
    ctx.assumptions += ["TLC 1.8.0 + CommunityModules", "process crash = SIGKILL of a child running the real retriever.Dump at a numbered "
                        "verifhook step (no fsync / power-loss semantics)", "source = in-memory fake database rebuilt from the configuration, "
                        "so it is unchanged across crashes unless the scenario changes it",
                        "directory projection (fragment ids, hashes, manifest, checkpoint) computed by the harness from the files"]
    rng = random.Random(ctx.seed)
    if ctx.replay:
        rep = json.load(open(ctx.replay))["replay"]
        trace = os.path.join(ctx.work, "t.ndjson")
        ctx.vh(["dump", "explore", "--only", json.dumps(rep["only"]), "--out", trace])
        validate(ctx, trace, None)
        return
    # 1. configurations from TLC
    r = ctx.tlc(AREA, "DumpCfgGen", cfg_text=cfggen_cfg(2, 3, 3, 2) if quick else cfggen_cfg(2, 3, 3, 3), workers=4, timeout=600)
    allcfgs = ctx.printed_json(r.out)
    if not allcfgs:
        raise ToolFailure("no configurations generated")
    # boundary configurations are always included; the rest is a seed-chosen sample (quick) or everything (thorough)
    def boundary(c):
        gs = c["graphs"]
        two = (len(gs) == 2 and gs[0]["nodes"] == 3 and gs[0]["edges"] == 2 and gs[1]["nodes"] in (0, 2) and gs[1]["edges"] == min(2, gs[1]["nodes"])
               and c["shard"] == 2 and c["batch"] in (1, 2))
        exact = len(gs) == 1 and gs[0]["nodes"] == 2 and gs[0]["edges"] == 2 and c["shard"] == c["batch"] == 2     # count = shard size
        # many fragments per phase: several committed fragments behind the cursor and entities still outstanding
        many = len(gs) == 1 and gs[0]["nodes"] == 3 and gs[0]["edges"] == 3 and c["shard"] == 1 and c["batch"] in (1, 2)
        return two or exact or many
    fixed = [c for c in allcfgs if boundary(c)]
    rest = [c for c in allcfgs if not boundary(c)]
    rng.shuffle(rest)
    # the same boundary configurations on a source that numbers from 0 (Neo4j does): a committed cursor of 0 is a position
    zero = [dict(c, zero_ids=True) for c in fixed if c["shard"] == 1 or len(c["graphs"]) == 2]
    # ... and with scrubbing on in every run (the manifest then carries dump-wide action counts that a resume has to carry over)
    scrub = [dict(c, scrub="full") for c in fixed if len(c["graphs"]) == 2 or c["shard"] == 1]
    chosen = fixed + zero[: (3 if quick else len(zero))] + scrub[: (2 if quick else len(scrub))] + rest[: (6 if quick else 150)]
    for i, c in enumerate(chosen):
        c["codec"] = CODECS[(i + ctx.seed) % 3]
    ctx.cov["configurations_total"] = len(allcfgs)
    ctx.cov["configurations_explored"] = len(chosen)
    # 2. exhaustive model checking of the mechanism spec per configuration (all crash interleavings), and its step order
    mc = chosen if not quick else chosen[:4]
    with ThreadPoolExecutor(max_workers=6) as ex:
        rs = list(ex.map(lambda ic: run_mspec(ctx, ic[1], 2, False, ic[0]), enumerate(mc)))
        rt = list(ex.map(lambda ic: run_mspec(ctx, ic[1], 0, True, ic[0]), enumerate(chosen)))
    for c, r in zip(mc, rs):
        if not r.clean:
            raise ToolFailure("DumpCrash M-spec fails for %s:\n%s" % (json.dumps(c), r.out[-2000:]))
        ctx.cov["states"] += r.distinct
        ctx.cov["transitions"] += r.generated
    if not quick:
        for name, inv in (("DumpCrashMutRecord.cfg", "CkNeverListsUnpublished"), ("DumpCrashMutStray.cfg", "OkMeansEquivalent")):
            rr = ctx.tlc(AREA, "DumpCrash", name, workers=4, timeout=600)
            if inv not in rr.invariant_violated:
                raise ToolFailure("negative control %s did not violate %s" % (name, inv))
        ctx.cov["negative_controls"] = ["record-before-publish violates CkNeverListsUnpublished only", "accept-stray violates OkMeansEquivalent"]
    model_steps = []
    for c, r in zip(chosen, rt):
        js = ctx.printed_json(r.out)
        model_steps.append(js[0]["steps"] if js else None)
    # 3. crash plans on the real code
    cfgp = os.path.join(ctx.work, "cfgs.ndjson")
    write_ndjson(cfgp, chosen)
    trace = os.path.join(ctx.work, "trace.ndjson")
    stepsp = os.path.join(ctx.work, "steps.ndjson")
    ctx.vh(["dump", "explore", "--in", cfgp, "--out", trace, "--depth2", "sample", "--seed", str(ctx.seed), "--steps-out", stepsp], timeout=3000)
    if not quick:
        # every pair of crash points for the boundary configurations
        cfg2 = os.path.join(ctx.work, "cfgs2.ndjson")
        write_ndjson(cfg2, fixed[:4])
        t2 = os.path.join(ctx.work, "trace2.ndjson")
        ctx.vh(["dump", "explore", "--in", cfg2, "--out", t2, "--depth2", "all", "--seed", str(ctx.seed)], timeout=3000)
        off = 10 ** 6
        with open(trace, "a") as f:
            for ln in open(t2):
                e = json.loads(ln)
                e["hid"] += off
                f.write(json.dumps(e) + "\n")
    # drift: real step order vs. M-spec step order
    for i, ln in enumerate(open(stepsp)):
        real = json.loads(ln)["labels"]
        if model_steps[i] is not None and real != model_steps[i]:
            ctx.cov["model_drift"] += 1
            if ctx.cov["model_drift"] == 1:
                ctx.notes.append("model_drift: step order of the uninterrupted dump differs from DumpCrash.tla for %s: real %s model %s" % (
                    json.dumps(chosen[i]), real, model_steps[i]))
    validate(ctx, trace, chosen)
    ctx.cov["exhaustive"] = False
    ctx.cov["rule"] = ("TLC enumerates %d configurations (<=2 graphs, <=3 nodes, <=3 relationships, shard/batch 1..%d); %d explored (boundary "
                       "ones always - also on a source whose first node and relationship have database id 0, and with scrubbing on -, the rest seed-sampled), codec rotating.  A run that reports success must also leave the manifest an uninterrupted dump writes (generation time aside).  Per configuration: crash (SIGKILL) at every step of the first "
                       "run, then resume; a sample (thorough: all pairs for the boundary configurations) of second crashes during the resume; "
                       "a database read error at every fetch; refusal scenarios (changed shard size, one more source node, a stray file).  "
                       "non-trivial = the interrupted run had already published at least one fragment or written a manifest temp"
                       % (len(allcfgs), 2 if quick else 3, len(chosen)))


def validate(ctx, trace, chosen):
    n_ok, rejected = validate_histories(ctx, AREA, "DumpCrashTrace", trace, chunk_events=6000, max_cand=10, parallel=8)
    ctx.cov["traces_validated_against_impl"] += n_ok
    ctx.cov["evaluations"] += n_ok + len(rejected)
    nt, sample = 0, None
    cur = []
    for ln in open(trace):
        e = json.loads(ln)
        if e["e"] == "src":
            cur = [e]
        else:
            cur.append(e)
            if len(cur) == 2 and (e["dir"]["frags"] or "manifest.json.tmp" in e["dir"]["temps"]) and e["how"] != "returned":
                nt += 1
                if sample is None and len(e["dir"]["frags"]) >= 2:
                    sample = cur
    ctx.cov["distinct_nontrivial"] += nt
    if sample and len(ctx.cov["samples"]) < 2:
        ctx.cov["samples"].append(sample)
    for hid, ev, events, pos in rejected:
        src = events[0]
        only = src["plan"]
        t1 = os.path.join(ctx.work, "one.ndjson")
        ctx.vh(["dump", "explore", "--only", json.dumps(only), "--out", t1])
        ok, stuck, _ = ctx.validate_trace(AREA, "DumpCrashTrace", t1)
        if ok:
            raise ToolFailure("UNREPRODUCED candidate scenario %s" % json.dumps(only))
        ctx.report(classify(events, pos), "scenario %s cfg=%s: run %d (%s, %s%s) leaves a directory the statement forbids: manifest=%s ckpt=%s "
                   "frags=%s temps=%s other=%s err=%s" % (
                       src["scen"], json.dumps(src["cfg"]), pos, ev["kind"], ev["how"], " ok" if ev["ok"] else "", ev["dir"]["has_manifest"],
                       ev["dir"]["has_ckpt"], [(f["path"], f["ids"]) for f in ev["dir"]["frags"]], ev["dir"]["temps"], ev["dir"]["other"],
                       ev["err"][:200]), {"only": only})


def selftest(ctx):
    trace = os.path.join(ctx.work, "t.ndjson")
    only = {"cfg": {"graphs": [{"name": "g0", "nodes": 3, "edges": 2}], "shard": 2, "batch": 2, "codec": "none"}, "K1": 12, "F1": 0, "K2": 0, "change": ""}
    ctx.vh(["dump", "explore", "--only", json.dumps(only), "--out", trace])
    ok, _, _ = ctx.validate_trace(AREA, "DumpCrashTrace", trace)
    lines = open(trace).read().splitlines()
    e = json.loads(lines[-1]); e["dir"]["frags"][0]["ids"] = e["dir"]["frags"][0]["ids"][:-1]; lines[-1] = json.dumps(e)
    open(trace, "w").write("\n".join(lines) + "\n")
    ok2, stuck, _ = ctx.validate_trace(AREA, "DumpCrashTrace", trace)
    print("selftest C19: clean accepted=%s corrupted accepted=%s stuck=%s" % (ok, ok2, stuck))
    return 0 if ok and not ok2 else 1

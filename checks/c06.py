"""C06 — translation is hygienic: user-chosen names never capture translator names.  DESIGN.md 4/C06+C05."""
import json, os, re
from lib.vcheck import ToolFailure, validate_histories, write_ndjson

AREA = "Translate"

GEN_CFG = """SPECIFICATION Spec
CONSTANTS
  VarPool = {"n0", "n1", "n2", "e0", "e1", "s0", "s1", "s2", "i0", "pi0", "pc0", "ep0", "ex0", "path", "depth", "root_id", "next_id", "satisfied", "is_cycle", "id", "kind_ids", "properties", "start_id", "end_id", "kind_id", "graph_id", "node", "edge", "kind", "graph", "select", "from", "a", "`a b`", "`n`", "`q-1`"}
  PairPool = {"n0", "n1", "e0", "s0", "s1", "i0", "path"}
  ParamPool = {"#v0", "#v1", "#v2", "n0", "pi0", "pi1", "s0", "a"}
"""


def name_class(n):
    m = re.fullmatch(r"(n|e|s|i|pi|pc|ep|ex)(\d+)", n)
    if n.startswith("`"):
        return "escaped-name"
    return "generated-identifier(%s)" % n if m else "sql-name(%s)" % n if n in ("path", "depth", "root_id", "next_id", "satisfied", "is_cycle", "id", "kind_ids", "properties", "start_id", "end_id",
                                                                              "kind_id", "graph_id", "node", "edge", "kind", "graph", "select", "from") else "plain"


def symptom(ev):
    if ev["panic"]:
        return "panic"
    if ev["base_ok"] and not ev["fresh_ok"]:
        return "fresh-names-break-translation"
    if ev["base_ok"] and not ev["twin_ok"]:
        return "renaming-breaks-translation"
    if not ev["same_shape"]:
        return "statement-changes"
    return "parameters-change"


def bad(ev):
    return (ev["base_ok"] and not (ev["fresh_ok"] and ev["twin_ok"] and not ev["panic"])) or (ev["fresh_ok"] and ev["twin_ok"] and not (ev["same_shape"] and ev["same_params"]))


def culprits(ctx, ev):
    """which of the adversarial names suffices on its own?  (re-runs the query with one symbol renamed at a time)"""
    adv, idx = ev["adversarial"], ev["index"]
    if len(adv) <= 1:
        return adv
    alone = {}
    for key, name in adv.items():
        if name.startswith("#v"):
            continue
        pat = {"vars": [], "params": []}
        side = "params" if key.startswith("param:") else "vars"
        pat[side] = [""] * idx[key] + [name]
        pp = os.path.join(ctx.work, "one-pattern.ndjson")
        write_ndjson(pp, [pat])
        t = os.path.join(ctx.work, "one-hyg.ndjson")
        ctx.vh(["trans", "hygiene", "--patterns", pp, "--out", t, "--text", ev["text"]])
        if any(bad(json.loads(ln)) for ln in open(t)):
            alone[key] = name
    return alone or adv


def run(ctx):
    quick = ctx.tier == "quick"
    ctx.assumptions += ["TLC 1.8.0 + CommunityModules",
                        "user symbols = the Symbol of every cypher.Variable (pattern variables, projection aliases, unwind and quantifier variables) and every cypher.Parameter, renamed on a "
                        "deep copy of the parsed model; the parameter map passed to Translate is re-keyed accordingly",
                        "two statements have the same shape when their SQL token sequences are equal except where the fresh-name twin shows one of its unique user names (there the other "
                        "twin must show the corresponding name): output column aliases are the only place a user name may appear",
                        "queries: the repository's corpora plus the harness's grammar-form, expression-position and multi-part texts that the parser accepts"]
    # 1. the alias-table mechanism: hygienic with a parameter namespace and alias-only lookups; the pinned shared table and the raw-first lookups are not
    r = ctx.tlc_check(AREA, "Hygiene", "Hygiene.cfg", workers=8, timeout=1200)
    if not r.clean:
        raise ToolFailure("Hygiene.tla (parameter namespace, plain names) violates Hygienic:\n" + r.out[-2000:])
    if not quick:
        r = ctx.tlc_check(AREA, "Hygiene", "HygieneAliasOnly.cfg", workers=8, timeout=1200, copy_suffix="ao")
        if not r.clean:
            raise ToolFailure("Hygiene.tla (alias-only lookups, generated-looking names) violates Hygienic")
        for cfg, why in (("HygienePinned.cfg", "one alias table for variables and parameters (pinned)"), ("HygieneGeneratedNames.cfg", "raw-first lookups with user names that look generated (the code)")):
            r2 = ctx.tlc(AREA, "Hygiene", cfg, workers=8, timeout=600, copy_suffix=cfg[:-4])
            if "Hygienic" not in r2.invariant_violated:
                raise ToolFailure("negative control failed: %s satisfies Hygienic" % cfg)
        ctx.cov["negative_control"] = "HygienePinned.cfg and HygieneGeneratedNames.cfg violate Hygienic (shared alias table; raw-first lookup of a user name that looks generated)"
    # 2. renaming patterns from the spec, applied to real queries
    g = ctx.tlc(AREA, "HygieneGen", cfg_text=GEN_CFG, workers=4, timeout=900)
    patterns = ctx.printed_json(g.out)
    if len(patterns) < 100:
        raise ToolFailure("HygieneGen printed %d patterns:\n%s" % (len(patterns), g.out[-1500:]))
    # patterns with a single adversarial name go to every query in every tier; the pairs are sampled in the quick tier
    weight = lambda p: sum(1 for x in p["vars"] + p["params"] if x)
    patterns.sort(key=lambda p: (weight(p) > 1, json.dumps(p)))
    dense = sum(1 for p in patterns if weight(p) <= 1)
    pp = os.path.join(ctx.work, "patterns.ndjson")
    write_ndjson(pp, patterns)
    trace = os.path.join(ctx.work, "hyg.ndjson")
    stride = [13, 16, 17, 19][ctx.seed % 4] if quick else 3
    ctx.grammar_corpus(stride=24 if quick else 16, skstride=8 if quick else 6)
    ctx.vh(["trans", "hygiene", "--patterns", pp, "--out", trace, "--stride", str(stride), "--dense", str(dense)], timeout=3000)
    n_ok, rejected = validate_histories(ctx, AREA, "TransTrace", trace, chunk_events=60000, max_cand=400, parallel=12)
    ctx.cov["traces_validated_against_impl"] += n_ok
    ctx.cov["evaluations"] += n_ok + len(rejected)
    translatable = adversarial = 0
    sample = []
    for ln in open(trace):
        e = json.loads(ln)
        if e["base_ok"]:
            translatable += 1
            if e["adversarial"]:
                adversarial += 1
                if len(sample) < 2 and len(e["adversarial"]) == 2:
                    sample.append({k: e[k] for k in ("text", "adversarial", "twin_ok", "same_shape", "same_params")})
    ctx.cov["patterns"] = len(patterns)
    ctx.cov["stride"] = stride
    ctx.cov["twins_of_translatable_queries"] = translatable
    ctx.cov["distinct_nontrivial"] = adversarial
    ctx.cov["samples"] += sample
    ctx.cov["exhaustive"] = False
    ctx.cov["rule"] = ("%d renaming patterns (<= 2 adversarial names on the first three variable symbols, <= 1 on the first two parameter symbols; names from the generated-identifier "
                       "space, the emitted SQL's own column / table names, and cross-namespace collisions) x every accepted corpus query, every pair for the %d single-name patterns and every %d-th pair for the rest; each twin is compared with the "
                       "fresh-name twin of the same query.  non-trivial = twins of translatable queries with at least one adversarial name" % (len(patterns), dense, stride))
    seen = set()
    known_culprits = {}
    n_min = 0
    for hid, ev, events, pos in rejected:
        sym = symptom(ev)
        pre = "%s/%s" % (sym, re.sub(r"[^a-z ]", "", (ev["twin_err"] or ev["diff"] or ev["panicmsg"]).lower().split(":")[0])[:50].strip().replace(" ", "-"))
        # the same symptom with a culprit already established that this renaming contains: the same finding, no need to minimise again
        if any(all(ev["adversarial"].get(k) == v for k, v in c.items()) for c in known_culprits.get(pre, [])):
            continue
        # minimisation re-runs the translator; when very many distinct renamings fail (a tree that is broken wholesale) the first
        # 25 are minimised and the rest are reported with the whole renaming as they stand
        n_min += 1
        cul = culprits(ctx, ev) if n_min <= 25 else {k: v for k, v in ev["adversarial"].items() if not v.startswith("#v")} or ev["adversarial"]
        known_culprits.setdefault(pre, []).append(cul)
        key = "%s/%s" % (pre, "+".join(sorted("%s=%s" % (k.split(":")[0], name_class(v)) for k, v in cul.items())))
        if key in seen:
            continue
        seen.add(key)
        ctx.report(key, "%r renamed %s (culprit: %s): base translates=%s, fresh-name twin=%s, renamed twin=%s panic=%s err=%r same statement=%s (%s) same parameters=%s" % (
            ev["text"][:160], ev["adversarial"], cul, ev["base_ok"], ev["fresh_ok"], ev["twin_ok"], ev["panicmsg"] or False, ev["twin_err"], ev["same_shape"], ev["diff"], ev["same_params"]),
            {"text": ev["text"], "vars": ev["vars"], "params": ev["params"]})


def selftest(ctx):
    pp = os.path.join(ctx.work, "p.ndjson")
    write_ndjson(pp, [{"vars": ["n0"], "params": []}, {"vars": [], "params": ["#v0"]}])
    t = os.path.join(ctx.work, "t.ndjson")
    ctx.vh(["trans", "hygiene", "--patterns", pp, "--out", t, "--limit", "60"])
    ok, _, _ = ctx.validate_trace(AREA, "TransTrace", t)
    lines = open(t).read().splitlines()
    i = next(i for i, ln in enumerate(lines) if json.loads(ln)["twin_ok"])
    e = json.loads(lines[i]); e["same_shape"] = False; lines[i] = json.dumps(e)
    open(t, "w").write("\n".join(lines) + "\n")
    ok2, stuck, _ = ctx.validate_trace(AREA, "TransTrace", t)
    print("selftest C06: clean accepted=%s corrupted accepted=%s stuck=%s" % (ok, ok2, stuck))
    return 0 if ok and not ok2 else 1

"""C20 — corrupt, tampered or hostile dump input is rejected before it can do harm.  DESIGN.md 4/C20."""
import json, os, re
from lib.vcheck import ToolFailure, validate_histories, write_ndjson

AREA = "Retriever"


def part_of(what):
    m = re.match(r"(flip|truncate|append garbage to|remove|substitute|swap) (\S+)", what)
    if m:
        tgt = m.group(2)
        if tgt.startswith("archive"):
            return m.group(1) + "/" + tgt.split("@")[0]
        if "manifest.json" in tgt:
            return m.group(1) + "/manifest"
        return m.group(1) + "/fragment"
    if what.startswith("manifest edit:"):
        return "manifest-edit/" + what.split(":", 1)[1].strip().replace(" ", "-")
    if what.startswith("enveloped:"):
        return "hostile-tar/" + what.split(":", 1)[1].strip().replace(" ", "-")
    return re.sub(r"-?\d+(-of-\d+)?", "", what.split("@")[0].replace(" ", "-")).strip("-").replace("--", "-")


def classify(ev):
    clause = "accepted" if ev["ok"] and ev["class"] != "lenient" else \
        "accepted-with-different-result" if ev["ok"] else \
        "database-written-before-rejection" if (ev["nodewrites"] or ev["relwrites"]) else \
        "partial-output-left" if ev["newfiles"] else "error-path"
    if ev["outside"]:
        clause = "wrote-outside-output-directory"
    return "%s/%s/%s" % (ev["api"], part_of(ev["what"]), clause)


def run(ctx):
    quick = ctx.tier == "quick"
    ctx.level = "fault_enumeration"
    ctx.assumptions += ["TLC 1.8.0 + CommunityModules", "artefacts (dump directory, tar, encrypted archive, key files) are built by the real writers from "
                        "a 3-node / 2-relationship database per codec", "class of a tampered byte is decided by what protects it: strict = fragment bytes, "
                        "any archive byte, a manifest change that alters the fields the loader consumes; lenient = manifest bytes outside them",
                        "in-place unpack APIs may leave partial output inside the directory they were told to write into"]
    r = ctx.tlc_check(AREA, "DumpLoad", workers=12, timeout=1500)     # NoWriteBeforeVerified / NothingWrittenOnCorruption
    if not r.clean:
        raise ToolFailure("DumpLoad M-spec failed:\n" + r.out[-2500:])
    trace = os.path.join(ctx.work, "attack.ndjson")
    if ctx.replay:
        rep = json.load(open(ctx.replay))["replay"]
        args = ["dump", "attack", "--out", trace, "--stride", str(rep["stride"]), "--seed", str(rep["seed"]), "--codecs", rep["codec"]]
    else:
        args = ["dump", "attack", "--out", trace, "--stride", "11" if quick else "1", "--seed", str(ctx.seed)]
    p = ctx.vh(args, timeout=3000)
    if "escaped" in p.stdout:
        ctx.notes.append("harness found an escaped file: " + p.stdout[:300])
    # one history per attack: the src event is repeated in front of each so that rejections are independent
    lines = [json.loads(x) for x in open(trace)]
    src = {e["hid"]: e for e in lines if e["e"] == "src"}
    flat, n = [], 0
    for e in lines:
        if e["e"] != "attack":
            continue
        s = dict(src[e["hid"]]); s["hid"] = n
        e2 = dict(e); e2["hid"] = n; e2["orig_hid"] = e["hid"]
        flat += [s, e2]
        n += 1
    t2 = os.path.join(ctx.work, "attack-flat.ndjson")
    write_ndjson(t2, flat)
    n_ok, rejected = validate_histories(ctx, AREA, "LoadTrace", t2, chunk_events=20000, max_cand=25, parallel=8)
    ctx.cov["traces_validated_against_impl"] += n_ok
    ctx.cov["evaluations"] += n_ok + len(rejected)
    kinds = {}
    for e in lines:
        if e["e"] == "attack":
            k = (e["api"], part_of(e["what"]).split("/")[0], e["class"], e["ok"])
            kinds[k] = kinds.get(k, 0) + 1
    ctx.cov["distinct_nontrivial"] = len(kinds)
    ctx.cov["attack_classes"] = [{"api": k[0], "mutation": k[1], "class": k[2], "accepted": k[3], "n": v} for k, v in sorted(kinds.items())]
    ctx.cov["samples"] += [e for e in lines if e["e"] == "attack"][5:8]
    seen = set()
    for hid, ev, events, pos in rejected:
        key = classify(ev)
        if key in seen:
            continue
        seen.add(key)
        # deterministic given (codec, stride, seed): re-run that codec and look the same attack up again
        t3 = os.path.join(ctx.work, "again.ndjson")
        stride = "11" if quick else "1"
        if ctx.replay:
            stride = str(rep["stride"])
        ctx.vh(["dump", "attack", "--out", t3, "--stride", stride, "--seed", str(ctx.seed if not ctx.replay else rep["seed"]), "--codecs", ev["codec"]], timeout=3000)
        again = [json.loads(x) for x in open(t3)]
        same = [e for e in again if e["e"] == "attack" and e["api"] == ev["api"] and e["what"] == ev["what"]]
        if not same or (same[0]["ok"], same[0]["nodewrites"], same[0]["newfiles"], same[0]["outside"], same[0]["same"]) != \
                (ev["ok"], ev["nodewrites"], ev["newfiles"], ev["outside"], ev["same"]):
            raise ToolFailure("UNREPRODUCED attack candidate %s / %s" % (ev["api"], ev["what"]))
        ctx.report(key, "%s given '%s' (%s, codec %s): ok=%s err=%s nodewrites=%s relwrites=%s newfiles=%s outside=%s same=%s" % (
            ev["api"], ev["what"], ev["class"], ev["codec"], ev["ok"], ev["err"], ev["nodewrites"], ev["relwrites"], ev["newfiles"], ev["outside"], ev["same"]),
            {"codec": ev["codec"], "stride": int(stride), "seed": ctx.seed, "what": ev["what"], "api": ev["api"]})
    ctx.cov["exhaustive"] = not quick
    ctx.cov["rule"] = ("per codec: every %s byte offset of every file of the dump directory flipped, truncations, appended garbage, removed / swapped / "
                       "substituted fragments, 14 structural manifest edits -> Load; every such offset of the encrypted archive flipped, truncations, "
                       "appended data, dropped / duplicated / swapped / foreign frames, wrong key, flipped key-file bytes -> in-place unpack, staged "
                       "unpack, Load from archive; 17 hostile tar streams (absolute, parent, volume, backslash paths, links, devices, duplicates, "
                       "oversize, extra files) -> plain tar extractor and, enveloped, the archive consumers.  distinct_nontrivial = distinct "
                       "(API, mutation kind, class, outcome) combinations observed" % ("11th" if quick else "single"))


def selftest(ctx):
    trace = os.path.join(ctx.work, "a.ndjson")
    ctx.vh(["dump", "attack", "--out", trace, "--stride", "97", "--codecs", "none"])
    ok, _, _ = ctx.validate_trace(AREA, "LoadTrace", trace)
    lines = open(trace).read().splitlines()
    for i, ln in enumerate(lines):
        e = json.loads(ln)
        if e["e"] == "attack" and e["class"] == "strict" and not e["ok"]:
            e["nodewrites"] = 1
            lines[i] = json.dumps(e)
            break
    open(trace, "w").write("\n".join(lines) + "\n")
    ok2, stuck, _ = ctx.validate_trace(AREA, "LoadTrace", trace)
    print("selftest C20: clean accepted=%s corrupted accepted=%s stuck=%s" % (ok, ok2, stuck))
    return 0 if ok and not ok2 else 1

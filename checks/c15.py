"""C15 — reachability answers equal true reachability regardless of query history.  DESIGN.md 4/C15."""
import json, os
from lib.vcheck import ToolFailure, validate_histories, write_ndjson

AREA = "Reach"


def gen_cfg(mode, k, caps, qlen, dirs):
    return """SPECIFICATION GSpec
CONSTANTS
  Mode = "%s"
  K = %d
  Caps = {%s}
  QLen = %d
  Dirs = {%s}
CHECK_DEADLOCK FALSE
""" % (mode, k, ", ".join(map(str, caps)), qlen, ", ".join('"%s"' % d for d in dirs))


def rand_cfg():
    return """SPECIFICATION GSpec
CONSTANTS
  NMin = 6
  NMax = 12
  Caps = {1, 2, 3, 4}
  MaxQ = 5
  Dirs = {"out", "in"}
  EdgeFactor = 3
  BackMax = 2
CHECK_DEADLOCK FALSE
"""


def classify(events, pos):
    ev = events[pos]
    g = events[0]
    if ev.get("panic"):
        return "%s/panic" % ev["e"]
    if ev["e"] == "scc":
        return "scc/partition-or-component-graph"
    if ev["e"] == "reach":
        # was this answer computed by a search (first question about that component/direction) or read from the cache?
        earlier = [e for e in events[2:pos] if e["e"] == "reach" and e["dir"] == ev["dir"]]
        return "reach/%s/%s" % (ev["dir"], "after-earlier-queries" if earlier else "first-query")
    if ev["e"] == "can":
        return "can/%s" % ev["dir"]
    return "%s/%s" % (ev["e"], ev["dir"])


def batch(ctx, hist_path, tag, containers, variant=None):
    trace = os.path.join(ctx.work, "trace-%s.ndjson" % tag)
    args = ["reach", "replay", "--in", hist_path, "--out", trace, "--seed", str(ctx.seed), "--containers", containers]
    if variant is not None:
        args += ["--variant", str(variant)]
    ctx.vh(args, timeout=1800)
    n_ok, rejected = validate_histories(ctx, AREA, "ReachTrace", trace, chunk_events=300000, max_cand=10, parallel=8)
    ctx.cov["traces_validated_against_impl"] += n_ok
    ctx.cov["evaluations"] += n_ok + len(rejected)
    nt = 0
    sample = None
    cur = None
    for ln in open(trace):
        e = json.loads(ln)
        if e["e"] == "graph":
            cur = [e]
            # non-trivial: at least one node with two parents whose sub-reach is non-empty (diamond-like) or a cycle
            indeg = {}
            for a, b in e["edges"]:
                if a != b:
                    indeg[b] = indeg.get(b, 0) + 1
            if any(v >= 2 for v in indeg.values()) or any(a == b for a, b in e["edges"]):
                nt += 1
                if sample is None and len(e["edges"]) >= 5:
                    sample = cur
        elif cur is not None:
            cur.append(e)
    ctx.cov["distinct_nontrivial"] += nt
    if sample and len(ctx.cov["samples"]) < 3:
        ctx.cov["samples"].append([{k: v for k, v in x.items() if k not in ("hid", "hi")} for x in sample[:12]])
    hists = open(hist_path).read().splitlines()
    for hid, ev, events, pos in rejected:
        hi = events[0]["hi"]
        one = os.path.join(ctx.work, "one.ndjson")
        open(one, "w").write(hists[hi] + "\n")
        t1 = os.path.join(ctx.work, "one-trace.ndjson")
        # same variant (lifting + embedding) as in the batch: variant = hi*7 + seed*13
        v = (hi * 7 + ctx.seed * 13) if variant is None else variant
        ctx.vh(["reach", "replay", "--in", one, "--out", t1, "--containers", events[0]["container"], "--variant", str(v)])
        ok, stuck, _ = ctx.validate_trace(AREA, "ReachTrace", t1)
        if ok:
            raise ToolFailure("UNREPRODUCED candidate %s" % hists[hi])
        ctx.report(classify(events, pos), "%s graph nodes=%s edges=%s cap=%s: event %s is not plain reachability (history %s)" % (
            events[0]["container"], events[0]["nodes"], events[0]["edges"], events[0]["cap"], json.dumps({k: v for k, v in ev.items() if k not in ("hid", "hi")}), hists[hi]),
            {"history": json.loads(hists[hi]), "variant": v, "container": events[0]["container"]})


def run(ctx):
    quick = ctx.tier == "quick"
    ctx.assumptions += ["TLC 1.8.0 + CommunityModules", "harness: abstract node ids embedded into uint64 (dense / gapped and reversed / above 2^32 "
                        "scrambled); answers read back through the public API and logged as abstract ids",
                        "component graph logged through algo.NewComponentGraph (the constructor the cache itself uses)"]
    if ctx.replay:
        rep = json.load(open(ctx.replay))["replay"]
        hp = os.path.join(ctx.work, "h.ndjson")
        open(hp, "w").write(json.dumps(rep["history"]) + "\n")
        batch(ctx, hp, "replay", rep.get("container", "both"), variant=rep.get("variant"))
        return
    # 1. exhaustive: DFS + cache mechanism (as repaired) over all DAGs on 5 components, eviction anywhere
    for cap in ([2] if quick else [1, 2, 5]):
        r = ctx.tlc_check(AREA, "ReachCache", "ReachCache_c%d.cfg" % cap, workers=12, timeout=1500)
        if not r.clean:
            raise ToolFailure("ReachCache (Fixed=TRUE, capacity %d) failed:\n%s" % (cap, r.out[-2500:]))
    if not quick:
        r = ctx.tlc(AREA, "ReachCache", "ReachCachePinned.cfg", workers=12, timeout=600)
        if "CacheSound" not in r.invariant_violated:
            raise ToolFailure("negative control failed: pinned DFS model satisfies CacheSound")
        ctx.cov["negative_control"] = "ReachCachePinned.cfg (every popped cursor cached) violates CacheSound as expected"
    # 2. generated histories
    plans = []
    if quick:
        plans = [("dag", 5, [1, 2, 5], 2, ["out"], "rotate"), ("dag", 4, [1, 2], 2, ["out", "in"], "rotate"), ("nodes", 3, [1, 2], 0, ["out"], "both")]
    else:
        plans = [("dag", 5, [1, 2, 5], 2, ["out", "in"], "rotate"), ("dag", 5, [1, 2], 3, ["out"], "rotate"),
                 ("nodes", 3, [1, 2, 3], 0, ["out"], "both"), ("nodes", 4, [2], 0, ["out"], "rotate")]
    for i, (mode, k, caps, qlen, dirs, conts) in enumerate(plans):
        r = ctx.tlc(AREA, "ReachGen", cfg_text=gen_cfg(mode, k, caps, qlen, dirs), workers=8, timeout=1800)
        if not r.clean:
            raise ToolFailure("generator failed: " + r.out[-2000:])
        hp = os.path.join(ctx.work, "hist-%d.ndjson" % i)
        write_ndjson(hp, ctx.printed_json(r.out))
        batch(ctx, hp, "p%d" % i, conts)
        os.unlink(hp)
    # 3. sampled larger graphs (6..12 nodes, DAG-leaning with up to two back edges, capacities 1..4, 1..5 queries, then every
    #    reach and every can-reach pair): the bidirectional component search and the partial-reach rule only meet their hard
    #    cases on graphs with fan-out and diamonds that 5 components do not have
    n_rand = 300 if quick else 3000
    r = ctx.tlc(AREA, "ReachRandGen", cfg_text=rand_cfg(), workers=1, simulate="num=%d" % n_rand, depth=60, timeout=1800)
    hp = os.path.join(ctx.work, "hist-rand.ndjson")
    hs = ctx.printed_json(r.out)
    if len(hs) < n_rand // 2:
        raise ToolFailure("random generator produced %d histories: %s" % (len(hs), r.out[-1500:]))
    write_ndjson(hp, hs)
    batch(ctx, hp, "rand", "rotate")
    os.unlink(hp)
    ctx.cov["sampled_large_graphs"] = len(hs)
    ctx.cov["exhaustive"] = True
    ctx.cov["rule"] = ("generated (mode, size, capacities, query-sequence length, directions, containers) = %s.  dag mode: every DAG on K "
                       "components x every query sequence, components lifted to single nodes or 2-cycles, followed by a sweep that reads "
                       "every cache entry back plus can/or/xor questions; nodes mode: every digraph on N nodes incl. self loops with every "
                       "question; plus %d sampled histories (tlc -simulate of ReachRandGen) on DAG-leaning graphs of 6..12 nodes with n-2..3n edges, at most two of them backwards, capacities 1..4, 1..5 queries followed by every reach and can-reach question.  non-trivial = some node has two distinct parents or the graph has a cycle" % (plans, n_rand))


def selftest(ctx):
    hp = os.path.join(ctx.work, "h.ndjson")
    open(hp, "w").write(json.dumps({"mode": "dag", "k": 5, "edges": [[0, 1], [0, 2], [1, 3], [2, 3], [3, 4]], "cap": 5,
                                    "qs": [[0, "out"], [2, "out"]]}) + "\n")
    t = os.path.join(ctx.work, "t.ndjson")
    ctx.vh(["reach", "replay", "--in", hp, "--out", t, "--containers", "adj", "--variant", "0"])
    ok, _, _ = ctx.validate_trace(AREA, "ReachTrace", t)
    lines = open(t).read().splitlines()
    e = json.loads(lines[3]); e["ans"] = [x for x in e["ans"] if x != 4]; lines[3] = json.dumps(e)
    open(t, "w").write("\n".join(lines) + "\n")
    ok2, stuck, _ = ctx.validate_trace(AREA, "ReachTrace", t)
    print("selftest C15: clean accepted=%s corrupted accepted=%s stuck=%s" % (ok, ok2, stuck))
    return 0 if ok and not ok2 else 1

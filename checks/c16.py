"""C16 — caches are bounded, coherent and safe under concurrent use.  DESIGN.md section 4/C16."""
import json, os, re
from lib.vcheck import ToolFailure, write_ndjson, validate_histories

AREA = "Cache"


def gen_cfg(depth, caps, keys=3):
    ks = ", ".join('"k%d"' % i for i in range(1, keys + 1))
    return """SPECIFICATION GSpec
CONSTANTS
  Keys = {%s}
  KeySeq <- McKeySeq%d
  Vals = {1, 2}
  RawCaps = {%s}
  Depth = %d
INVARIANTS TypeOK
CHECK_DEADLOCK FALSE
""" % (ks, keys, ", ".join(str(c) for c in caps), depth)


def classify(variant, ev):
    if ev.get("panic"):
        return "%s/%s/panic" % (variant, ev["e"])
    if ev["e"] == "get" or ev["e"] == "resp":
        return "%s/get/%s" % (variant, "wrong-hit" if ev.get("hit") else "miss-or-size")
    if ev["e"] == "deadlock":
        return "%s/deadlock" % variant
    return "%s/%s/size-or-capacity" % (variant, ev["e"])


def nontrivial(events, cap_of):
    """a sequential history is non-trivial when a put met a full cache (eviction or drop) or a delete removed
    something"""
    prev = 0
    for e in events:
        if e["e"] == "put" and e["size"] == prev and prev >= 1:
            # size did not grow: update of an existing key or eviction/drop
            pass
        prev = e.get("size", prev)
    sizes = [e.get("size", 0) for e in events if e["e"] in ("put", "del", "get")]
    full_put = any(events[i]["e"] == "put" and i > 0 and events[i - 1].get("size", 0) >= cap_of
                   for i in range(1, len(events)))
    deleted = any(events[i]["e"] == "del" and events[i]["size"] < events[i - 1].get("size", 0)
                  for i in range(1, len(events)))
    return full_put or deleted


def effcap(variant, raw):
    return (1 if raw <= 0 else raw) if variant == "sieve" else (0 if raw <= 0 else raw)


def replay_and_validate(ctx, hist_path, variant, nkeys, tag):
    trace = os.path.join(ctx.work, "trace-%s-%s.ndjson" % (variant, tag))
    ctx.vh(["cache", "replay", "--in", hist_path, "--out", trace, "--variant", variant, "--keys", str(nkeys)])
    n_ok, rejected = validate_histories(ctx, AREA, "CacheTrace", trace)
    # stats
    seen, nt = set(), 0
    cur, cap = [], 0
    sample = None
    for ln in open(trace):
        e = json.loads(ln)
        if e["e"] == "reset":
            if cur:
                sig = json.dumps([(x["e"], x.get("k"), x.get("v")) for x in cur]) + str(cap)
                if sig not in seen and nontrivial(cur, cap):
                    seen.add(sig)
                if sample is None and nontrivial(cur, cap):
                    sample = [dict(x) for x in cur]
            cur, cap = [e], effcap(variant, e["rawcap"])
        else:
            cur.append(e)
    ctx.cov["traces_validated_against_impl"] += n_ok
    ctx.cov["evaluations"] += n_ok + len(rejected)
    ctx.cov["distinct_nontrivial"] += len(seen)
    if sample and len(ctx.cov["samples"]) < 4:
        ctx.cov["samples"].append({"variant": variant, "events": [
            {k: v for k, v in x.items() if k in ("e", "k", "v", "hit", "size", "rawcap", "variant")} for x in sample]})
    # confirm candidates in isolation
    hists = open(hist_path).read().splitlines()
    for hid, ev, events, pos in rejected:
        one = os.path.join(ctx.work, "one-%s-%s.ndjson" % (variant, hid))
        open(one, "w").write(hists[hid] + "\n")
        t1 = os.path.join(ctx.work, "one-trace.ndjson")
        ctx.vh(["cache", "replay", "--in", one, "--out", t1, "--variant", variant, "--keys", str(nkeys)])
        ok, stuck, _ = ctx.validate_trace(AREA, "CacheTrace", t1)
        if ok:
            raise ToolFailure("UNREPRODUCED candidate for history %s (%s)" % (hid, variant))
        ctx.report(classify(variant, ev), "cache %s: history %s rejected by CacheProp at event %s" % (
            variant, hists[hid], json.dumps(ev)), {"variant": variant, "history": json.loads(hists[hid])})
    # drift vs the exact mechanism model (never a verdict)
    mod = "SieveTrace" if variant == "sieve" else "NeMapTrace"
    if not rejected:
        _, drift = validate_histories(ctx, AREA, mod, trace, max_cand=1)
        if drift:
            ctx.cov["model_drift"] += len(drift)
            ctx.notes.append("model_drift: %s rejects history %s of the %s trace that CacheProp accepts; the exhaustive "
                             "result of %s no longer speaks about this code" % (mod, json.dumps(drift[0][2])[:600], variant, mod))


def concurrent(ctx, variant, n, threads, ops):
    trace = os.path.join(ctx.work, "conc-%s.ndjson" % variant)
    args = ["cache", "conc", "--n", str(n), "--threads", str(threads), "--ops", str(ops), "--out", trace,
            "--variant", variant, "--seed", str(ctx.seed)]
    p = ctx.vh(args, race=True, check=False, timeout=900)
    race = "DATA RACE" in p.stdout
    if p.returncode not in (0, 66) or (p.returncode == 66 and not race):
        raise ToolFailure("vh cache conc failed: %s" % p.stdout[-2000:])
    if race:
        m = re.search(r"WARNING: DATA RACE(.*?)={10,}", p.stdout, re.S)
        txt = m.group(1) if m else p.stdout[:3000]
        if "/cache/" in txt:     # a race inside the repository's cache package (race detector has no false positives)
            ctx.report("%s/data-race" % variant, "race detector: " + txt[:1500], {"variant": variant, "args": args})
        else:
            raise ToolFailure("race outside the cache package (harness bug?):\n" + txt[:2000])
    from lib.vcheck import validate_histories
    n_ok, rejected = validate_histories(ctx, AREA, "CacheLinTrace", trace, max_cand=6)
    ctx.cov["traces_validated_against_impl"] += n_ok
    ctx.cov["evaluations"] += n_ok + len(rejected)
    # non-trivial: histories where at least two operations overlap in real time
    overl = 0
    cur_open, was = 0, False
    sample = None
    cur = []
    for ln in open(trace):
        e = json.loads(ln)
        if e["e"] == "reset":
            if was:
                overl += 1
                if sample is None:
                    sample = cur
            cur_open, was, cur = 0, False, [e]
            continue
        cur.append(e)
        if e["e"] == "inv" and e["t"] < 100:
            cur_open += 1
            if cur_open >= 2:
                was = True
        elif e["e"] == "resp" and e["t"] < 100:
            cur_open -= 1
    if was:
        overl += 1
    ctx.cov["distinct_nontrivial"] += overl
    ctx.cov.setdefault("concurrent_overlapping_histories", 0)
    ctx.cov["concurrent_overlapping_histories"] += overl
    if sample and len(ctx.cov["samples"]) < 6:
        ctx.cov["samples"].append({"variant": variant, "concurrent": [
            {k: v for k, v in x.items() if k in ("e", "t", "op", "k", "v", "hit", "size")} for x in sample]})
    for hid, ev, events, pos in rejected:
        # a free-running concurrent history cannot be replayed exactly; the recorded history itself is the
        # witness: it is a completed real execution that no linearisation explains.  Re-validate it alone.
        one = os.path.join(ctx.work, "one-conc.ndjson")
        write_ndjson(one, events)
        ok, stuck, _ = ctx.validate_trace(AREA, "CacheLinTrace", one)
        if ok:
            raise ToolFailure("UNREPRODUCED concurrent candidate %s" % hid)
        ctx.report(classify(variant, ev) + "/concurrent", "cache %s: concurrent history not linearizable: %s" % (
            variant, json.dumps(events)[:1500]), {"variant": variant, "events": events})


def run(ctx):
    quick = ctx.tier == "quick"
    ctx.assumptions += ["TLC 1.8.0 and CommunityModules Json", "Go race detector",
                        "harness projection: results and Stats().Size() logged at call return",
                        "keys are interchangeable (generic K): histories enumerated up to key renaming"]
    # 1. exhaustive model checking of the mechanism specs against the P-spec
    for mod in ("Sieve", "NeMap"):
        r = ctx.tlc_check(AREA, mod, workers=8, coverage=not quick)
        if not r.clean:
            raise ToolFailure("%s.tla does not refine CacheProp any more:\n%s" % (mod, r.out[-2500:]))
    conc_cfg = None
    if not quick:
        conc_cfg = """SPECIFICATION Spec
CONSTANTS
  Keys = {"k1", "k2"}
  Vals = {1, 2}
  RawCaps = {1, 2}
  Clients = {"c1", "c2", "c3"}
  OpsPerClient = 1
INVARIANTS TypeOK MutualExclusion EntryStable GetCoherent NoDeadlock
PROPERTIES Terminates
CHECK_DEADLOCK FALSE
"""
        r = ctx.tlc_check(AREA, "SieveConc", cfg_text=conc_cfg, workers=12, timeout=1500)
        if not r.clean:
            raise ToolFailure("SieveConc (3 clients) failed:\n" + r.out[-2500:])
    r = ctx.tlc_check(AREA, "SieveConc", workers=8)
    if not r.clean:
        raise ToolFailure("SieveConc failed:\n" + r.out[-2500:])
    # 2. generate histories from the M-spec
    plans = [(4, [0, 1, 2, 3])] if quick else [(6, [1, 2]), (5, [0, 3])]
    hist = os.path.join(ctx.work, "hist.ndjson")
    with open(hist, "w") as f:
        n = 0
        if ctx.replay:
            rep = json.load(open(ctx.replay))["replay"]
            if "history" in rep:
                f.write(json.dumps(rep["history"]) + "\n")
                n = 1
        else:
            for depth, caps in plans:
                r = ctx.tlc(AREA, "SieveGen", cfg_text=gen_cfg(depth, caps), workers=8, timeout=1500)
                if not r.clean:
                    raise ToolFailure("generator failed: " + r.out[-2000:])
                for h in ctx.printed_json(r.out):
                    f.write(json.dumps(h) + "\n")
                    n += 1
            # long random walks of the M-spec (4 keys, deeper)
            walks = 2000 if quick else 20000
            r = ctx.tlc(AREA, "SieveGen", cfg_text=gen_cfg(12, [1, 2, 3, 4], keys=4), workers=1,
                        simulate="num=%d" % walks, depth=13, timeout=900)
            for h in ctx.printed_json(r.out):
                f.write(json.dumps(h) + "\n")
                n += 1
    if n == 0:
        raise ToolFailure("no histories generated")
    ctx.cov["exhaustive"] = not ctx.replay
    ctx.cov["rule"] = ("all SIEVE M-spec histories of (operations, raw capacities) = %s over 3 keys (canonical key order) x 2 "
                       "values, plus random M-spec walks of 12 operations over 4 keys, each replayed on "
                       "both cache implementations with a final probe sweep and a pressure tail (capacity+2 puts of fresh keys, then a read-back of every key); concurrent free-running histories under "
                       "-race.  non-trivial = a put met a full cache or a delete removed an entry (sequential); "
                       "two operations overlapped in real time (concurrent)" % (plans,))
    # 3./4. replay on the real code, validate against the P-spec
    for variant in ("sieve", "nemap"):
        replay_and_validate(ctx, hist, variant, 4, "gen")
    if not ctx.replay:
        for variant in ("sieve", "nemap"):
            concurrent(ctx, variant, 2000 if quick else 12000, 3, 3)


def selftest(ctx):
    """binding self-test: corrupt one recorded field and show the trace is rejected"""
    hist = os.path.join(ctx.work, "hist.ndjson")
    open(hist, "w").write(json.dumps({"rawcap": 2, "ops": [{"op": "put", "k": "k1", "v": 1}, {"op": "put", "k": "k2", "v": 2},
                                                         {"op": "put", "k": "k3", "v": 1}, {"op": "get", "k": "k3", "v": 0}]}) + "\n")
    trace = os.path.join(ctx.work, "t.ndjson")
    ctx.vh(["cache", "replay", "--in", hist, "--out", trace, "--variant", "sieve", "--keys", "3"])
    ok, _, _ = ctx.validate_trace(AREA, "CacheTrace", trace)
    lines = open(trace).read().splitlines()
    e = json.loads(lines[4]); e["v"] = 2; lines[4] = json.dumps(e)
    open(trace, "w").write("\n".join(lines) + "\n")
    ok2, stuck, _ = ctx.validate_trace(AREA, "CacheTrace", trace)
    print("selftest C16: clean accepted=%s corrupted accepted=%s stuck=%s" % (ok, ok2, stuck))
    return 0 if ok and not ok2 else 1

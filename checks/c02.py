"""C02 — query optimisation never changes what a translated query returns.  PARTIAL: the Cypher half only (the
optimiser's rewrites of the query model); the SQL half needs the SQL executed.  DESIGN.md 4/C02, section 5."""
import json, os
from lib.vcheck import ToolFailure, validate_histories, write_ndjson

AREA = "CypherSem"


def graph_cfg(max_edges):
    return "SPECIFICATION Spec\nCONSTANTS\n  MinN = 2\n  MaxN = 3\n  MaxEdges = %d\n  EdgeKinds = 2\n" % max_edges


def classify(ev, events, pos):
    pair = events[0]
    rules = "+".join(r for r in pair["rules"] if r != "PredicateAttachment") or "no-rule-recorded"
    clauses = [c for p in pair["orig"]["parts"] for c in p["clauses"]]
    shape = "%d-parts/%d-clauses%s%s%s" % (len(pair["orig"]["parts"]), len(clauses), "/optional" if any(c["t"] == "optional" for c in clauses) else "",
                                   "/path-variable" if any(p["pv"] for c in clauses for p in c["pats"]) else "",
                                   "/variable-length" if any(not e.get("single", True) for c in clauses for p in c["pats"] for e in p["els"] if e["t"] == "rel") else "")
    return "rewrite-changes-results/%s/%s" % (rules, shape)


def run(ctx):
    quick = ctx.tier == "quick"
    ctx.assumptions += ["TLC 1.8.0 + CommunityModules",
                        "PARTIAL: only the optimiser's rewrites of the query model (clause reordering, inbound traversal reversal) are decided; the lowerings applied while emitting "
                        "SQL (projection pruning, pushdowns, fast paths, ...) need the optimised and unoptimised SQL executed on PostgreSQL, which the sandbox does not have",
                        "semantics: spec/CypherSem/MatchSem.tla - MATCH / OPTIONAL MATCH sequences, kinds, directions, variable-length ranges, path variables, relationship uniqueness per "
                        "MATCH; WHERE conditions and inline property maps are uninterpreted atoms over the variables they mention (the rewrites never change a condition)",
                        "query parts are evaluated up to the first WITH that does more than hand variables on (DISTINCT, aggregation, ORDER BY, SKIP, LIMIT, WHERE, expressions); shortest-path patterns, UNWIND and updating clauses are outside the fragment",
                        "graphs: every graph with 2-3 nodes (kind sets {1},{2},{1,2}) and up to 2 (quick) / 3 (thorough) edges of 2 kinds, self loops and 2-cycles included; a pair is "
                        "evaluated on a deterministic sample of them"]
    # 1. the semantics' own unit checks
    r = ctx.tlc(AREA, "MatchSemTest", "MatchSemTest.cfg", workers=1, timeout=600)
    if not r.clean:
        raise ToolFailure("MatchSemTest failed:\n" + r.out[-2000:])
    # 2. graphs and query skeletons from TLC
    g = ctx.tlc(AREA, "GraphGen", cfg_text=graph_cfg(2 if quick else 3), workers=4, timeout=1800)
    graphs = ctx.printed_json(g.out)
    if len(graphs) < 1000:
        raise ToolFailure("GraphGen printed %d graphs:\n%s" % (len(graphs), g.out[-1500:]))
    gp = os.path.join(ctx.work, "graphs.ndjson")
    write_ndjson(gp, graphs)
    skeletons = []
    # two families: every shape (the reversal rule wants chains), and anchors + single steps only (the reordering rule wants several independent anchors)
    for shapes, num in (('{"node", "step", "var", "chain", "chain3"}', 600 if quick else 5000), ('{"node", "step"}', 500 if quick else 4000)):
        s = ctx.tlc(AREA, "QueryGen", cfg_text='SPECIFICATION Spec\nCONSTANTS\n  MaxClauses = 3\n  Shapes = %s\n  Family = "random"\nCHECK_DEADLOCK FALSE\n' % shapes, workers=1,
                    simulate="num=%d" % num, depth=40, timeout=3000)
        skeletons += ctx.printed_json(s.out)
    a = ctx.tlc(AREA, "QueryGen", cfg_text='SPECIFICATION Spec\nCONSTANTS\n  MaxClauses = 3\n  Shapes = {"node", "step", "var"}\n  Family = "anchors"\nCHECK_DEADLOCK FALSE\n', workers=1, timeout=900)
    anchors = ctx.printed_json(a.out)
    skeletons += anchors if not quick else anchors[ctx.seed % 3::3]
    if len(skeletons) < 300:
        raise ToolFailure("QueryGen printed %d skeletons:\n%s" % (len(skeletons), s.out[-1500:]))
    sp = os.path.join(ctx.work, "skeletons.ndjson")
    write_ndjson(sp, skeletons)
    # 3. the real optimiser on every corpus model and every rendered skeleton; pairs it rewrote are evaluated
    trace = os.path.join(ctx.work, "pairs.ndjson")
    out = ctx.vh(["opt", "export", "--graphs", gp, "--skeletons", sp, "--out", trace, "--per-pair", "60" if quick else "400", "--seed", str(ctx.seed)], timeout=3000)
    n_ok, rejected = validate_histories(ctx, AREA, "MatchSemTrace", trace, chunk_events=3000, max_cand=60, parallel=12, timeout=3000)
    ctx.cov["traces_validated_against_impl"] += n_ok
    ctx.cov["evaluations"] += sum(1 for ln in open(trace) if '"e":"graph"' in ln)
    rules, pairs = {}, 0
    sample = None
    for ln in open(trace):
        e = json.loads(ln)
        if e["e"] == "pair":
            pairs += 1
            for rname in e["rules"]:
                rules[rname] = rules.get(rname, 0) + 1
            if sample is None and "ConservativePatternReordering" in e["rules"]:
                sample = {k: e[k] for k in ("text", "rules", "orig", "opt")}
    ctx.cov["graphs"], ctx.cov["skeletons"] = len(graphs), len(skeletons)
    ctx.cov["rewritten_pairs"] = pairs
    ctx.cov["rules_applied"] = rules
    ctx.cov["distinct_nontrivial"] = pairs
    if sample:
        ctx.cov["samples"].append(sample)
    ctx.cov["exhaustive"] = False
    ctx.cov["rule"] = ("every corpus model and every rendered skeleton goes through the real optimize.Optimize; where the exported parts come back changed, the query as written and "
                       "as rewritten are exported from the two models and must have the same bag of results on every sampled graph.  non-trivial = rewritten pairs")
    if pairs < 10:
        raise ToolFailure("only %d rewritten pairs: the skeletons no longer trigger the rewrites" % pairs)
    seen = set()
    for hid, ev, events, pos in rejected:
        key = classify(ev, events, pos)
        if key in seen:
            continue
        seen.add(key)
        ctx.report(key, "%r rewritten by %s: results differ on graph %s\n    as written: %s\n    rewritten : %s" % (
            events[0]["text"], events[0]["rules"], json.dumps(ev["g"]), json.dumps(events[0]["orig"]["parts"]), json.dumps(events[0]["opt"]["parts"])),
            {"text": events[0]["text"], "graph": ev["g"]})


def selftest(ctx):
    g = ctx.tlc(AREA, "GraphGen", cfg_text=graph_cfg(2), workers=4, timeout=900)
    gp = os.path.join(ctx.work, "g.ndjson")
    write_ndjson(gp, ctx.printed_json(g.out))
    sp = os.path.join(ctx.work, "s.ndjson")
    write_ndjson(sp, [[{"opt": False, "shape": "chain", "x": "a", "y": "b", "xk": 1, "yk": 2, "sel": 3, "pv": True, "dir": "out", "w": "none"}]])
    t = os.path.join(ctx.work, "t.ndjson")
    ctx.vh(["opt", "export", "--graphs", gp, "--skeletons", sp, "--out", t, "--per-pair", "80"])
    ok, _, _ = ctx.validate_trace(AREA, "MatchSemTrace", t)
    lines = open(t).read().splitlines()
    for i, ln in enumerate(lines):
        e = json.loads(ln)
        if e["e"] == "pair" and any(p["rev"] for pt in e["opt"]["parts"] for c in pt["clauses"] for p in c["pats"]):
            for pt in e["opt"]["parts"]:
                for c in pt["clauses"]:
                    for p in c["pats"]:
                        p["rev"] = False          # as if the path were not turned back
            lines[i] = json.dumps(e)
    open(t, "w").write("\n".join(lines) + "\n")
    ok2, stuck, _ = ctx.validate_trace(AREA, "MatchSemTrace", t)
    print("selftest C02: clean accepted=%s corrupted accepted=%s stuck=%s" % (ok, ok2, stuck))
    return 0 if ok and not ok2 else 1

"""What MANIFEST.json claims.  Only what is built and green on the unchanged tree with several seeds."""

HOOK_COMMITS = ["f83646d", "b42568c", "b6cd9ef"]

NOTES = ("Model-based verification with explicit TLA+ specifications (see DESIGN.md). Every verdict comes from behaviour of "
         "the real code rebuilt from /repo's working tree; TLC model-checks the mechanism specs, generates the histories "
         "that are replayed, and validates the recorded traces against the property specs.")

CLAIMED = {
    "C16": {
        "level": "model_checking",
        "text": ("SIEVE and non-expiring-map mechanism specs are model-checked exhaustively (4 keys, 2 values, capacities "
                 "<=0..4) as refinements of the property spec CacheProp (bounded, coherent, size = stored entries), and the "
                 "RWMutex protocol for 2-3 clients; every M-spec history up to a depth bound plus long random M-spec walks "
                 "is replayed on both real caches and the recorded traces are validated by TLC against CacheProp; "
                 "free-running concurrent histories under -race are checked for linearizability up to eviction by TLC. "
                 "Histories, schedules and capacities are exactly the quantifiers of C16, and they are small-scope."),
        "design_ref": "DESIGN.md 4/C16",
        "note": ("Bounded scope (3-4 keys, histories <=6 exhaustive / 12 sampled, 3 threads x 3 ops); concurrent schedules are "
                 "sampled by the Go scheduler, not enumerated; trusts TLC, the race detector and the harness's logging of "
                 "results at call return."),
        "technique": "TLA+ refinement model checking + TLC history generation + TLC trace validation (incl. linearizability) of real-code traces",
    },
}

CLAIMED["C12"] = {
    "level": "model_checking",
    "text": ("The entity edit API (Set/SetAll/Delete/GetOrDefault/Clone/Merge, AddKinds/DeleteKinds/Node.Merge) is transcribed "
             "into the mechanism spec EntityDelta.tla and model-checked exhaustively (2 keys x 2 values x 2 kinds x 2 entities, "
             "all loaded states, 7.5e5 distinct states) against the statement DeltaExact (change sets disjoint; delta applied to "
             "the loaded state = current state). TLC enumerates every history up to a depth bound plus long random walks; each "
             "is replayed on real *graph.Node, *graph.Relationship and *graph.Properties; the full projection of every live "
             "object after every call is validated by TLC against the property spec (determined post-state for edits, the "
             "invariant for merges, frame condition for all other objects)."),
    "design_ref": "DESIGN.md 4/C12",
    "note": ("Small scope (2 keys, 2 values, 2 kinds, 2 entities + clone shadow; depth 3-4 exhaustive, 10 sampled). Merge partners "
             "are loaded from the same state. Which side wins when both partners edited the same key is not demanded. Trusts TLC "
             "and the harness projection."),
    "technique": "TLA+ model checking of a transcribed mechanism spec + TLC history generation + TLC trace validation of real-code state projections",
}

CLAIMED["C13"] = {
    "level": "model_checking",
    "text": ("The meaning of every duplex operation is the set-algebra spec IdSet.tla; TLC enumerates every history from every "
             "initial content of two objects (depth 1 under all 40 configurations = width x receiver/operand implementation x "
             "integer embedding; depth 2 and random walks under rotating configurations) and validates, for each real run, the "
             "call results and the content of every live object after every call. The wrappers' lock protocol is model-checked "
             "(IdSetLock.tla: deadlock freedom, atomicity of binary operations, 3 clients) and its two counterexample schedules "
             "for the pinned protocol (ABBA, operand toggle) are forced on the real code; free-running concurrent histories "
             "under -race are checked for linearizability by TLC."),
    "design_ref": "DESIGN.md 4/C13",
    "note": ("Universe of 3-5 abstract elements under 5 embeddings (dense, around 2^16, around 2^32, sparse, top of range); operand "
             "is never the receiver; HyperLogLog providers out of scope; concurrent schedules other than the two forced ones are "
             "sampled. Trusts TLC, the race detector, Slice()/Cardinality() as the read-back."),
    "technique": "TLA+ set-algebra spec as trace-validation oracle, TLC-enumerated histories x configurations, model-checked lock protocol with forced counterexample schedules, linearizability by trace validation",
}

CLAIMED["C15"] = {
    "level": "model_checking",
    "text": ("componentReachDFS and its bounded cache are transcribed step by step into ReachCache.tla and model-checked over all 1024 "
             "DAGs on 5 components x all query sequences up to 3 x capacities 1/2/5 with eviction allowed at any step (every cached "
             "entry and every answer = true reach). TLC generates every (DAG, capacity, query sequence) and every digraph on 3-4 "
             "nodes; each is built in the adjacency-map and CSR containers under three id embeddings, and the SCC partition, "
             "component graph and every answer (reach, reach-slice, can-reach in three directions, or/xor-reach) of the real code are "
             "validated by TLC against plain reachability, with a final sweep that reads every cache entry back."),
    "design_ref": "DESIGN.md 4/C15",
    "note": ("Graphs of at most 5 components / 10 nodes (exhaustive) - every defect found so far has a 4-5 component witness; query "
             "sequences <= 3 plus sweep; SIEVE abstracted by nondeterministic eviction in the model, exercised as is on the real code. "
             "Trusts TLC and the harness's id embedding."),
    "technique": "TLA+ model checking of the transcribed DFS/cache mechanism + TLC-enumerated graphs x histories replayed on the real containers + TLC trace validation against plain reachability",
}

CLAIMED["C14"] = {
    "level": "model_checking",
    "text": ("Digraph.tla defines the graph a set of nodes and triples denotes (adjacency in three directions with 'both' = in U out, "
             "reach, shortest positive distances, deletion projections incl. nested, the walks TSBFS/TSDFS report, segments). TLC "
             "enumerates every multigraph on 3 (thorough: 4) node ids with up to 3 (4) triples - isolated nodes, self loops, parallel "
             "and antiparallel edges - and every projection set; each is built in all five container variants under four id layouts "
             "and every observation table of the real code is validated by TLC against the spec operators."),
    "design_ref": "DESIGN.md 4/C14",
    "note": ("Exhaustive only for tiny graphs (the defects found all have 1-2 edge witnesses); adjacency compared as sets; TSBFS/TSDFS "
             "with positive depth bound and directions out/in only (they have no cycle check); NumEdges of the adjacency map is not "
             "part of the statement. One recorded finding (newline-framed BFS tree file) stays open."),
    "technique": "TLA+ graph-semantics spec as trace-validation oracle over TLC-enumerated multigraphs and projections, five container variants",
}

CLAIMED["C19"] = {
    "level": "model_checking",
    "text": ("DumpCrash.tla models the dump/checkpoint/resume file protocol with one action per file-system step or database fetch, a "
             "Crash action between any two steps (<=2 crashes), Resume validation and a stray-file environment action; TLC checks the "
             "statement (manifest => complete dump; success => equivalent to an uninterrupted dump; never success with a stray file) "
             "per configuration, and its crash-free step order is compared with the hook trace of the real dump (no drift = the "
             "exhaustive result speaks about this code). On the real code a child process running retriever.Dump on the fake database "
             "is SIGKILLed at every numbered step, resumed, crashed again during the resume, hit by read errors at every fetch, and "
             "resumed after option / source / stray-file changes; the projection of the output directory after every run (fragment id "
             "sequences, hashes, manifest, checkpoint, temps) is validated by TLC against DumpProp.tla."),
    "design_ref": "DESIGN.md 4/C19",
    "note": ("Databases of <=2 graphs x <=3 nodes x <=2 relationships, shard/batch 1..3, three codecs rotating; process crash only (no "
             "power loss / fsync); resume is allowed to refuse; a source change is only required to be refused once the checkpoint "
             "holds the source counts. Hooks: util/verifhook + 11 add-only lines in retriever (commit f83646d)."),
    "technique": "TLA+ crash-interleaving model checking of the file protocol + SIGKILL fault enumeration at every hook step of the real dump + TLC trace validation of directory projections",
}

CLAIMED["C17"] = {
    "level": "model_checking",
    "text": ("BreadthFirst.tla models the termination protocol of Traversal.BreadthFirst (coordinator, N workers, descent counter, "
             "completion channel of capacity 2N, context cancellation, failing driver calls) and is model-checked for safety and "
             "termination under fairness (N=2..3; every generated tree with 2 workers); Pipe.tla models BufferedPipe (FIFO, exactly once, "
             "flush on close, writer never blocked). TLC enumerates every segment tree x failing segment x cancellation; each plan is run "
             "on the real code free-running under -race and under five adversarial gate schedules at the verifhook points, and the "
             "driver-call / return events are validated by TLC against the statement (each segment once, after its parent, nothing after "
             "return, nil only when complete, error iff a failure, no goroutine left)."),
    "design_ref": "DESIGN.md 4/C17",
    "note": ("Trees of <= 5 segments, 1..8 workers; schedules are sampled (free-running) or shaped by gate policies, not enumerated on the "
             "real code; the sequential traversal helpers of ops/ (TraversePaths, TraverseIntermediaryPaths, AcyclicTraverseNodes, AcyclicTraverseTerminals; skip / limit; both directions; branch query) run over a fake graph.Transaction on every graph of <= 3 nodes / 4 edges and are validated by TSeq (terminals only bounded); the bounded counter and the skip / limit filter are driven from 1..16 goroutines (TCounter, TSkipLimit); the data race on "
             "PathSegment.size under Descend is not part of the statement. Hooks: 5 add-only lines in traversal.go (commit b42568c)."),
    "technique": "TLA+ model checking (safety + liveness) of the termination protocol and the pipe, TLC-enumerated plans, gate-controlled and free-running executions of the real code validated against the P-spec by TLC",
}

CLAIMED["C18"] = {
    "level": "model_checking",
    "text": ("DumpLoad.tla models the structural machine of Dump followed by Load (keyset batches, shard writer, verification pass, node "
             "batches with order-correlated ids, id resolver, one batch per edge fragment) and is model-checked for every configuration "
             "with <=3 nodes, <=2 relationships, shard/batch 1..3 and every corrupt fragment position (fragments partition the ids in "
             "order; nothing written before everything is verified; loaded graph isomorphic under the id map). On the real code TLC-"
             "enumerated configurations run Dump -> Load -> Verify on the fake database for three codecs; the directory projection, the "
             "source and loaded entity records (matched through a marker property: kinds, JSON-canonical property maps, endpoints) and "
             "the Verify outcomes (unmodified and after three metric-changing edits) are validated by TLC."),
    "design_ref": "DESIGN.md 4/C18",
    "note": ("Structure is model-checked; value-level fidelity is only explored over a fixed value catalogue (nested lists/maps, unicode, "
             "floats, 2^53-1) - encode/decode fidelity is outside what a TLA+ model adds. Fake database instead of PostgreSQL/Neo4j. One "
             "recorded finding (integers beyond 2^53 lose precision on load) stays open."),
    "technique": "TLA+ model checking of the dump/load structural machine over all small configurations + TLC trace validation of real Dump/Load/Verify runs",
}
CLAIMED["C20"] = {
    "level": "fault_enumeration",
    "text": ("Real artefacts (dump directory, tar, HPKE-encrypted archive, key files) are built per codec and every single-byte flip (thorough: "
             "every offset; quick: every 11th), truncations, appended data, removed / swapped / substituted fragments, structural manifest "
             "edits, dropped / duplicated / swapped / foreign archive frames, wrong and damaged keys and 17 hostile tar streams are fed to "
             "Load(dir), in-place unpack, staged Unpack, Load(archive) and the plain tar extractor. The class of each tampered byte is fixed "
             "by what protects it (hash, AEAD, consumed manifest field: strict; otherwise lenient); TLC validates every attack event against "
             "the spec rule (strict => error; error => zero database writes and nothing new in a staged destination; lenient and accepted "
             "=> identical result; never a file outside the output directory). DumpLoad.tla proves the pipeline order (verify everything "
             "before the first write) for all small configurations."),
    "design_ref": "DESIGN.md 4/C20",
    "note": ("Single-fault mutations of small artefacts (0.5-10 kB); manifest bytes that nothing authenticates and the loader does not consume "
             "are lenient by construction; in-place unpack APIs may leave partial output inside their own output directory."),
    "technique": "exhaustive single-fault enumeration over real artefacts with a TLA+ spec as the verdict oracle (trace validation) + model-checked pipeline order",
}

CLAIMED["C09"] = {
    "level": "model_checking",
    "text": ("ReadOnlyGate.tla models the listener/filter dispatch of the parse context over clause skeletons derived from Cypher.g4 (every rule "
             "entry is offered to every filter; an error list decides acceptance) and TLC checks, for every skeleton up to 3 (thorough: 4) "
             "clauses, that acceptance implies no updating clause, call or parameter. The same TLC run enumerates the skeletons; each is "
             "rendered, parsed by the real parser without filters (control) and under DefaultCypherContext, and accepted queries are "
             "translated; TLC validates every record against the statement (accepted => no forbidden construct, no DML on graph tables). "
             "Every corpus query the default context accepts is additionally re-parsed with each forbidden clause inserted."),
    "design_ref": "DESIGN.md 4/C09",
    "note": ("Clause-level abstraction with one rendering per clause kind; nesting positions covered: FOREACH bodies, MERGE ON CREATE SET, "
             "parameters in WHERE / map / SKIP / LIMIT / UNWIND. Constructs the parser does not support at all (FOREACH, CREATE UNIQUE) are "
             "rejected even unfiltered, which the control parse shows. LOAD CSV / START are outside the statement's list."),
    "technique": "TLA+ model of the filter dispatch model-checked over all clause skeletons, the same skeletons replayed on the real parser and translator, TLC trace validation",
}

CLAIMED["C10"] = {
    "level": "model_checking",
    "text": ("CypherExpr.tla models what the package query constructors build (Or/Not parenthesize, And/Xor do not), what the emitter writes "
             "(with the repaired precedence-aware parenthesisation; the pinned emitter is kept as a negative control: 54 of 684 terms "
             "regrouped) and the grammar's precedence-climbing parse; TLC checks Parse(Emit(Build(b))) = Meaning(b) for every term of depth "
             "<= 2. The same terms are built with the real constructors, emitted by the real emitter and by the Neo4j query builder's "
             "Render, parsed by the real parser, and TLC validates the parsed tree against the term's meaning; kind matchers with 1-3 kinds "
             "are checked for their all-of / any-of meaning.  Terms are also built with the bare cypher model constructors, rendered twice from one "
             "criteria value, and over relationship atoms (truth-table equivalence, because the Neo4j builder moves relationship kind tests into "
             "the pattern).  QueryShape.tla enumerates 14 954 whole-query descriptors (returned items, DISTINCT, ORDER BY, SKIP/LIMIT, updating "
             "clauses; node and relationship queries) that are built, rendered, parsed and read back."),
    "design_ref": "DESIGN.md 4/C07+C10",
    "note": ("A literal catalogue (ints to the int64 limits, doubles needing 17 digits, bools, null, strings with quotes, backslashes, newlines, non-BMP runes) is rendered, parsed and "
             "read back for type and value.  Create queries (which endpoints WHERE reads x what CREATE names x what is returned) are built with both builders - query/neo4j's text builder and query.Builder, whose model the PostgreSQL driver translates - and must parse, read only what they bind or create, and agree on the bindings (TC10C).  The rewrite the Neo4j driver applies to every text before sending it (reached through the verif-tagged export, commit b6cd9ef) is run on temporal texts, the corpora and the grammar corpus and must preserve the canonical re-emission apart from temporal wrappers (TC10R).  NOT covered: merge patterns, list / map literals, shortest-path builders; the Neo4j builder's deliberate "
             "rewrite of negated string predicates is excluded."),
    "technique": "TLA+ emit/parse/build model checked exhaustively over builder terms + the same terms replayed through the real builder, emitter and parser with TLC trace validation",
}

CLAIMED["C11"] = {
    "level": "model_checking",
    "text": ("Walk.tla is an M-spec of the loop of walk.Generic (cursor stack, Enter/Visit/Exit, Consume/SetDone/SetError, nil branches); TLC checks the "
             "protocol properties on every ordered tree up to the bound with every placement of reactions, and every finished walk it generates is replayed "
             "on the real walk.Generic.  WalkTrace.tla is the P-spec monitor: callbacks recorded from walk.CypherStructural, walk.Cypher and walk.PgSQL over "
             "every corpus model (undisturbed, scripted reactions, nil branches, sub-tree and nil roots) are validated against a reference tree computed by "
             "reflection over the model structs - structural walks must cover it exactly, semantic walks stay inside it - and cypher.Copy facts (equal, "
             "no shared mutable part, independent under mutation of either side) are validated for every node of every model."),
    "design_ref": "DESIGN.md 4/C11",
    "note": ("The copy half is a reflection oracle whose facts the trace monitor merely checks; opaque payloads (Literal.Value, Parameter.Value) are treated as "
             "user data, not as parts of the model.  walk.PgSQL has no reference tree: protocol only.  Models are parser-built; builder-only shapes are not included."),
    "technique": "TLC model checking of the walk loop + replay of all generated walks on walk.Generic + trace validation of real walker callbacks against a reflection tree",
}

CLAIMED["C02"] = {
    "level": "exploration",
    "text": ("PARTIAL - the Cypher half only.  MatchSem.tla gives openCypher matching semantics (MATCH / OPTIONAL MATCH sequences, kinds, directions, variable-length ranges, path "
             "variables, relationship uniqueness, uninterpreted conditions) as a function from a query part and a finite property graph to a bag of rows.  TLC enumerates small graphs "
             "(GraphGen.tla) and query skeletons shaped to trigger the optimiser's rules (QueryGen.tla: random clause sequences and the full anchor family); the harness runs the real "
             "optimize.Optimize on them and on the corpus, exports every query part it rewrote (clause reordering, inbound traversal reversal) as written and as rewritten from the two "
             "query models, and MatchSemTrace.tla requires equal bags of results on every sampled graph."),
    "design_ref": "DESIGN.md 4/C02 and section 5",
    "note": ("The lowerings the translator applies while emitting SQL (projection pruning, late path materialisation, predicate / limit / suffix pushdown, direction selection, exact-range and "
             "count fast paths, aggregate traversal counts) are NOT covered: comparing optimised and unoptimised SQL needs PostgreSQL.  Query parts up to the first WITH that does more than hand variables on; no UNWIND, "
             "no shortest paths, no updating clauses; graphs are sampled per pair.  That optimize.Optimize leaves its argument alone is checked under C05."),
    "technique": "TLA+ matching semantics evaluated by TLC on TLC-enumerated graphs for query parts exported before and after the real optimiser's rewrites",
}

CLAIMED["C03"] = {
    "level": "translation_validation",
    "text": ("SqlScope.tla is a resolver for PostgreSQL name resolution (query levels with their WITH lists, recursive CTEs visible to their own body, SELECT frames collecting FROM items, "
             "the LATERAL rule for FROM subqueries, correlated subqueries, DML targets / RETURNING / EXCLUDED, ORDER BY tails, CTE column-list arity, parameters, DML only for updating "
             "queries).  The harness linearises the pgsql syntax tree the real translator returns for every corpus query into the resolver's events (it knows the shape of the tree, "
             "not the rules) and TLC validates each statement's stream: every qualified reference must name a visible FROM item and a column it provides, every FROM name a schema "
             "table or a CTE in scope."),
    "design_ref": "DESIGN.md 4/C03",
    "note": ("Bare names are resolved leniently; SQL kept as text inside the tree (formatting literals, text arguments of the traversal harness functions) is opaque; column lists of "
             "function calls in FROM and of SELECT * are unknown.  Queries: the corpora plus the grammar corpus TLC generates in every run (ExprGen.tla: every expression production "
             "alone and directly inside every hole of every other; WithGen.tla: every projection pipeline of up to two WITH clauses over a node, a relationship and a path; the clause "
             "skeletons of ReadOnlyGate.tla).  Fifteen known-finding families (updating clauses and expansions in query parts followed by another WITH, UNWIND before updates, DELETE next "
             "to another updating clause, SET reading its own target, path functions in ORDER BY / UNWIND, a relationship pattern used as a value, a conjunction as a projection item, "
             "id(n) at the root of an argument); members of these families were repaired in 6c30bc9, cbb448e and cff5930."),
    "technique": "TLA+ name-resolution model validating the event stream linearised from the real translator's SQL syntax tree for every corpus query",
}

CLAIMED["C04"] = {
    "level": "model_checking",
    "text": ("PgLex.tla is a model of PostgreSQL's lexical structure (strings with '' under standard_conforming_strings, E'' escapes, quoted identifiers, -- and nested /* */ comments, "
             "dollar quoting, parameters, operators incl. the backtick) together with an M-spec of what DAWGS does with user text (quote doubling, LIKE escaping, SQL fragments quoted "
             "again as text arguments, identifiers written verbatim).  TLC checks over every payload up to the bound that literal, LIKE and fragment quoting always lex to one string "
             "token that decodes to the payload (and falsifies the same claim for verbatim identifiers).  Every payload TLC enumerates is then placed in 41 user-text positions of "
             "real queries; the real translator's SQL for the hostile and the benign twin is compared by the harness character-wise around the value, and PgLexTrace.tla lexes the "
             "value's stretch (for fragments: the text argument, decoded, lexed again) and requires one token of the benign kind that decodes to the payload."),
    "design_ref": "DESIGN.md 4/C04",
    "note": ("Payload length is bounded (<= 2 characters in the quick tier into the real translator, 3 thorough, plus a few long classics); kind names never reach the SQL (kind ids); "
             "values that travel as bound parameters are checked to stay out of the SQL.  Two known findings: user aliases / variable names are written verbatim with their backticks."),
    "technique": "TLC check of the quoting mechanisms over all bounded payloads + TLC-enumerated payloads injected into the real translator, emitted SQL validated by a TLA+ model of PostgreSQL's lexer",
}

CLAIMED["C05"] = {
    "level": "exploration",
    "text": ("Totality, determinism and purity of one function over all models, parameter maps and interleavings is sampled, not decided: TransTrace.tla is a per-call history "
             "monitor (no panic, same input => same SQL, parameters and error on every repetition, the caller's model and parameter map unchanged, within the time budget). Every "
             "accepted text of the corpora and of the harness's input classes, builder-made models and parameter-heavy texts are translated 2 + 8 times (sequentially and from "
             "goroutines sharing one kind mapper, under the race detector) with five kinds of parameter map; TLC validates every record."),
    "design_ref": "DESIGN.md 4/C06+C05",
    "note": "Exploration only: goroutine interleavings are whatever the scheduler produces under -race; memory is not measured; no exhaustiveness claim.",
    "technique": "repeated and concurrent translation under the race detector with a TLA+ history monitor as the oracle",
}

CLAIMED["C06"] = {
    "level": "model_checking",
    "text": ("Hygiene.tla is an M-spec of the translator's name handling (alias table user symbol -> generated identifier, definitions keyed by generated identifier, raw-first "
             "lookups, parameter namespace) run in lockstep under the user's naming and a canonical naming; TLC checks that both resolve every reference alike for every program and "
             "naming up to the bound - it holds for the repaired parameter namespace and alias-only lookups, and fails, as pinned negative controls, for the shared table and for "
             "raw-first lookups of user names that look generated.  HygieneGen.tla enumerates 3842 renaming patterns (generated-identifier names, the emitted SQL's own column and "
             "table names, cross-namespace collisions); the harness applies them to every corpus query on the parsed model, translates the twins with the real translator and "
             "TransTrace.tla checks: the twin translates whenever the query does, and its SQL equals the fresh-name twin's except at output aliases."),
    "design_ref": "DESIGN.md 4/C06+C05",
    "note": ("Renamings put at most two adversarial names on the first three variable symbols and one on the first two parameter symbols of a query; the quick tier applies the "
             "single-name patterns to every query and samples the pairs.  One known finding (path variable named n0)."),
    "technique": "TLC model checking of the alias-table mechanism + TLC-generated renaming patterns replayed on the real translator with twin comparison validated by a TLA+ monitor",
}

CLAIMED["C07"] = {
    "level": "exploration",
    "text": ("Faithfulness of text -> model over a 1000-line grammar is explored, not enumerated. The TLA+ part: CypherExpr/CypherExprCheck model-check "
             "Parse(Emit(t)) = t and precedence for every boolean/comparison tree up to the bound (the fragment where a dropped token changes meaning "
             "silently), and CypherExprTrace is the per-input monitor (accepted => re-emission parses, to a deep-equal model, is an emit fixed point, and "
             "holds every content token of the input). Inputs: all repository corpora, one statement per top-level grammar form and per construct of "
             "the unsupported list, and the rendered clause skeletons that TLC enumerates from ReadOnlyGate; TLC validates every record."),
    "design_ref": "DESIGN.md 4/C07+C10",
    "note": ("Exploration only: grammar forms are hand-listed from Cypher.g4 rather than derived mechanically, so a production nobody listed is not "
             "covered; content tokens come from the harness's own lexer (numeric literals compared by type and value)."),
    "technique": "TLC-enumerated clause skeletons + corpus/grammar-form inputs run through parse/emit/parse, each record validated by a TLA+ trace monitor",
}

CLAIMED["C08"] = {
    "level": "exploration",
    "text": ("Totality of one pure function over all byte strings is not something a TLA+ model decides; the spec (FrontTrace.tla) is a per-call "
             "monitor: no panic, a model or an error but never neither, blank input rejected, time within budget. Inputs: the repository's "
             "corpora, a statement of every top-level grammar form incl. the unsupported list, literal extremes, invalid UTF-8, nesting up to "
             "400, unbalanced delimiters and seeded token-level mutations of every corpus text, each parsed under the unfiltered and the "
             "default context; TLC validates every record."),
    "design_ref": "DESIGN.md 4/C08",
    "note": ("Exploration only: a sample of the input space, no exhaustiveness claim; memory is not measured; the listener stack discipline "
             "(ListenerStack.tla of the design) was not built."),
    "technique": "seeded grammar/corpus mutation fuzzing with a TLA+ trace monitor as the oracle",
}

_NB = "not built yet in this round (design in DESIGN.md section 4)"
NOT_APPLICABLE = {
    "C01": "needs the emitted SQL executed on PostgreSQL; no SQL engine exists in this sandbox and a TLA+ model of PostgreSQL would verify the model, not DAWGS (DESIGN.md section 5)",
}

"""C08 — parsing is total and bounded on arbitrary input.  DESIGN.md 4/C08 (exploration level)."""
import json, os, re
from lib.vcheck import ToolFailure, validate_histories, write_ndjson

AREA = "Frontend"


def first_rule(text):
    t = text.strip().lower()
    for kw, name in (("using periodic", "bulk-import"), ("using", "bulk-import"), ("call", "standalone-call"), ("load csv", "load-csv"), ("create index", "command"),
                     ("drop", "command"), ("create constraint", "command"), ("start", "start"), ("explain", "explain"), ("profile", "profile"), ("cypher", "cypher-option")):
        if t.startswith(kw):
            return name
    return "query"


def classify(ev):
    what = "accepted-model-cannot-be-written-out" if (ev["ok"] and not ev["modelnil"] and not ev.get("emit_ok", True) and not ev["panic"]) else "panic" if ev["panic"] else "neither-model-nor-error" if (ev["ok"] and ev["modelnil"]) else "blank-input-accepted" if (ev["blank"] and ev["ok"]) else ("lexical-error-accepted" if ev.get("class") == "lexical-garbage" else "unrepresentable-number-accepted") if (ev.get("unrepresentable") and ev["ok"]) else "time-budget-exceeded"
    return "%s/%s/%s" % (what, first_rule(ev["input"]), ev["context"])


def run(ctx):
    quick = ctx.tier == "quick"
    ctx.level = "exploration"
    ctx.assumptions += ["TLC 1.8.0 + CommunityModules (the spec is a per-call monitor here: a TLA+ model adds little to a totality property)",
                        "inputs: the repository's corpora, the grammar corpus (spec/Frontend/ExprGen.tla expression pairs in expression positions, ReadOnlyGate.tla clause skeletons of <= 3 clauses), statements of every top-level grammar form, literal extremes, invalid UTF-8, nesting up to 80 (thorough 400), "
                        "unbalanced delimiters, seeded token-level mutations of the corpus, 31 expression kinds in 19 expression positions with every token-boundary prefix and stray delimiters "
                        "(the trees ANTLR's error recovery produces), numbers no Go type can hold in 18 number positions and characters no token can hold (unterminated quotes, #, ?, !, NUL, "
                        "invalid UTF-8, ...) at the end of and inside valid queries (both must be rejected: a model without them has a hole)", "time budget 10 s per call (the unchanged tree needs < 0.25 s for the largest input), best of three"]
    ctx.grammar_corpus(maxlen=3)
    trace = os.path.join(ctx.work, "fuzz.ndjson")
    args = ["front", "fuzz", "--out", trace, "--seed", str(ctx.seed), "--per-text", "3" if quick else "40"] + ([] if quick else ["--deep"])
    ctx.vh(args, timeout=3000)
    n_ok, rejected = validate_histories(ctx, AREA, "FrontTrace", trace, chunk_events=100000, max_cand=60, parallel=8)
    ctx.cov["traces_validated_against_impl"] += n_ok
    ctx.cov["evaluations"] += n_ok + len(rejected)
    classes, seen_inputs = {}, set()
    for ln in open(trace):
        e = json.loads(ln)
        classes[e["class"]] = classes.get(e["class"], 0) + 1
        seen_inputs.add(e["input"])
    ctx.cov["input_classes"] = classes
    ctx.cov["distinct_nontrivial"] = len(seen_inputs)
    ctx.cov["samples"] += [json.loads(x) for x in open(trace).read().splitlines()[100:103]]
    ctx.cov["rule"] = ("each input is parsed under the unfiltered and the default context; distinct_nontrivial = distinct input texts (first 160 bytes); a record violates "
                       "the monitor when the call panicked, returned neither a model nor an error, accepted a blank input or an unrepresentable number, or exceeded the time budget three times")
    seen = set()
    for hid, ev, events, pos in rejected:
        key = classify(ev)
        if key in seen:
            continue
        seen.add(key)
        ctx.report(key, "ParseCypher(%s context) on %r: ok=%s model-nil=%s panic=%s ms=%s err=%r" % (ev["context"], ev["input"], ev["ok"], ev["modelnil"], ev["panic"], ev["ms"], ev["err"]),
                   {"input": ev["input"], "context": ev["context"]})


def selftest(ctx):
    trace = os.path.join(ctx.work, "f.ndjson")
    ctx.vh(["front", "fuzz", "--out", trace, "--per-text", "0"])
    ok, _, _ = ctx.validate_trace(AREA, "FrontTrace", trace)
    lines = open(trace).read().splitlines()
    e = json.loads(lines[30]); e["panic"] = True; lines[30] = json.dumps(e)
    open(trace, "w").write("\n".join(lines) + "\n")
    ok2, stuck, _ = ctx.validate_trace(AREA, "FrontTrace", trace)
    print("selftest C08: clean accepted=%s corrupted accepted=%s stuck=%s" % (ok, ok2, stuck))
    return 0 if ok and not ok2 else 1

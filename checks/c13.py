"""C13 — ID-set providers implement exact set algebra across all implementation pairings.  DESIGN.md 4/C13."""
import json, os, re
from lib.vcheck import ToolFailure, validate_histories, write_ndjson

AREA = "IdSet"


def gen_cfg(depth, n_u):
    return """SPECIFICATION GSpec
CONSTANTS
  U = {%s}
  MultiAdd <- %s
  Depth = %d
CHECK_DEADLOCK FALSE
""" % (", ".join(str(i) for i in range(n_u)), "Mc02" if n_u <= 3 else "Mc024", depth)


def impl_of(events, upto, name):
    """implementation tag behind object `name` at event index `upto` (clones inherit their source's)"""
    cfg = events[0]["cfg"]                         # w64/bm-ts/dense
    w, pair, _ = cfg.split("/")[:3]
    ia, ib = pair.split("-")
    impl = {"A": ia, "B": ib}
    for e in events[1:upto + 1]:
        if e["op"] == "clone":
            impl["C"] = impl.get(e["o"], "?")
    return w, impl.get(name, "?")


def classify(events, pos):
    ev = events[pos]
    w, io = impl_of(events, pos, ev.get("o") or "A")
    if ev.get("panic"):
        kind = "panic"
    else:
        kind = "wrong-result"
    if ev.get("p"):
        _, ip = impl_of(events, pos, ev["p"])
        return "%s/%s<-%s/%s/%s" % (w, io, ip, ev["op"], kind)
    return "%s/%s/%s/%s" % (w, io, ev.get("op") or ev["e"], kind)


def run(ctx):
    quick = ctx.tier == "quick"
    ctx.assumptions += ["TLC 1.8.0 + CommunityModules", "Go race detector",
                        "harness: abstract elements embedded into integers by five embeddings (dense, straddling 2^16, "
                        "straddling 2^32 / top of the 32-bit range, sparse, top of the range); object contents read back "
                        "through Slice() and Cardinality() after every call",
                        "operand is never the receiver itself"]
    # 1. lock protocol model (repaired code); thorough: the pinned protocol must show both findings
    r = ctx.tlc_check(AREA, "IdSetLock", workers=12, timeout=900)
    if not r.clean:
        raise ToolFailure("IdSetLock (Ordered=TRUE) failed:\n" + r.out[-2500:])
    if not quick:
        r1 = ctx.tlc(AREA, "IdSetLock", "IdSetLockPinned.cfg", workers=8, timeout=600)
        r2 = ctx.tlc(AREA, "IdSetLock", "IdSetLockPinnedAtomic.cfg", workers=8, timeout=600)
        r3 = ctx.tlc_check(AREA, "IdSetLock", "IdSetLockPinnedOneWay.cfg", workers=8, timeout=600)
        if "NoDeadlock" not in r1.invariant_violated or "Atomic" not in r2.invariant_violated or not r3.clean:
            raise ToolFailure("negative controls of IdSetLock did not behave as documented")
        ctx.cov["negative_controls"] = ["pinned lock protocol: NoDeadlock violated (ABBA)",
                                        "pinned lock protocol: Atomic violated (And reads operand per element)",
                                        "pinned protocol, one-way operands: deadlock-free"]
    # 2. histories from the P-spec (= meaning)
    plans = [(1, 3, "all"), (2, 3, "rotate")] if quick else [(1, 3, "all"), (2, 3, "rotate"), (1, 4, "all")]
    total_ok = 0
    if ctx.replay:
        rep = json.load(open(ctx.replay))["replay"]
        if "history" in rep:
            hp = os.path.join(ctx.work, "h.ndjson")
            open(hp, "w").write(json.dumps(rep["history"]) + "\n")
            seq_batch(ctx, hp, "one", "replay", ci=rep.get("ci", 0))
        return
    for depth, n_u, mode in plans:
        r = ctx.tlc(AREA, "IdSetGen", cfg_text=gen_cfg(depth, n_u), workers=8, timeout=1500)
        if not r.clean:
            raise ToolFailure("generator failed: " + r.out[-2000:])
        hp = os.path.join(ctx.work, "hist-%d-%d.ndjson" % (depth, n_u))
        write_ndjson(hp, ctx.printed_json(r.out))
        seq_batch(ctx, hp, mode, "d%du%d" % (depth, n_u))
    walks = 4000 if quick else 40000
    r = ctx.tlc(AREA, "IdSetGen", cfg_text=gen_cfg(8, 5), workers=1, simulate="num=%d" % walks, depth=10, timeout=900)
    hp = os.path.join(ctx.work, "hist-walk.ndjson")
    write_ndjson(hp, ctx.printed_json(r.out))
    seq_batch(ctx, hp, "rotate", "walk")
    ctx.cov["exhaustive"] = True
    ctx.cov["rule"] = ("P-spec histories (depth, |U|, configurations) = %s from every initial content of A and B, plus random "
                       "walks of 8 operations over 5 elements; configurations = {32,64 bit} x receiver/operand in {bitmap, "
                       "thread-safe wrapper}^2 x 5 embeddings (40).  non-trivial = the history contains an in-place binary "
                       "operation or a clone.  concurrent: forced ABBA and operand-toggle schedules from IdSetLock.tla, plus "
                       "free-running 3x3 histories on two wrappers under -race, all checked for linearizability" % (plans,))
    # 3. concurrency on the wrappers
    concurrent(ctx, quick)


def seq_batch(ctx, hist_path, mode, tag, ci=0):
    trace = os.path.join(ctx.work, "trace-%s.ndjson" % tag)
    args = ["idset", "replay", "--in", hist_path, "--out", trace, "--mode", mode, "--seed", str(ctx.seed)]
    if mode == "one":
        args += ["--cfg", str(ci)]
    ctx.vh(args)
    n_ok, rejected = validate_histories(ctx, AREA, "IdSetTrace", trace, chunk_events=250000, max_cand=40)
    ctx.cov["traces_validated_against_impl"] += n_ok
    ctx.cov["evaluations"] += n_ok + len(rejected)
    nt = 0
    sample = None
    cur = []
    flag = False
    for ln in open(trace):
        e = json.loads(ln)
        if e["e"] == "load":
            if flag:
                nt += 1
                if sample is None and cur and cur[0]["cfg"].split("/")[1] == "bm-ts":
                    sample = cur
            cur, flag = [e], False
        else:
            cur.append(e)
            if e["op"] in ("or", "and", "andnot", "xor", "clone"):
                flag = True
    if flag:
        nt += 1
    ctx.cov["distinct_nontrivial"] += nt
    if sample and len(ctx.cov["samples"]) < 3:
        ctx.cov["samples"].append([{k: x[k] for k in ("e", "cfg", "op", "o", "p", "x", "xs", "a", "b", "rb", "rn", "rs", "st")}
                                   for x in sample])
    hists = open(hist_path).read().splitlines()
    for hid, ev, events, pos in rejected:
        one = os.path.join(ctx.work, "one.ndjson")
        hi, ci = events[0]["hi"], events[0]["ci"]
        open(one, "w").write(hists[hi] + "\n")
        t1 = os.path.join(ctx.work, "one-trace.ndjson")
        ctx.vh(["idset", "replay", "--in", one, "--out", t1, "--mode", "one", "--cfg", str(ci)])
        ok, stuck, _ = ctx.validate_trace(AREA, "IdSetTrace", t1)
        if ok:
            raise ToolFailure("UNREPRODUCED candidate: history %s under %s" % (hists[hi], events[0]["cfg"]))
        ctx.report(classify(events, pos), "%s: history %s gives %s" % (
            events[0]["cfg"], hists[hi], json.dumps({k: ev[k] for k in ("op", "o", "p", "x", "xs", "rb", "rn", "rs", "st", "panic")})),
            {"history": json.loads(hists[hi]), "ci": ci, "cfg": events[0]["cfg"]})


def lin_batch(ctx, trace, what, rerun=None):
    """validate concurrent histories; rejected or deadlocked ones are candidates"""
    # deadlock events first: they are not part of the Lin spec's alphabet
    lines = [json.loads(x) for x in open(trace) if x.strip()]
    dead = {e["hid"] for e in lines if e["e"] == "deadlock"}
    keep = [e for e in lines if e["hid"] not in dead]
    res = []
    for hid in sorted(dead):
        evs = [e for e in lines if e["hid"] == hid]
        res.append((hid, evs[-1], evs, len(evs) - 1))
    if keep:
        p = os.path.join(ctx.work, "lin-%s.ndjson" % what)
        write_ndjson(p, keep)
        n_ok, rejected = validate_histories(ctx, AREA, "IdSetLin", p, max_cand=10, chunk_events=150000)
        ctx.cov["traces_validated_against_impl"] += n_ok
        ctx.cov["evaluations"] += n_ok + len(rejected)
        res += rejected
    return res


def conc_key(events, ev):
    cfg = events[0].get("cfg", "")
    w = cfg.split("/")[0]
    if ev["e"] == "deadlock":
        fam = "/clone-family" if ("family-clone" in cfg or "family-siblings" in cfg) else ""
        return "%s/ts<-ts/binary/lock-order-deadlock%s" % (w, fam)
    ops = sorted({e["op"] for e in events if e["e"] == "inv" and e.get("p")})
    return "%s/ts<-ts/%s/not-linearizable" % (w, "+".join(ops) or "unary")


def concurrent(ctx, quick):
    # (a) forced ABBA schedule (IdSetLock counterexample to NoDeadlock)
    t = os.path.join(ctx.work, "abba.ndjson")
    ctx.vh(["idset", "abba", "--out", t], race=True, timeout=300)
    abba_bad = lin_batch(ctx, t, "abba")
    for hid, ev, events, pos in abba_bad:
        # deterministic schedule: reproduce once more
        t2 = os.path.join(ctx.work, "abba2.ndjson")
        ctx.vh(["idset", "abba", "--out", t2], race=True, timeout=300)
        again = [x for x in lin_batch(ctx, t2, "abba2") if x[0] == hid]
        if not again:
            raise ToolFailure("UNREPRODUCED abba candidate %s" % hid)
        ctx.report(conc_key(events, ev), "forced schedule a.%s(b) || b.%s(a) on two thread-safe wrappers: %s" % (
            events[1]["op"], events[1]["op"], ev.get("note") or json.dumps(ev)[:400]), {"scenario": "abba", "events": events})
    # (b) forced operand-toggle schedule (IdSetLock counterexample to Atomic)
    t = os.path.join(ctx.work, "toggle.ndjson")
    ctx.vh(["idset", "toggle", "--out", t], race=True, timeout=300)
    for hid, ev, events, pos in lin_batch(ctx, t, "toggle"):
        t2 = os.path.join(ctx.work, "toggle2.ndjson")
        ctx.vh(["idset", "toggle", "--out", t2], race=True, timeout=300)
        again = [x for x in lin_batch(ctx, t2, "toggle2") if x[0] == hid]
        if not again:
            raise ToolFailure("UNREPRODUCED toggle candidate %s" % hid)
        ctx.report(conc_key(events, ev), "A.%s(B) racing B.Add(0); B.Remove(3): final A = %s is the result for no state B ever had" % (
            events[1]["op"], events[-1]["st"]["A"]["xs"]), {"scenario": "toggle", "events": events})
    # (b2) opposing binary operations between wrappers related by Clone (and, as control, unrelated ones)
    t = os.path.join(ctx.work, "family.ndjson")
    ctx.vh(["idset", "family", "--out", t, "--iters", "60000" if quick else "400000"], race=False, timeout=600)
    for hid, ev, events, pos in lin_batch(ctx, t, "family"):
        t2 = os.path.join(ctx.work, "family2.ndjson")
        ctx.vh(["idset", "family", "--out", t2, "--iters", "400000"], race=False, timeout=600)
        again = [x for x in lin_batch(ctx, t2, "family2") if x[0] == hid]
        if not again:
            raise ToolFailure("UNREPRODUCED family candidate %s" % hid)
        ctx.report(conc_key(events, ev), "wrappers of one clone family (%s): %s" % (events[0]["cfg"], ev.get("note") or json.dumps(ev)[:300]),
                   {"scenario": "family", "events": events})
    # (c) free-running histories under -race; operands in both directions only when (a) showed no deadlock
    both = not any(e[1]["e"] == "deadlock" for e in abba_bad)
    t = os.path.join(ctx.work, "conc.ndjson")
    n = 1500 if quick else 12000
    p = ctx.vh(["idset", "conc", "--out", t, "--n", str(n), "--seed", str(ctx.seed), "--both=%s" % ("true" if both else "false")],
               race=True, check=False, timeout=1200)
    if "DATA RACE" in p.stdout:
        m = re.search(r"WARNING: DATA RACE(.*?)={10,}", p.stdout, re.S)
        txt = m.group(1) if m else p.stdout[:3000]
        if "/cardinality/" in txt or "roaring" in txt:
            ctx.report("ts/data-race", "race detector: " + txt[:1500], {"scenario": "conc", "seed": ctx.seed})
        else:
            raise ToolFailure("race outside cardinality (harness bug?):\n" + txt[:2000])
    elif p.returncode != 0:
        raise ToolFailure("vh idset conc failed: " + p.stdout[-2000:])
    ctx.cov["concurrent_both_directions"] = both
    for hid, ev, events, pos in lin_batch(ctx, t, "conc"):
        one = os.path.join(ctx.work, "one-conc.ndjson")
        if ev["e"] != "deadlock":
            write_ndjson(one, events)
            ok, _, _ = ctx.validate_trace(AREA, "IdSetLin", one)
            if ok:
                raise ToolFailure("UNREPRODUCED concurrent candidate %s" % hid)
        ctx.report(conc_key(events, ev), "free-running concurrent history not explained by any linearisation: " +
                   json.dumps([{k: e[k] for k in ("e", "t", "op", "o", "p", "x", "xs", "rb", "rn", "rs") if k in e} for e in events])[:1800],
                   {"scenario": "conc", "events": events})
    # overlap statistic
    ov = 0
    open_n, was = 0, False
    for ln in open(t):
        e = json.loads(ln)
        if e["e"] == "reset":
            ov += 1 if was else 0
            open_n, was = 0, False
        elif e["e"] == "inv":
            open_n += 1
            was = was or open_n >= 2
        elif e["e"] == "resp":
            open_n -= 1
    ctx.cov["concurrent_overlapping_histories"] = ov + (1 if was else 0)
    ctx.cov["distinct_nontrivial"] += ctx.cov["concurrent_overlapping_histories"]


def selftest(ctx):
    hp = os.path.join(ctx.work, "h.ndjson")
    open(hp, "w").write(json.dumps({"a": [0, 1], "b": [1], "ops": [{"op": "and", "o": "A", "p": "B", "x": -1, "xs": []}]}) + "\n")
    t = os.path.join(ctx.work, "t.ndjson")
    ctx.vh(["idset", "replay", "--in", hp, "--out", t, "--mode", "one", "--cfg", "0"])
    ok, _, _ = ctx.validate_trace(AREA, "IdSetTrace", t)
    lines = open(t).read().splitlines()
    e = json.loads(lines[1]); e["st"]["A"]["xs"] = [0, 1]; e["st"]["A"]["card"] = 2; lines[1] = json.dumps(e)
    open(t, "w").write("\n".join(lines) + "\n")
    ok2, stuck, _ = ctx.validate_trace(AREA, "IdSetTrace", t)
    print("selftest C13: clean accepted=%s corrupted accepted=%s stuck=%s" % (ok, ok2, stuck))
    return 0 if ok and not ok2 else 1

"""C07 — the Cypher parser is faithful: it models what it accepts and rejects the rest.  DESIGN.md 4/C07+C10."""
import json, os, re
from lib.vcheck import ToolFailure, validate_histories, write_ndjson

AREA = "CypherExpr"

RULES = [("load csv", "oC_LoadCSV"), ("create unique", "oC_CreateUnique"), ("cypher ", "oC_CypherOption"), ("using index", "oC_Hint"), ("using join", "oC_Hint"),
         ("using scan", "oC_Hint"), ("call ", "oC_InQueryCall"), ("shortestpath(", "oC_ShortestPathPattern-as-value"), ("allshortestpaths(", "oC_ShortestPathPattern-as-value")]


def classify(ev):
    t = ev["text"].lower()
    if ev.get("panic"):
        return "panic"
    if ev.get("unrepresentable") and ev.get("accepted"):
        return "accepted-in-part/%s" % ("lexical-garbage" if ev.get("class") == "lexical-garbage" else "unrepresentable-number")
    rule = None
    if any(m.startswith("n:f") for m in ev.get("missing", [])):
        rule = "float-literal"
    elif "w:not" in ev.get("missing", []):
        rule = "negation-run"
    for kw, r in ([] if rule else RULES):
        if kw in t:
            rule = r
            break
    if rule is None:
        if re.search(r"\[[^\]]*\bin\b[^\]]*\|", t) or re.search(r"\[\s*\(", t):
            rule = "oC_ListComprehension/oC_PatternComprehension"
        elif re.search(r"[\w\)\]]\s*\[[^\]]*\]", t):
            rule = "oC_ListOperatorExpression"
        elif re.search(r"\d\.\d", t) and not ev["fixpoint"]:
            rule = "float-literal"
        elif re.search(r":\w+:\w+", t):
            rule = "oC_NodeLabels-all-of"
        else:
            rule = "other"
    if not ev["reparse_ok"]:
        return "accepted-but-not-re-emittable/%s" % rule
    if not ev["tokens_ok"]:
        return "content-dropped/%s" % rule
    if ev["fixpoint"] and not ev.get("order_ok", True):
        return "content-reordered/%s" % rule
    return "emit-parse-not-a-fixed-point/%s" % rule


def run(ctx):
    quick = ctx.tier == "quick"
    ctx.assumptions += ["TLC 1.8.0 + CommunityModules", "content tokens (identifiers, literals, operators, range bounds) are extracted by the harness's own small lexer; "
                        "keyword case, quote style, redundant parentheses, '*..' = '*' and '.5' = '0.5' are spelling freedom",
                        "inputs: the repository's corpora, one statement per top-level grammar form and unsupported construct, the rendered clause skeletons of C09, the grammar corpus "
                        "of spec/Frontend/ExprGen.tla (68 expression productions and 14 leaves, each alone and directly inside every hole of every other, bare and parenthesised) in 12 expression positions; "
                        "'every string of the grammar' is explored, not enumerated"]
    # the boolean fragment: Parse(Emit(t)) = t is part of CypherExprCheck (shared with C10)
    r = ctx.tlc(AREA, "CypherExprCheck", "CypherExprCheck.cfg", workers=4, timeout=900)
    if not r.clean:
        raise ToolFailure("CypherExprCheck failed:\n" + r.out[-2000:])
    ctx.cov["states"] += 684
    ctx.cov["transitions"] += 684
    # clause skeletons from the C09 model as additional sentences
    g = ctx.tlc("Frontend", "ReadOnlyGate", cfg_text="SPECIFICATION Spec\nCONSTANTS MaxLen = %d\nCHECK_DEADLOCK FALSE\n" % (2 if quick else 3), workers=8, timeout=1800)
    sk = ctx.printed_json(g.out)
    skp = os.path.join(ctx.work, "sk.ndjson")
    write_ndjson(skp, sk)
    # the grammar corpus: every expression production, and every production directly inside every other, in every (thorough) or
    # three rotating (quick) expression positions
    ctx.grammar_corpus(per=3 if quick else 12, maxlen=2 if quick else 3)
    trace = os.path.join(ctx.work, "c07.ndjson")
    ctx.vh(["front", "faithful", "--out", trace, "--skeletons", skp], timeout=2400)
    n_ok, rejected = validate_histories(ctx, AREA, "CypherExprTrace", trace, chunk_events=100000, max_cand=40, parallel=8)
    ctx.cov["traces_validated_against_impl"] += n_ok
    ctx.cov["evaluations"] += n_ok + len(rejected)
    acc = rej = 0
    for ln in open(trace):
        e = json.loads(ln)
        if e["accepted"]:
            acc += 1
        else:
            rej += 1
    ctx.cov["accepted_inputs"], ctx.cov["rejected_inputs"] = acc, rej
    ctx.cov["distinct_nontrivial"] = acc
    ctx.cov["samples"] += [json.loads(x) for x in open(trace).read().splitlines()[40:42]]
    ctx.cov["exhaustive"] = False
    ctx.cov["rule"] = ("for every accepted input: emit(parse(t)) parses again, to a model deep-equal to parse(t), emits the same text again, and contains the content "
                       "tokens of t.  distinct_nontrivial = accepted inputs (each went through the full emit/parse/emit chain)")
    seen = set()
    for hid, ev, events, pos in rejected:
        key = classify(ev)
        if key in seen:
            continue
        seen.add(key)
        ctx.report(key, "accepted %r; re-emitted as %r (reparse_ok=%s fixpoint=%s in_order=%s missing content=%s)" % (ev["text"], ev["emitted"], ev["reparse_ok"], ev["fixpoint"], ev.get("order_ok"), ev["missing"]),
                   {"text": ev["text"]})


def selftest(ctx):
    trace = os.path.join(ctx.work, "f.ndjson")
    ctx.vh(["front", "faithful", "--out", trace])
    ok, _, _ = ctx.validate_trace(AREA, "CypherExprTrace", trace)
    lines = open(trace).read().splitlines()
    for i, ln in enumerate(lines):
        e = json.loads(ln)
        if e["accepted"]:
            e["tokens_ok"] = False
            lines[i] = json.dumps(e)
            break
    open(trace, "w").write("\n".join(lines) + "\n")
    ok2, stuck, _ = ctx.validate_trace(AREA, "CypherExprTrace", trace)
    print("selftest C07: clean accepted=%s corrupted accepted=%s stuck=%s" % (ok, ok2, stuck))
    return 0 if ok and not ok2 else 1

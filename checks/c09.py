"""C09 — the default parse context admits read-only queries only.  DESIGN.md 4/C09."""
import json, os
from lib.vcheck import ToolFailure, validate_histories, write_ndjson

AREA = "Frontend"


def classify(ev):
    kinds = ev.get("kinds") or ["?"]
    bad = [k for k in kinds if not k.startswith(("match", "optmatch", "unwind", "with", "return", "corpus:"))]
    what = "+".join(sorted(set(bad))) or kinds[0]
    if ev.get("panic"):
        return "panic/%s" % what
    if ev["default_ok"] and ev["forbidden"]:
        return "accepted/%s" % what
    if ev["default_ok"] and ev["dml"]:
        return "accepted-query-translates-to-dml/%s" % what
    return "other/%s" % what


def run(ctx):
    quick = ctx.tier == "quick"
    ctx.assumptions += ["TLC 1.8.0 + CommunityModules", "clause skeletons are rendered to text by the harness with one canonical rendering per clause kind; an unfiltered control "
                        "parse decides whether a rendering is a sentence of the grammar at all", "DML = a statement that writes the graph tables (node, edge, kind, graph); "
                        "the frontier temp tables of the traversal harness functions are not graph data"]
    maxlen = 3 if quick else 4
    r = ctx.tlc_check(AREA, "ReadOnlyGate", cfg_text="SPECIFICATION Spec\nCONSTANTS MaxLen = %d\nINVARIANTS GateSound GateNotVacuous\nCHECK_DEADLOCK FALSE\n" % maxlen,
                      workers=12, timeout=2400)
    if not r.clean:
        raise ToolFailure("ReadOnlyGate failed:\n" + r.out[-2500:])
    sk = ctx.printed_json(r.out)
    if ctx.replay:
        sk = [json.load(open(ctx.replay))["replay"]["skeleton"]]
    skp = os.path.join(ctx.work, "sk.ndjson")
    write_ndjson(skp, sk)
    trace = os.path.join(ctx.work, "gate.ndjson")
    ctx.vh(["front", "gate", "--in", skp, "--out", trace] + (["--corpus=false"] if ctx.replay else []), timeout=2400)
    n_ok, rejected = validate_histories(ctx, AREA, "FrontTrace", trace, chunk_events=100000, max_cand=20, parallel=8)
    ctx.cov["traces_validated_against_impl"] += n_ok
    ctx.cov["evaluations"] += n_ok + len(rejected)
    stats = {"control_rejected": 0, "forbidden_rejected_by_filter": 0, "readonly_accepted": 0, "readonly_rejected": 0, "drift": 0}
    kinds_hit = set()
    sample = None
    for ln in open(trace):
        e = json.loads(ln)
        if not e["control_ok"]:
            stats["control_rejected"] += 1
        elif e["forbidden"] and not e["default_ok"]:
            stats["forbidden_rejected_by_filter"] += 1
            kinds_hit.add(tuple(k for k in e["kinds"] if not k.startswith(("match", "optmatch", "unwind", "with", "return"))))
            if sample is None and len(e["kinds"]) >= 3:
                sample = {k: e[k] for k in ("text", "forbidden", "control_ok", "default_ok")}
        elif not e["forbidden"]:
            stats["readonly_accepted" if e["default_ok"] else "readonly_rejected"] += 1
        if e["control_ok"] and e["hid"] < 1000000 and e["model_accepts"] != e["default_ok"]:
            stats["drift"] += 1
    ctx.cov.update(stats)
    ctx.cov["model_drift"] = stats["drift"]
    if stats["drift"]:
        ctx.notes.append("model_drift: %d skeletons the unfiltered parser accepts get a different verdict from ReadOnlyGate.tla than from the default context "
                         "(the real parser rejects some read-only constructs for other reasons); not a verdict" % stats["drift"])
    ctx.cov["distinct_nontrivial"] = len(kinds_hit)
    if sample:
        ctx.cov["samples"].append(sample)
    ctx.cov["exhaustive"] = True
    ctx.cov["rule"] = ("every clause skeleton of <= %d clauses that Cypher.g4's single/multi-part query rules allow over 4 reading, 10 updating clause kinds, WITH/RETURN, "
                       "the three CALL forms, each clause with and without a $parameter; plus every corpus query the default context accepts with each of 9 "
                       "forbidden clauses inserted before its last RETURN and with a $parameter appended.  distinct_nontrivial = distinct combinations of "
                       "forbidden clause kinds that were accepted by the unfiltered parser and rejected by the default context (non-vacuous rejections)" % maxlen)
    hists = {}
    for hid, ev, events, pos in rejected:
        key = classify(ev)
        if key in hists:
            continue
        hists[key] = True
        # deterministic: parse the same text again through a one-element run
        if ev["hid"] < 1000000:
            one = os.path.join(ctx.work, "one.ndjson")
            write_ndjson(one, [sk[ev["hid"]]])
            t1 = os.path.join(ctx.work, "one-t.ndjson")
            ctx.vh(["front", "gate", "--in", one, "--out", t1, "--corpus=false"])
            ok, _, _ = ctx.validate_trace(AREA, "FrontTrace", t1)
            if ok:
                raise ToolFailure("UNREPRODUCED candidate %s" % ev["text"])
            rep = {"skeleton": sk[ev["hid"]]}
        else:
            rep = {"text": ev["text"]}
        ctx.report(key, "the default parse context accepted %r (forbidden=%s dml=%s panic=%s)" % (ev["text"], ev["forbidden"], ev["dml"], ev["panic"]), rep)


def selftest(ctx):
    skp = os.path.join(ctx.work, "sk.ndjson")
    write_ndjson(skp, [{"clauses": [{"k": "match", "p": False}, {"k": "set", "p": False}, {"k": "return", "p": False}], "forbidden": True, "accepted": False}])
    t = os.path.join(ctx.work, "t.ndjson")
    ctx.vh(["front", "gate", "--in", skp, "--out", t, "--corpus=false"])
    ok, _, _ = ctx.validate_trace(AREA, "FrontTrace", t)
    e = json.loads(open(t).read().splitlines()[0]); e["default_ok"] = True
    open(t, "w").write(json.dumps(e) + "\n")
    ok2, stuck, _ = ctx.validate_trace(AREA, "FrontTrace", t)
    print("selftest C09: clean accepted=%s corrupted accepted=%s stuck=%s" % (ok, ok2, stuck))
    return 0 if ok and not ok2 else 1

"""C10 — emitted Cypher text means the same as the query model it was emitted from.  DESIGN.md 4/C07+C10."""
import json, os
from lib.vcheck import ToolFailure, validate_histories, write_ndjson

AREA = "CypherExpr"


def classify(ev):
    if ev["e"] == "kind":
        return "kind-matcher/%s/%s" % ("all-of" if ev["exclusive"] else "any-of", "reparse-failed" if not ev["reparse_ok"] else "meaning-changed-to-" + ev["meaning"])
    if ev.get("panic"):
        return "%s/panic" % ev["path"]
    if not ev["reparse_ok"]:
        return "%s/emitted-text-does-not-parse" % ev["path"]
    # which combinator pair is regrouped: parent operator and the weaker operator directly under it
    def pairs(t, acc):
        if t["b"] in ("and", "or", "xor"):
            for x in t["xs"]:
                if x["b"] in ("and", "or", "xor", "not"):
                    acc.add("%s(%s)" % (t["b"], x["b"]))
                pairs(x, acc)
        elif t["b"] == "not":
            acc.add("not(%s)" % t["x"]["b"])
            pairs(t["x"], acc)
        return acc
    return "%s/regrouped/%s" % (ev["path"], "+".join(sorted(pairs(ev["term"], set()))))


def run(ctx):
    quick = ctx.tier == "quick"
    ctx.assumptions += ["TLC 1.8.0 + CommunityModules", "atoms are concrete criteria whose identity is read back from the parsed model (property or kind name)",
                        "the Neo4j query builder's deliberate rewrite of negated string predicates is not under test (atom sets without string predicates on that path)",
                        "whole queries (QueryShape.tla): returned items, DISTINCT, ORDER BY, SKIP / LIMIT and updating clauses of node and relationship queries built through package query and "
                        "rendered by the Neo4j query builder; create / merge patterns and literal types other than string, int are not covered"]
    # 1. the expression model: every builder term of depth <= 2 survives Build -> Emit -> Parse under the repaired emitter; the pinned emitter does not
    r = ctx.tlc(AREA, "CypherExprCheck", "CypherExprCheck.cfg", workers=4, timeout=900)
    if not r.clean:
        raise ToolFailure("CypherExprCheck (EmitParens=TRUE) failed:\n" + r.out[-2000:])
    ctx.cov["states"] += 684
    ctx.cov["transitions"] += 684
    if not quick:
        r2 = ctx.tlc(AREA, "CypherExprCheck", "CypherExprCheckPinned.cfg", workers=4, timeout=900)
        if not r2.assumption_false:
            raise ToolFailure("negative control failed: the pinned emitter model is faithful")
        ctx.cov["negative_control"] = "CypherExprCheckPinned.cfg (emitter without own parentheses): 54 of 684 terms regrouped"
    # 2. terms
    g = ctx.tlc(AREA, "CypherExprGen", cfg_text='SPECIFICATION Spec\nCONSTANTS\n  Atoms = {"a", "b", "c"}\n  EmitParens = TRUE\n  Deep = %s\n' % ("FALSE" if quick else "TRUE"),
                workers=4, timeout=1800)
    terms = ctx.printed_json(g.out)
    rep = json.load(open(ctx.replay))["replay"] if ctx.replay else None
    if rep is not None:
        terms = [rep["term"]] if "term" in rep else terms[:1]
    if not terms:
        raise ToolFailure("no terms generated")
    tp = os.path.join(ctx.work, "terms.ndjson")
    write_ndjson(tp, terms)
    trace = os.path.join(ctx.work, "c10.ndjson")
    ctx.vh(["front", "build", "--in", tp, "--out", trace, "--seed", str(ctx.seed)], timeout=2400)
    n_ok, rejected = validate_histories(ctx, AREA, "CypherExprTrace", trace, chunk_events=60000, max_cand=40, parallel=8)
    ctx.cov["traces_validated_against_impl"] += n_ok
    ctx.cov["evaluations"] += n_ok + len(rejected)
    # 3. whole queries: returned items, DISTINCT, ORDER BY, SKIP / LIMIT, updating clauses
    if rep is None or "shape" in rep or "create_shape" in rep:
        sg = ctx.tlc(AREA, "QueryShape", "QueryShape.cfg", workers=4, timeout=900)
        shapes = ctx.printed_json(sg.out)
        create_shapes = [x for x in shapes if "create" in x]
        shapes = [x for x in shapes if "create" not in x]
        if rep is not None:
            shapes = [rep["shape"]] if "shape" in rep else shapes[:1]
            create_shapes = [rep["create_shape"]] if "create_shape" in rep else create_shapes[:1]
        elif len(shapes) < 5000 or len(create_shapes) < 50:
            raise ToolFailure("QueryShape printed %d descriptors:\n%s" % (len(shapes), sg.out[-1500:]))
        shp = os.path.join(ctx.work, "shapes.ndjson")
        write_ndjson(shp, shapes)
        st = os.path.join(ctx.work, "shapes-trace.ndjson")
        ctx.vh(["front", "shapes", "--in", shp, "--out", st, "--stride", "1" if rep is not None else "3" if quick else "1"], timeout=1800)
        n2, rej2 = validate_histories(ctx, AREA, "CypherExprTrace", st, chunk_events=20000, max_cand=40, parallel=8)
        ctx.cov["traces_validated_against_impl"] += n2
        ctx.cov["evaluations"] += n2 + len(rej2)
        ctx.cov["query_shapes"] = len(shapes)
        seen_q = set()
        for hid, ev, events, pos in rej2:
            exp, got = ev["expected"], ev["parsed"]
            what = "panic" if ev["panic"] else "emitted-text-does-not-parse" if not ev["reparse_ok"] else next((f for f in ("ret", "distinct", "order", "skip", "limit", "upd", "rel") if exp[f] != got[f]), "note")
            key = "whole-query/%s/%s" % ("relationship" if exp["rel"] else "node", what)
            if key in seen_q:
                continue
            seen_q.add(key)
            ctx.report(key, "query built from %s rendered as %r parses back as %s (%s)" % (json.dumps(exp), ev["text"], json.dumps(got), ev["note"]), {"shape": exp})
        # 3b. create queries through both builders
        csp = os.path.join(ctx.work, "createshapes.ndjson")
        write_ndjson(csp, create_shapes)
        ct = os.path.join(ctx.work, "createshapes-trace.ndjson")
        ctx.vh(["front", "createshapes", "--in", csp, "--out", ct], timeout=900)
        n4, rej4 = validate_histories(ctx, AREA, "CypherExprTrace", ct, chunk_events=20000, max_cand=40, parallel=2)
        ctx.cov["traces_validated_against_impl"] += n4
        ctx.cov["evaluations"] += n4 + len(rej4)
        ctx.cov["create_shapes"] = len(create_shapes)
        seen_c = set()
        for hid, ev, events, pos in rej4:
            f = ev["facts"]
            what = ("panic" if ev["panic"] else "emitted-text-does-not-parse" if not ev["reparse_ok"] else
                    "reads-a-variable-it-neither-binds-nor-creates" if not set(f["refs"]) <= set(f["bound"]) | set(f["created"]) else
                    "create-clause-lost-or-duplicated" if f["creates"] != 1 else "builders-disagree-on-bindings")
            key = "create-query/%s/%s" % (ev["builder"], what)
            if key in seen_c:
                continue
            seen_c.add(key)
            ctx.report(key, "create query %s built with the %s builder: %r binds %s, creates %s, reads %s; the other builder binds %s, creates %s (%s)" % (
                json.dumps(ev["expected"]), ev["builder"], ev["text"], f["bound"], f["created"], f["refs"], ev["peer_bound"], ev["peer_created"], ev["note"]), {"create_shape": ev["expected"]})
    # 3c. the Neo4j driver's query rewrite (reached through the verif-tagged export): meaning-preserving on temporal texts, the corpora
    #     and the grammar corpus
    if rep is None or "rewrite_text" in rep:
        ctx.grammar_corpus(maxlen=2)
        rt = os.path.join(ctx.work, "rewrite.ndjson")
        ctx.vh(["front", "rewrite", "--out", rt] + (["--text", rep["rewrite_text"]] if rep else []), timeout=1800)
        n5, rej5 = validate_histories(ctx, AREA, "CypherExprTrace", rt, chunk_events=40000, max_cand=40, parallel=6)
        ctx.cov["traces_validated_against_impl"] += n5
        ctx.cov["evaluations"] += n5 + len(rej5)
        ctx.cov["rewrite_texts"] = n5 + len(rej5)
        ctx.cov["rewrite_changed"] = sum(1 for ln in open(rt) if '"changed":true' in ln)
        seen_r = set()
        for hid, ev, events, pos in rej5:
            what = "panic" if ev["panic"] else "rewritten-text-does-not-parse" if not ev["reparse_ok"] else "meaning-changed"
            key = "neo4j-rewrite/%s/%s" % (ev["class"].split(":")[0], what)
            if key in seen_r:
                continue
            seen_r.add(key)
            ctx.report(key, "the Neo4j driver rewrites %r to %r (%s)" % (ev["text"], ev["rewritten"], ev["note"]), {"rewrite_text": ev["text"]})
    # 4. literals of every type, with values that need all the precision of their type
    if not ctx.replay:
        lt = os.path.join(ctx.work, "literals.ndjson")
        ctx.vh(["front", "literals", "--out", lt], timeout=600)
        n3, rej3 = validate_histories(ctx, AREA, "CypherExprTrace", lt, chunk_events=20000, max_cand=40, parallel=2)
        ctx.cov["traces_validated_against_impl"] += n3
        ctx.cov["evaluations"] += n3 + len(rej3)
        seen_l = set()
        for hid, ev, events, pos in rej3:
            what = "panic" if ev["panic"] else "emitted-text-does-not-parse" if not ev["reparse_ok"] else "type-changed" if ev["parsed_type"] != ev["expected_type"] else "value-changed"
            key = "literal/%s/%s/%s" % (ev["path"], ev["literal"].split(":")[0], what)
            if key in seen_l:
                continue
            seen_l.add(key)
            ctx.report(key, "literal %s rendered (%s) as %r reads back as %s, same value=%s (%s)" % (ev["literal"], ev["path"], ev["text"], ev["parsed_type"], ev["same_value"], ev["note"]),
                       {"literal": ev["literal"], "path": ev["path"]})
    nt = sum(1 for t in terms if t["b"] != "atom" and any(x.get("b") in ("and", "or", "xor", "not") for x in (t.get("xs") or [t.get("x") or {}])))
    ctx.cov["distinct_nontrivial"] = nt
    ctx.cov["samples"] += [json.loads(x) for x in open(trace).read().splitlines()[700:702]]
    ctx.cov["exhaustive"] = True
    ctx.cov["rule"] = ("every builder term of depth <= 2%s over And/Or/Xor/Not and three atoms (%d terms), built with the real package query constructors, emitted by "
                       "the plain emitter (after parameter naming) and by the Neo4j query builder's Render, parsed by the real parser; plus kind matchers with 1-3 kinds, "
                       "any-of and all-of, alone, negated and in a conjunction.  non-trivial = a combinator directly under another combinator" % (
                           "" if quick else " plus the depth-3 closure", len(terms)))
    seen = set()
    for hid, ev, events, pos in rejected:
        key = classify(ev)
        if key in seen:
            continue
        seen.add(key)
        if ev["e"] == "c10":
            one = os.path.join(ctx.work, "one.ndjson")
            write_ndjson(one, [ev["term"]])
            t1 = os.path.join(ctx.work, "one-t.ndjson")
            ctx.vh(["front", "build", "--in", one, "--out", t1, "--seed", str(ctx.seed + ev["hid"] // 2)])
            lines = [json.loads(x) for x in open(t1)]
            again = [e for e in lines if e["e"] == "c10" and e["path"] == ev["path"]]
            t2 = os.path.join(ctx.work, "one-t2.ndjson")
            write_ndjson(t2, again)
            ok, _, _ = ctx.validate_trace(AREA, "CypherExprTrace", t2)
            if ok:
                raise ToolFailure("UNREPRODUCED candidate %s" % json.dumps(ev["term"]))
        ctx.report(key, "%s: %s emitted as %r parses back as %s" % (ev.get("path", "kind"), json.dumps(ev.get("term", {"exclusive": ev.get("exclusive"), "n": ev.get("n")})),
                                                               ev["text"], json.dumps(ev.get("parsed", ev.get("meaning")))), {"term": ev.get("term", {"b": "atom", "v": "a"})})


def selftest(ctx):
    tp = os.path.join(ctx.work, "t.ndjson")
    write_ndjson(tp, [{"b": "and", "xs": [{"b": "or", "xs": [{"b": "atom", "v": "a"}, {"b": "atom", "v": "b"}]}, {"b": "atom", "v": "c"}]}])
    t = os.path.join(ctx.work, "tr.ndjson")
    ctx.vh(["front", "build", "--in", tp, "--out", t])
    ok, _, _ = ctx.validate_trace(AREA, "CypherExprTrace", t)
    lines = open(t).read().splitlines()
    e = json.loads(lines[0]); e["parsed"] = {"k": "or", "xs": [{"k": "atom", "v": "a"}, {"k": "and", "xs": [{"k": "atom", "v": "b"}, {"k": "atom", "v": "c"}]}]}; lines[0] = json.dumps(e)
    open(t, "w").write("\n".join(lines) + "\n")
    ok2, stuck, _ = ctx.validate_trace(AREA, "CypherExprTrace", t)
    print("selftest C10: clean accepted=%s corrupted accepted=%s stuck=%s" % (ok, ok2, stuck))
    return 0 if ok and not ok2 else 1

"""C04 — user-controlled text cannot change the token structure of emitted SQL.  DESIGN.md 4/C04."""
import json, os, re
from lib.vcheck import ToolFailure, validate_histories, write_ndjson

AREA = "Sql"


def gen_cfg(maxlen):
    return "SPECIFICATION Spec\nCONSTANTS\n  Alphabet <- McAlphabet\n  MaxLen = %d\n" % maxlen


def check_cfg(maxlen, alias):
    return "SPECIFICATION Spec\nCONSTANTS\n  Alphabet <- McAlphabet\n  MaxLen = %d\n  CheckAlias = %s\n" % (maxlen, "TRUE" if alias else "FALSE")


CLASS = {"\r": "carriage-return", "'": "single-quote", '"': "double-quote", "\\": "backslash", "`": "backtick", "-": "dash", "/": "slash", "*": "star", "$": "dollar", ";": "semicolon", "\n": "newline",
         "%": "percent", "_": "underscore"}


def classify(ev):
    if ev["e"] == "comment":
        chars = sorted({CLASS.get(c, "plain") for c in ev["payload"]} - {"plain"}) or ["plain"]
        return "%s/query-comment-ends-early/%s" % (ev["pos"], "+".join(chars))
    if ev["panic"]:
        return "%s/panic" % ev["pos"]
    chars = sorted({CLASS.get(c, "plain") for c in ev["payload"]} - {"plain"}) or ["plain"]
    if ev["kind"] == "same":
        return "%s/sql-depends-on-the-name" % ev["pos"]
    if ev["kind"] == "bound":
        return "%s/%s" % (ev["pos"], "parameter-value-inlined" if not ev["same_sql"] else "parameter-value-lost")
    if ev["kind"] == "frag":
        return "%s/fragment-token-structure-changed/%s" % (ev["pos"], "+".join(chars))
    if not ev["aligned"]:
        return "%s/statement-changed-outside-the-value" % ev["pos"]
    if ev["kind"] == "ident":
        return "%s/identifier-written-verbatim" % ev["pos"]
    return "%s/value-token-wrong/%s" % (ev["pos"], "+".join(chars))


def run(ctx):
    quick = ctx.tier == "quick"
    ctx.assumptions += ["TLC 1.8.0 + CommunityModules", "PostgreSQL lexing per scan.l with standard_conforming_strings = on (the server default since 9.1), modelled in spec/Sql/PgLex.tla; LIKE with the "
                        "default escape character", "alphabet: ' \" \\ ` - / * $ ; a e newline % _ and a two-byte rune; payload length <= 3 (quick) / 4 (thorough) for the mechanism model, "
                        "<= 2 / 3 for injection into the real translator (<= 2 where whole statements are lexed)",
                        "the character comparison of the hostile and the benign statement around the value token is done by the harness (string equality); everything lexical is decided by the spec",
                        "the Cypher text for a payload is written with \\\\ and \\' escapes in string positions and inside backticks in name positions (no backtick in the payload there)"]
    # 1. the quoting mechanisms over every payload
    r = ctx.tlc(AREA, "PgLexCheck", cfg_text=check_cfg(3 if quick else 4, False), workers=4, timeout=3000)
    if not r.clean:
        raise ToolFailure("PgLexCheck: literal / LIKE / fragment / quoted-identifier quoting is not safe in the model:\n" + r.out[-2000:])
    m = re.search(r'<<"payloads", (\d+)>>', r.out)
    if not m:
        raise ToolFailure("PgLexCheck did not report the number of payloads it checked:\n" + r.out[-1500:])
    # every payload is one evaluated case of each quoting mechanism (literal, three LIKE forms, fragment, quoted identifier)
    ctx.cov["states"] += int(m.group(1))
    ctx.cov["transitions"] += int(m.group(1)) * 6
    if not quick:
        r2 = ctx.tlc(AREA, "PgLexCheck", cfg_text=check_cfg(2, True), workers=4, timeout=900, copy_suffix="alias")
        if not r2.assumption_false:
            raise ToolFailure("negative control failed: identifiers written verbatim are safe in the model")
        ctx.cov["negative_control"] = "CheckAlias = TRUE (identifiers written verbatim) is falsified by TLC"
    # 2. payloads into the real translator
    g = ctx.tlc(AREA, "PgLexGen", cfg_text=gen_cfg(2 if quick else 3), workers=4, timeout=900)
    payloads = ctx.printed_json(g.out)
    if len(payloads) < 200:
        raise ToolFailure("PgLexGen printed %d payloads:\n%s" % (len(payloads), g.out[-1500:]))
    # two more characters that the cfg alphabet leaves out: a non-BMP rune and a carriage return, alone and next to a quote
    payloads += [["\U0001F600"], ["\r"], ["'", "\U0001F600"], ["\U0001F600", "'"], ["\r", "'"], list("' or 1=1 --"), list("'; drop table node; --"), list("$$;$$"), list("\\'; --"),
                 ["a"] * 300 + ["'"] + ["a"] * 300]
    pp = os.path.join(ctx.work, "payloads.ndjson")
    write_ndjson(pp, payloads)
    trace = os.path.join(ctx.work, "inject.ndjson")
    ctx.vh(["sql", "inject", "--payloads", pp, "--out", trace, "--frag-max", "2", "--ident-max", "1" if quick else "2"], timeout=3000)
    n_ok, rejected = validate_histories(ctx, AREA, "PgLexTrace", trace, chunk_events=500, max_cand=300, parallel=14, timeout=3000)
    ctx.cov["traces_validated_against_impl"] += n_ok
    ctx.cov["evaluations"] += n_ok + len(rejected)
    by_pos, accepted, hostile = {}, 0, 0
    sample = []
    for ln in open(trace):
        e = json.loads(ln)
        if e["e"] == "comment":
            ctx.cov["query_comments_checked"] = ctx.cov.get("query_comments_checked", 0) + 1
            continue
        by_pos[e["pos"]] = by_pos.get(e["pos"], 0) + 1
        if e["benign_ok"] and e["hostile_ok"]:
            accepted += 1
            if any(c in CLASS for c in e["payload"]):
                hostile += 1
                if len(sample) < 2 and e["kind"] == "string" and len(e["payload"]) == 2 and "'" in e["payload"]:
                    sample.append({k: e[k] for k in ("pos", "kind", "payload", "text", "aligned", "hws")})
    ctx.cov["payloads"], ctx.cov["positions"] = len(payloads), by_pos
    ctx.cov["accepted_pairs"] = accepted
    ctx.cov["distinct_nontrivial"] = hostile
    ctx.cov["samples"] += sample
    ctx.cov["exhaustive"] = True
    ctx.cov["rule"] = ("every payload x every position; a record is checked when both the benign and the hostile query are accepted (rejecting is allowed); for every accepted hostile query the text that translate.FromCypher (the driver's entry point) puts in front of the statement must lex to no token.  non-trivial = accepted pairs "
                       "whose payload holds at least one character with a lexical role in SQL")
    seen = set()
    for hid, ev, events, pos in rejected:
        key = classify(ev)
        if key in seen:
            continue
        seen.add(key)
        if ev["e"] == "comment":
            ctx.report(key, "position %s, payload %r, query %r: the stretch translate.FromCypher writes in front of the statement (the query as a -- comment) does not lex to nothing: %r" % (
                ev["pos"], "".join(ev["payload"])[:60], ev["text"][:200], "".join(ev["prefix"])[:300]), {"pos": ev["pos"], "payload": ev["payload"], "text": ev["text"]})
            continue
        ctx.report(key, "position %s (%s), payload %r, query %r: %s" % (
            ev["pos"], ev["kind"], "".join(ev["payload"])[:60], ev["text"][:200],
            "panic: " + ev["err"][:200] if ev["panic"] else
            "SQL differs from the benign SQL" if ev["kind"] == "same" else
            "same SQL=%s, payload among the returned parameter values=%s" % (ev["same_sql"], ev["value_bound"]) if ev["kind"] == "bound" else
            "the SQL text handed to the server-side function does not lex to the benign token sequence with one string token for the payload" if ev["kind"] == "frag" else
            "aligned with the benign statement=%s; where the benign statement has %r the hostile one has %r" % (ev["aligned"], ["".join(w) for w in ev["bws"]], ["".join(w) for w in ev["hws"]])),
            {"pos": ev["pos"], "payload": ev["payload"], "text": ev["text"]})


def selftest(ctx):
    pp = os.path.join(ctx.work, "p.ndjson")
    write_ndjson(pp, [["'"], ["a", "'"], ["\\"]])
    t = os.path.join(ctx.work, "t.ndjson")
    ctx.vh(["sql", "inject", "--payloads", pp, "--out", t, "--position", "where-equals"])
    ok, _, _ = ctx.validate_trace(AREA, "PgLexTrace", t)
    lines = open(t).read().splitlines()
    e = json.loads(lines[0]); e["hws"] = [["'", "'", "'"]]; lines[0] = json.dumps(e)     # as if the quote had not been doubled
    open(t, "w").write("\n".join(lines) + "\n")
    ok2, stuck, _ = ctx.validate_trace(AREA, "PgLexTrace", t)
    print("selftest C04: clean accepted=%s corrupted accepted=%s stuck=%s" % (ok, ok2, stuck))
    return 0 if ok and not ok2 else 1
